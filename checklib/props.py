# Per-property run configuration of ./check.
# runs[tier] is a list of child-process groups: build (plain|race), test entry
# point, number of parallel batches, watchdog (seconds; firing = inconclusive).

TRUST = [
    "refcodec (harness/refcodec): RFC 6733 reference codec written for the harness, cross-checked against byte fixtures quoted from the repository's tests",
    "refdict (harness/refdict): the harness's own XML reading and resolver; the static parent-application map is copied from the doc comment in diam/dict/util.go",
]


def plain(test, batches=8, timeout=900, **kw):
    d = dict(build="plain", test=test, batches=batches, timeout=timeout)
    d.update(kw)
    return d


def race(test, batches=4, timeout=1200, **kw):
    d = dict(build="race", test=test, batches=batches, timeout=timeout)
    d.update(kw)
    return d


PROPS = {
    "C01": dict(
        level="exploration",
        rule="messages drawn from a PRNG keyed by (seed, case index) over 10 dictionary contexts (library default set, each embedded dictionary on top of base, a generated dictionary with all 18 type names): header with any flag byte / boundary ids, AVP trees to depth 6 with defined, vendor-specific and undefined codes; each case is built through NewMessage/NewAVP/AddAVP/InsertAVP (or with its groups assembled top-down: nested groups attached while still empty, the outer AVP sized in between, then filled), serialised, read back, compared (header, ordered tree, typed values) and serialised again, and its reference-encoded image is read and re-serialised. Further suites: chains of groups nested 7..120 deep, one AVP of 65 507 .. 1 MiB bytes (around the 64 KiB steps of the body reader), the known-risk Address classes (wire direction), and one message object emitted by 2..6 goroutines at once through Serialize / SerializeTo / WriteTo / WriteToWithRetry (every emission compared with the reference image; race build: any write to the shared message is a reported race). distinct_nontrivial counts distinct (dictionary, data type, payload length mod 4, nesting depth, V flag) classes of AVPs seen in the generated trees.",
        runs=dict(
            quick=[plain("TestC01", 8), race("TestC01", 2)],
            thorough=[plain("TestC01", 16, 3000), race("TestC01", 8, 3000)],
        ),
        floor=dict(quick=30000, thorough=1000000),
        need_events=["api_roundtrip_ok", "wire_roundtrip_ok"],
        assumptions=TRUST + ["values outside a type's domain (16-byte slice in an IPv4, Time outside 1968-01-20..2104-02-26) are not generated: the property says 'valid for their data types'"],
    ),
    "C02": dict(
        level="exploration",
        rule="same generated messages as C01: the library's Serialize() is compared byte for byte with refcodec.EncodeMessage, and the typed values the library reads from the reference image with the abstract values; plus random NewAVP/AddAVP/InsertAVP/Marshal operation sequences with the length bookkeeping checked after every step, the assembled message then emitted with WriteToWithRetry to a transport that interrupts 0..3 attempts after accepting part of the bytes (what arrived must be the reference image), one message object emitted by several goroutines at once (as in C01), and exhaustive sweeps of the 24-bit length/command conversions, the pad-to-4 function and (thorough) every 32-bit payload of the six 4-byte types. distinct_nontrivial counts distinct (dictionary, data type, payload length mod 4, depth, V) classes plus one class per sweep and per operation kind.",
        runs=dict(
            quick=[plain("TestC02", 8), plain("TestC02Sweeps", 8), race("TestC02", 2)],
            thorough=[plain("TestC02", 16, 3000), plain("TestC02Sweeps", 16, 3000), race("TestC02", 8, 3000)],
        ),
        floor=dict(quick=30000, thorough=1000000),
        need_events=["api_built", "ref_decode_ok"],
        assumptions=TRUST,
    ),
    "C20": dict(
        level="exploration",
        rule="AVP trees (dense trees over 6 codes with repeats at several depths, groups in groups, empty groups, undefined codes; and trees drawn from every dictionary context), built through the API or obtained by decoding, are queried with FindAVP / FindAVPs / FindAVPsWithPath by int, uint32 and name, for codes present, absent, undefined, with wildcard / exact / wrong vendor, alternating between two generated dictionaries in which the same names mean different codes; results are compared by pointer identity and order with a reference pre-order walk, and the message's AVP tree must be untouched afterwards. Further suites: chains of groups nested 1..128 deep decoded from the wire and up to 257 deep built through the API, with a leaf at every level (search by number, by name and by the full path); 2..8 goroutines searching one message at the same time after a search that found nothing (race build: any write by a search is a reported race). distinct_nontrivial counts distinct (origin, query kind, query form, number of hits capped at 3, resolvable) and (path length, hits, resolvable) classes.",
        runs=dict(quick=[plain("TestC20", 8), race("TestC20", 2)], thorough=[plain("TestC20", 16, 3000), race("TestC20", 8, 3000)]),
        floor=dict(quick=20000, thorough=1000000),
        need_events=["queries", "path_queries"],
        assumptions=TRUST + ["for a numeric code the dictionary does not define the library may answer 'not found' or the reference result, never a different AVP"],
    ),
    "C16": dict(
        level="exploration",
        rule="Message.Answer over the header space: all 256 flag bytes x the 16 boundary identifier pairs {0,1,2^31,2^32-1}^2 plus random pairs, commands/applications of every dictionary context plus undefined ones, result codes 0 / 2xxx / 3xxx / 5xxx / random; every answer is serialised and checked field by field by the reference decoder. CEA (success and every error class) and DWA produced by the state machine, and the transport stream of replies on the in-memory SCTP association (streams 0..15 and 65535; several DWRs with different flag bytes on different streams of one state machine; an answer written late from another goroutine after the reader moved on, incl. one that is resumed after a temporary transport error), are checked by the same mirror oracle. Suite 'concurrent-answers': 2..16 requests on different streams answered at the same moment from goroutines of their own (WriteTo / WriteToWithRetry), six rounds per case: each answer on the stream of its request. Thorough: every (CER, DWR, application) stream triple. distinct_nontrivial counts distinct (identifier class, R, P, result-code-zero) classes and (source, stream) classes.",
        runs=dict(quick=[plain("TestC16", 8), race("TestC16Stream", 4)], thorough=[plain("TestC16", 16, 3000), race("TestC16Stream", 8, 3000)]),
        floor=dict(quick=2000, thorough=30000),
        need_events=["answers_checked", "stream_answers_checked"],
        assumptions=TRUST,
    ),
    "C04": dict(
        level="exploration",
        rule="message bodies assembled from raw (code, flags, vendor, declared length, payload) records under the generated and the default dictionary: fixed-width types with payloads of every length 0..20, Address payloads of every family class x length 0..20, string types and unknown codes whose payloads are runs of valid AVP images, grouped codes nested to depth 5 (plus chains 6..100 deep with a good or bad record at the bottom, and payloads of 65 527 .. 196 608 bytes whose length needs all 24 bits), and one injected inconsistent length in a third of the cases (declared < 8, V flag with declared < 12, declared beyond / short of the actual bytes, 0xFFFFFF, length counting the padding). The reference framer walks the same bytes by declared length rounded up to 4, recursing where the dictionary says Grouped; the library's AVP list (count, order, code, flags, vendor, Length, payload where observable) must equal it, and mis-framed bodies must be rejected. Suite 'delivery': well-framed bodies read (a) through a transport that reports one temporary or timeout error after any number of bytes and then goes on (the read must fail or report exactly the walk's AVPs - never AVPs made of bytes from further on), (b) by 2..4 goroutines at the same time through readers that yield between fragments, a quarter of the cases after the process has read a body above 64 KiB (pooled read buffers must not be shared). distinct_nontrivial counts distinct (dictionary, record type, payload length / family class, depth) and (injection kind, outcome) classes.",
        runs=dict(quick=[plain("TestC04", 8), race("TestC04", 2)], thorough=[plain("TestC04", 16, 3000), race("TestC04", 4, 3000)]),
        floor=dict(quick=50000, thorough=1000000),
        need_events=["wellframed_accepted_equal", "ref_misframed", "groups_direct"],
        assumptions=TRUST + ["a well-framed body may be rejected only for an Address payload that is invalid (shorter than 3 bytes, family 0/65535, IPv4/IPv6 family with the wrong size); a missing padding after the final AVP is a don't-care"],
    ),
    "C05": dict(
        level="exploration",
        rule="sequences of 1..8 numbered messages with body sizes from {0,12,100,1000,1004,1008,1024,1028,4076,4096,65000} (below/at/above the 1 KiB pooled buffer and the 4 KiB bufio buffer) are concatenated and delivered to ReadMessage over a plain fragmenting reader (byte-exact consumption counter), over bufio, to a real connection (diam.NewConn over the in-memory transport; thorough: loopback TCP), to 2..4 connections reading at the same time with their fragments interleaved, and to a server with a read timeout where one pause exceeds the timeout inside a header / inside a body / between messages (incl. a message whose bytes from offset 16 on are themselves a well-formed message): every 1-cut and 2-cut and every truncation point for short streams, random cut sets incl. all-1-byte reads and random truncation for long ones, every declared length 0..19 followed by more data, and one body above the 64 KiB growth step of the body reader (65 532 .. 200 000 bytes) placed first, in the middle or last among small messages. The large body is one AVP or ~65..200 AVPs of 1008 bytes, and half of those streams end inside it - on an AVP boundary of the body or anywhere. Several connections reading at the same time (fragments of a few dozen bytes or of several KiB), half of them after their handlers requested CloseNotify (bytes then pass through the notifier's pipe): every connection's handler must see exactly its own messages. distinct_nontrivial counts distinct (stream shape, leading body sizes / message count / fragment count / declared length) classes.",
        runs=dict(quick=[plain("TestC05", 8), race("TestC05", 2, env={"VERIF_C05_RACE": 1})], thorough=[plain("TestC05", 16, 3000), race("TestC05", 4, 3000)]),
        floor=dict(quick=3000, thorough=100000),
        need_events=["streams_checked", "short_lengths_rejected", "conn_streams"],
        assumptions=TRUST + ["messages are drawn from classes C01 holds on (one OctetString or Unsigned32 AVP of the generated dictionary), so re-serialisation of a returned message identifies it"],
    ),
    "C06": dict(
        level="exploration",
        rule="histories 'read M1; snapshot; read M2..Mk; compare': M1 is drawn over the data types that could be views into the input (Address incl. vendor-specific, IPv4, IPv6, unknown AVPs with and without vendor, OctetString, groups nested to depth 3 containing them), body below and above the 1 KiB pooled buffer; the retained message may carry a v4-mapped IPv6 address or lack the padding of its last AVP (non-canonical form); M2..Mk have the same layout with different bytes and are read - and written out again, as a relay does - on the same reader, another reader, another goroutine, or concurrently with a goroutine that keeps re-rendering M1 (race build: any write into memory reachable from a returned message is a reported data race); plus a handler on a real connection that keeps every message and re-renders it after the rest arrived. GC is disabled during plain-build histories so that pooled buffers are really reused. Suite 'lowered-depth-limit': with the public diam.MaxGroupedAVPDepth lowered to 1..5, chains of groups nested up to limit+3 holding Address / unknown / OctetString / IPv4 AVPs: a message the decoder returns (whatever it does at and beyond the limit) must not change after five further reads. distinct_nontrivial counts distinct (data type, depth, big, mode) classes.",
        runs=dict(quick=[plain("TestC06", 8), race("TestC06", 4)], thorough=[plain("TestC06", 16, 3000), race("TestC06", 8, 3000)]),
        floor=dict(quick=10000, thorough=300000),
        need_events=["histories_checked", "conn_histories"],
        assumptions=TRUST,
    ),
    "C03": dict(
        level="exploration",
        rule="inputs: (1) deterministic structured corruptions of valid seed messages drawn under every dictionary context - every length field (message, every AVP at every depth) set to each of {0,1,7,8,9,11,12,13,true-1,true+1,true+4,container,container+1,0xFFFFFF} (+19,20,21 for the message length), truncation at every offset, every flag bit of the header and of every AVP flipped, version byte, V flag with Length 8..11; (2) every dictionary type with payload lengths 0..17 and Address with 7 family classes x lengths 0..20; (3) nest bombs on a geometric depth grid; (3b) headers that claim 70 000 .. 16 MiB with 0 .. 1 MiB of body actually supplied; (4) random strings with plausible headers; (5) the 16 MiB extremes in their own child processes; thorough adds coverage-guided native fuzzing seeded with (1). Every input goes to ReadMessage, DecodeHeader, DecodeAVP, DecodeGrouped; every decoded message is rendered (String, PrettyDump), re-serialised, measured, unmarshalled into six struct shapes incl. the state machine's CER/CEA/DWR/DWA, searched and answered. Oracles: recover() around every call, child exit status with the current input logged before each call, TotalAlloc delta <= 64*len+1MiB per decoding call, goroutine stack capped at that bound with debug.SetMaxStack during decoding. Every input is also read through a diam.MultistreamReader (the path ReadMessage takes on SCTP connections) under the same panic and memory oracles, and must be accepted or rejected like the plain read. distinct_nontrivial counts distinct corruption classes (kind, depth, value index / type, length).",
        runs=dict(quick=[plain("TestC03", 8, 900, gomaxprocs=2), plain("TestC03Extremes", 5, 300, gomaxprocs=2), race("TestC03", 4, 900, gomaxprocs=2)],
                  thorough=[plain("TestC03", 16, 3000, gomaxprocs=1), plain("TestC03Extremes", 5, 300, gomaxprocs=2), race("TestC03", 8, 3000, gomaxprocs=2),
                            dict(build="fuzz", test="FuzzC03", iters=3000000, workers=12, timeout=3000)]),
        floor=dict(quick=15000, thorough=500000),
        need_events=["readmessage_calls", "readmessage_ok", "messages_inspected"],
        assumptions=TRUST + ["the memory bound is applied to decoding calls; rendering a decoded tree is legitimately super-linear in depth x size and is only checked for panics and aborts"],
    ),
    "C17": dict(
        level="exploration",
        rule="(a) exhaustively for every AVP definition of every dictionary context (library default set, each embedded file on base, generated): lookups by uint32, int and name for 11 application ids (own, children 16777251/16777238 -> 4 -> 1 -> 0, unrelated, undefined) x 4 vendors (own, wildcard, 0, foreign) x codes {c, c+1, c-1}, compared entry by entry with the reference resolver (and on a sample with a second, scan-based reference); every command x 12 applications and every application id x {no type, auth, acct, other}; (b) generated dictionary sets of 2..4 files (overlapping application ids incl. the static parent map, same code with different vendors, names redefined, same key in later files, typed and untyped applications) loaded in every order, with 245 keys + commands + applications re-queried after each load (reference comparison and monotonicity), followed by two loads that fail part-way (unsupported type after restated definitions; a file loaded twice) after which everything that resolved must still resolve; (c) every type name in datatype.Available declared, encoded through the API and decoded through ReadMessage; (d) the compiled constants of diam/avp/codes.go, diam/commands.go and diam/applications.go against the embedded XML under autogen.sh's naming rule. distinct_nontrivial counts distinct (dictionary, type, application relation, resolved) classes plus per-suite classes.",
        runs=dict(quick=[plain("TestC17", 8)], thorough=[plain("TestC17", 16, 3000)]),
        floor=dict(quick=1000, thorough=5000),
        need_events=["lookups", "load_orders", "type_roundtrips", "avp_constants_checked"],
        assumptions=TRUST,
    ),
    "C18": dict(
        level="exploration",
        rule="a hand-written family of 9 struct types against the generated dictionary (one AVP per type name, nested groups, vendor-specific AVPs) and the default dictionary: native Go scalars (string, []byte, int*, uint*, float*, time.Time, net.IP), every datatype type incl. IPv4/IPv6/QoSFilterRule, *T, []T, []*T, [][]byte, AVP / *AVP / []*AVP tagged with grouped and non-grouped AVPs, nested / pointer-to / slice-of / anonymous / embedded structs, omitempty on every kind next to a field without it, embedded structs that are not the first field; struct types generated with reflect.StructOf from the AVP names that resolve differently for different applications, used for several applications in both orders; values drawn with zero values, empty (non-nil) slices and nil pointers. Each value is marshalled, the AVP list compared with the list built by hand from the dictionary (code, vendor id, M, V, typed value), unmarshalled directly and after Serialize -> ReadMessage into a fresh value and compared (nil == empty slice, Time by second, floats by bits). Suite 'after-failed-load': the same shapes against a private parser before and after a Load that restates the generated dictionary and then fails on an unknown data type (what marshalled before must marshal and round-trip after). distinct_nontrivial counts distinct (struct type, number of AVPs produced) classes.",
        runs=dict(quick=[plain("TestC18", 8), plain("TestC18Apps", 4)], thorough=[plain("TestC18", 16, 3000), plain("TestC18Apps", 8)]),
        floor=dict(quick=30000, thorough=1000000),
        need_events=["roundtrips", "avps_compared", "app_marshals"],
        assumptions=TRUST + ["within one struct each AVP name is used by one field; net.IP values are 4-byte IPv4 or 16-byte non-v4-mapped IPv6; -0.0 under omitempty counts as empty; a zero-valued diam.AVP struct field (no Data) is outside the family"],
    ),
    "C07": dict(
        level="fault_enumeration",
        rule="(a) W in {1,2,3,8,32} goroutines each write numbered messages through one of three entry points (WriteTo of a fresh message, WriteToStream on stream 0 like an answer, WriteToStreamWithRetry on another stream) (sizes 60..20000 bytes, below and above the 1 KiB serialisation buffer and the 4 KiB write buffer) to one diam.Conn over an in-memory transport that stalls at a pseudo-random byte position inside two thirds of its Write calls; the transport's byte log is framed by the reference codec and checked offline: only whole messages, each successful write exactly once, fillers intact, per-writer order; run on the plain scheduler (GOMAXPROCS 16 and 2) and under the race detector; a third of the runs use a transport whose Write is not atomic per call (200-byte chunks, other writers may get in between), and a further suite writes over a real loopback TCP socket. (b) every script of up to 3 (thorough 4) outcomes (k bytes accepted, temporary error) with k in {0,1,19,20,21,len-1}, ended by success or a permanent error, x retry budgets {temps-1, temps, temps+1}, for WriteToWithRetry on a plain io.Writer, through a diam.Conn with a 44-byte and a 5000-byte message (and through the SCTP backend): bytes received must be exactly the accepted prefixes of the remaining bytes, never a byte range twice, n = bytes accepted, error class as scripted. A quarter of the concurrent-writer runs write on a connection accepted by a Server with ReadTimeout/WriteTimeout configured, mostly with messages of 20..68 KB. distinct_nontrivial counts distinct writer counts, interleaving fingerprints (hash of the writer order on the wire mod 4096) and (path, temps, budget, ending) classes.",
        runs=dict(quick=[plain("TestC07", 8), plain("TestC07", 2, gomaxprocs=2, env={"VERIF_C07_PART": "a"}), race("TestC07", 4)],
                  thorough=[plain("TestC07", 16, 3000), plain("TestC07", 4, 3000, gomaxprocs=2), race("TestC07", 8, 3000)]),
        floor=dict(quick=500, thorough=10000),
        need_events=["messages_on_wire", "retry_scripts"],
        assumptions=TRUST + ["one Write call on the in-memory transport is atomic (contiguous in the log) like write(2) on a socket; a stall is taken while holding the transport's own write lock"],
    ),
    "C08": dict(
        level="exploration",
        rule="scenarios inside testing/synctest bubbles (virtual clock, quiescence detection): K in {1,3,5} connections accepted by Server.Serve over a scripted listener or wrapped with diam.NewConn, the handler being a plain function or a shared ServeMux with handlers registered by short name for three commands, each connection receiving 1..12 (a quarter of the scenarios: 33..122) numbered requests as one burst, one byte at a time, or as 37-byte fragments interleaved across the connections; handlers return at once, sleep (virtual time), or one handler blocks until the scenario releases it. Online monitor per connection: the message handed to the handler is byte for byte the one sent on that connection, in-flight counter at handler entry must be 0 and the sequence number must be previous+1; with one handler held, every other connection must have all its messages dispatched at quiescence and the held connection none beyond the held one. A third of the scenarios start after earlier events in the life of the server / mux: a connection whose TLS handshake failed, a connection whose handler panicked followed by a handler registration on the shared mux. distinct_nontrivial counts distinct (K, accepted/dialled, arrival pattern, handler kind, mux, long burst) classes and distinct interleaving fingerprints (hash of the order of handler entries across connections, mod 4096).",
        runs=dict(quick=[race("TestC08", 8)], thorough=[race("TestC08", 16, 3000), plain("TestC08", 8, 3000)]),
        floor=dict(quick=400, thorough=20000),
        need_events=["handler_invocations", "blocked_handler_scenarios"],
        assumptions=TRUST + ["the in-memory transport and listener replace the kernel; quiescence (all goroutines durably blocked) replaces wall-clock waiting"],
    ),
    "C09": dict(
        level="exploration",
        rule="exhaustive decision table on a fresh ServeMux: all 2^9 subsets of nine registration keys around a message's own key (own index; index differing in application, in code, in the R bit; own short name+R/A; the opposite R/A name; another command's name; ALL by name; ALL_CMD_INDEX by index) x 12 messages (request/answer x base commands, application commands, an application id that falls back to the base dictionary, an unknown application id), every handler instrumented with its key, followed by re-registration of every key with a second handler; (application, code) pairs the dictionary does not resolve - an unknown code and codes only a parent or another application defines - with the foreign names and indexes registered; a sample of rows through a real connection; and concurrent histories of re-registration and dispatch by 2..4 goroutines recorded at the call boundary and checked with porcupine against the sequential model 'three slots + decision function'. distinct_nontrivial counts distinct selected-handler classes and history shapes.",
        runs=dict(quick=[race("TestC09", 8)], thorough=[race("TestC09", 16, 3000)]),
        floor=dict(quick=700, thorough=10000),
        need_events=["dispatches", "histories_linearizable"],
        assumptions=TRUST + ["only messages whose command the dictionary resolves can be 'incoming' (ReadMessage rejects the others); the reference decision function is 10 lines"],
    ),
    "C11": dict(
        level="exploration",
        rule="end to end through Server + StateMachine over the in-memory transport inside synctest bubbles: the exhaustive product of Origin-Host {absent,present} x Origin-Realm {absent,present} x Inband-Security-Id {absent,0,1} x every sequence of length 0..3 (thorough 0..4) over 13 application AVPs {Acct 3, Acct 4 (wrong type), Acct 999, Acct relay, Auth 4, Auth 3 (wrong type), Auth 999, Auth relay, VS{vendor,Auth 4}, VS{vendor,Auth 999}, VS{vendor,Acct 3}, VS{vendor only}, VS{Auth 999,Auth 4}} with the in-band AVP placed at varying positions, rotating 0/1/2 configured host addresses, IPv4/IPv6 local endpoint and zero identifiers; then random multisets up to 12; then 2 x 24 scenarios with four peers on one state machine in every order, each from another local endpoint (IPv4 / IPv6) and with other applications, every connection's metadata re-read after each later handshake; and (own process) a local dictionary that declares one application id with two types. Also: the first 2..4 handshakes of a fresh state machine arriving at the same moment (every CEA complete); the configured address given through the deprecated singular Settings.HostIPAddress; (own process) a CER naming the application of a dictionary whose load failed part-way (accepted => advertised). CER and CEA are built / parsed by the reference codec; the acceptance predicate and the shared application set are computed from the dictionary XML by the harness; a gated probe handler reads the connection metadata. distinct_nontrivial counts distinct (host, realm, in-band, number of application AVPs) classes.",
        runs=dict(quick=[race("TestC11", 12), race("TestC11Dict", 2)], thorough=[race("TestC11", 16, 6000), race("TestC11Dict", 2)]),
        floor=dict(quick=20000, thorough=300000),
        need_events=["accepted", "rejected"],
        assumptions=TRUST + ["the default dictionary is the local dictionary; a refused CER may carry any result code whose cause applies (5017 in-band security required, 5010 no common application, 5012 identity missing)"],
    ),
    "C10": dict(
        level="exploration",
        rule="server role: a StateMachine as Server.Handler with application handlers registered by short name (ACR), by index ({4,272,request}) and as catch-all (by name or by ALL_CMD_INDEX) plus attempted registrations for CER/CEA/DWR by name and by index; a scripted peer sends every sequence of length 1..4 (thorough 1..5) over {acceptable CER, rejected CER, retransmitted CER, DWR, request of application A, request of application B, answer, unregistered command}, each message by message with quiescence in between and as one segment, then random sequences of length 5..30; client role: sm.Client.NewConn against a peer that answers the CER with every sequence of length 1..4 over {success CEA, failure CEA, requests, answer, unregistered, DWR} with at most one CEA. The handler-invocation log must equal what a 3-state reference gate (pre / ok / closed) allows, handler for handler; refused registrations never fire; CEA/DWA still appear on the transport. distinct_nontrivial counts distinct (role, length, first message, delivery mode) classes.",
        runs=dict(quick=[race("TestC10", 12)], thorough=[race("TestC10", 16, 6000)]),
        floor=dict(quick=9000, thorough=100000),
        need_events=["server_sequences", "client_sequences", "app_invocations", "gated_messages"],
        assumptions=TRUST + ["the reference gate: pre --acceptable CER--> ok, pre --rejected CER--> closed; only in ok does an application message cause exactly one invocation of the handler the dispatch rule of C09 selects"],
    ),
    "C12": dict(
        level="fault_enumeration",
        rule="sm.Client.NewConn over the in-memory transport against scripted peers under synctest's virtual clock: the product of MaxRetransmits N in {0..3} x RetransmitInterval {1 s, 2.5 s} x the CER index k in {never, 1..N+2} that gets the reply x reply kind {success CEA sharing an advertised application, failing result code, no Result-Code, no Origin-Host, success without application, success with an application unknown to the dictionary (plain and inside a vendor-specific group after the Vendor-Id), disconnect} x reply delay {0, interval/2, interval-1ms}; transports with back-pressure where the Write of a CER returns 0.5 / 1.5 / 3 intervals after the peer saw the bytes and the success CEA arrives meanwhile or shortly after; every successful script is continued with every sequence of 0..3 extra CEAs over {duplicate success, late failure, malformed} and then an application answer; the same client dialling a second peer while the first peer repeats its CEA into that handshake; client configurations rotate over 0..3 advertised application kinds, 0/1/2 configured addresses and IPv4/IPv6 local endpoints. Oracle: CER count <= N+1, byte-identical, Write entries >= interval apart (virtual time), identity / addresses / applications as configured; dial outcome and error class as scripted; transport closed iff failure; after success close count 0 and the answer dispatched exactly once; no reader panic in the log; no goroutine left at the end of the bubble. The configured address is also given through the deprecated singular Settings.HostIPAddress. distinct_nontrivial counts distinct (N, k, reply kind, number of extra CEAs) classes.",
        runs=dict(quick=[race("TestC12", 12)], thorough=[race("TestC12", 16, 6000), plain("TestC12", 8, 3000)]),
        floor=dict(quick=2000, thorough=4000),
        need_events=["successful_handshakes", "failed_handshakes", "extra_ceas"],
        assumptions=TRUST + ["'sharing an application with the client' is decided only for the two unambiguous kinds of CEA: applications the client advertised (must succeed) and applications absent or unknown to the dictionary (must fail)"],
    ),
    "C13": dict(
        level="fault_enumeration",
        rule="client role under synctest's virtual clock, after a scripted handshake with EnableWatchdog: the product of MaxRetransmits N in {0..3} x (WatchdogInterval, RetransmitInterval) in {(5 s,1 s),(2 s,3 s)} x transport schedule {answer queued at once, the client's Write returns 10 ms after the peer saw the bytes with the answer arriving in between, answer 1 ms before the retransmit timer} x peer pattern {answer every DWR for 30 periods, stop after the n-th round n=0..3, answer only the j-th transmission of every round j=0..N+1, answer with a failing result code}. Oracle over the transport's write log in virtual time: first DWR >= WatchdogInterval after the handshake, every round >= WatchdogInterval after the previous one ended, retransmissions byte-identical, >= RetransmitInterval apart, exactly N of them when unanswered, then Close (>= RetransmitInterval later) and no further writes or library goroutines; with every DWR answered in time the close count stays 0 and at least floor(H/(W+round))-1 rounds happen within the horizon H (bounded progress). Server role: 2..6 handshaken connections on one state machine pipelining 40 DWRs each at the same moment (race detector + per-answer mirror check); DWRs with boundary identifiers, with/without Origin-State-Id and P bit to a handshaken state machine: exactly one DWA each, Result-Code 2001, local identity, mirrored header. With Settings.OriginStateID configured the DWA must carry it (and must not carry one otherwise). distinct_nontrivial counts distinct (N, pattern, schedule, W>R) classes.",
        runs=dict(quick=[race("TestC13", 12)], thorough=[race("TestC13", 16, 6000), plain("TestC13", 8, 3000)]),
        floor=dict(quick=800, thorough=8000),
        need_events=["silent_peer_detected", "responsive_peer_spared", "dwas_checked"],
        assumptions=TRUST + ["'eventually sends a watchdog request' is restated as bounded progress within a virtual-time horizon of 30 periods"],
    ),
    "C14": dict(
        level="fault_enumeration",
        rule="every ordering pre + termination + post with pre over {F deliver a fragment (fragments cut three numbered messages inside message boundaries), h arm CloseNotify in the next handler invocation, o CloseNotify from another goroutine while the reader is blocked} with at most 4 F and 3 notifier requests in total, termination in {peer EOF, transport read error, undecodable message, undecodable message with more data in flight behind it, local Close, EOF / read error returned by the same Read that returns the last bytes of a message, and a handler panic}, optionally with one write that meets a temporary transport error and is resumed (the connection stays up: no channel may be closed), post = CloseNotify requested after the termination (0..3 times): each ordering is executed inside a synctest bubble with quiescence between events, so the ordering is the schedule; the same orderings are also fired without quiescence points (racing) under the race detector; plus a real-scheduler stress suite (no bubble) in which four goroutines request CloseNotify with a swept delay exactly while the connection terminates (100 k rounds per quick run; a round that does not finish is decided by the goroutine dump); plus sm.Client with the watchdog enabled (the watchdog goroutine is itself a CloseNotify user) x 5 terminations x 0..2 completed watchdog exchanges. Oracle: no obtained channel closed at any quiescent point before the termination, every obtained channel closed at quiescence after it, no 'panic serving' in the captured log, handler log = the messages completely delivered before the termination in order, transport closed, and no goroutine with library frames left (goroutine dump at quiescence, after advancing virtual time past the watchdog interval). Terminations include a read error that calls itself temporary. Suite 'tls-client-handshake-failure': a TLS client connection (tls.Client over the in-memory transport, as DialTLS creates it) whose handshake fails by garbage / EOF / reset, CloseNotify requested before, during or after the failure. distinct_nontrivial counts distinct (termination, #F, #h, #o, #t) classes.",
        runs=dict(quick=[race("TestC14", 12)], thorough=[race("TestC14", 16, 6000), plain("TestC14", 8, 3000)]),
        floor=dict(quick=4000, thorough=50000),
        need_events=["orderings", "channels_checked", "client_watchdog_scenarios"],
        assumptions=TRUST + ["'eventually closed' is restated as 'closed at quiescence of the bubble'"],
    ),
    "C15": dict(
        level="fault_enumeration",
        rule="Server.Serve over a scripted in-memory listener inside synctest bubbles: K in {2,3} connections x 3 numbered requests with one fault at every (connection, position 0..3) x {handler panic, undecodable message, disconnect on a message boundary, disconnect inside a message}; a TLS connection whose peer stalls inside the handshake record at every accept position; 1..4 temporary Accept errors in a row at every position of the accept sequence, alone and combined with a fault; then random scenarios with K up to 5, up to two faults and accept errors. After the faults the application registers one more handler on the shared mux and a new connection is opened. Oracle at quiescence (virtual time absorbs the accept back-off): every request on a healthy connection and every request before the fault on a faulty one is answered (matched by hop-by-hop id), faulty transports are closed and healthy ones are not, one error report is readable iff undecodable input occurred, the post-fault connection is accepted and served, Serve has not returned, 'panic serving' is logged iff a handler panic was scripted. distinct_nontrivial counts distinct (K, fault kind, accept errors) classes.",
        runs=dict(quick=[race("TestC15", 8)], thorough=[race("TestC15", 16, 6000)]),
        floor=dict(quick=600, thorough=10000),
        need_events=["scenarios", "faults_injected", "answers_matched"],
        assumptions=TRUST,
    ),
    "C19": dict(
        level="exploration",
        rule="through the verif hook: an in-memory SCTP association (per-read stream tag, partial delivery) consumed exactly as in production by diam.NewConn(VerifNewSCTPConn(backend)) -> conn.serve -> ReadMessage. Small cases (1..3 streams out of 0..15 and 65535, 1..2 numbered messages each, up to 8 chunks in total, cuts inside headers, on boundaries and spanning messages): every interleaving of the per-stream chunk sequences, each delivered both chunk by chunk with quiescence in between and all at once; large cases (up to 16 streams, 6 messages of 20..5020 bytes per stream): random interleavings. Oracle: per stream the handler's log equals the sent ids in order, exactly once, with intact bytes and the sending stream as MessageStream(); every request gets exactly one SCTPWrite carrying one whole answer on the request's stream with the Diameter PPID; at every quiescent point VerifCheckStreams (heap order by buffered length, idx consistency, map/heap agreement, under the demultiplexer's own mutex) and conservation (delivered - handled - buffered >= 0 per stream, > 0 for at most one stream, all zero at the end); CloseNotify's error handler installed concurrently with reads and its channel closed after EOF; a third of the runs answer later, in reverse order, from four goroutines at once, the first of those answers being resumed after a temporary transport error. distinct_nontrivial counts distinct (size class, number of streams, number of chunks) classes and distinct delivery-order fingerprints (hash of the order in which the handler saw (stream, id), mod 4096).",
        runs=dict(quick=[race("TestC19", 12)], thorough=[race("TestC19", 16, 6000)]),
        floor=dict(quick=500, thorough=20000),
        need_events=["merges", "exhaustive_small_cases", "quiescent_points", "replies_checked"],
        assumptions=TRUST + ["the kernel's SCTP is replaced by a model of its socket semantics (hook file diam/sctp_verif.go, build tag verif); concurrent readers of one association are outside the property"],
    ),
}
