HOOK_COMMITS = ["991bba7"]
NOTES = "All checks are runtime monitors: the real library code is executed under generated / enumerated workloads and an oracle independent of the code decides. Three-valued verdicts: exit 0 held, exit 1 VIOLATION, exit 2 INCONCLUSIVE (watchdog / too little observed). Known findings: known_findings.json."
_NB = "not built yet in this session (work in progress; see DESIGN.md section 7)"
PENDING = {"C%02d" % i: _NB for i in range(1, 21)}
META = {
    "C01": dict(
        text="Exploration: tens of thousands (quick) to millions (thorough) of generated messages per run are pushed through the real encoder and decoder in both directions and compared field by field / byte by byte; it is a sampled search over an unbounded input space, so it shows the round trip held on the cases explored, not for all inputs.",
        design_ref="DESIGN.md section 4, C01",
        note="Trusts the harness generators and the abstract-tree comparison (harness/lib ToNode/FromNode); symmetric encoder/decoder errors are invisible here and are C02's job. Known-risk Address classes are generated in a separate suite (known findings).",
        technique="runtime differential monitor: round-trip oracle over generated messages on the real codec (plain + race/checkptr builds)",
    ),
    "C02": dict(
        text="Exploration with exhaustive sub-spaces: every generated message is compared byte for byte with an independent RFC 6733 encoder and value for value with what that encoder was given; the 24-bit length and command conversions, the AVP length field and the pad-to-4 arithmetic are swept completely, the 2^32 payloads of the six 4-byte types completely in the thorough tier.",
        design_ref="DESIGN.md section 4, C02",
        note="Trusted base is refcodec (about 400 lines written from the RFC, self-checked against fixtures from the repository's tests).",
        technique="runtime differential monitor against an independent reference codec; exhaustive sweeps of finite sub-spaces",
    ),
    "C20": dict(
        text="Exploration: tens of thousands of generated trees x 10 queries per run, each compared by pointer identity with a reference tree walk; sampled, not exhaustive, over trees and queries.",
        design_ref="DESIGN.md section 4, C20",
        note="Trusts the 10-line reference walk and the reference name resolver (refdict).",
        technique="runtime differential monitor: search results vs reference pre-order walk (pointer identity)",
    ),
    "C16": dict(
        text="Exploration: hundreds of thousands of request headers per run (boundary identifiers and all flag bytes enumerated, the rest sampled), every answer decoded by the reference codec and compared field by field; state-machine answers and the SCTP reply stream are observed on in-memory transports.",
        design_ref="DESIGN.md section 4, C16",
        note="Trusts refcodec's header/AVP framing; the stream half observes the stream number recorded by the in-memory SCTP backend behind the verif hook.",
        technique="runtime monitor: field-by-field mirror oracle on serialised answers; transport-side stream log",
    ),
    "C04": dict(
        text="Exploration: 150 thousand (quick) to 10 million (thorough) generated bodies per run are decoded by the real ReadMessage / DecodeGrouped and compared record by record with a reference framer that only follows declared lengths; sampled over an unbounded space, with the payload-length and family classes the property names enumerated by the generator.",
        design_ref="DESIGN.md section 4, C04",
        note="Trusts refcodec.Frame (40 lines) and the reference type resolver; payload bytes of leniently decoded fixed-width values and of the known-risk Address classes are not observable and only their Length is compared.",
        technique="runtime differential monitor: decoder output vs reference framer walking by declared length",
    ),
    "C05": dict(
        text="Exploration with small exhaustive parts: every split into at most three reads and every truncation point of short streams, every declared length 0..19, and thousands of random fragmentations of long streams per run, each decided by comparing the messages returned with the messages sent and by a byte-exact consumption counter on the source.",
        design_ref="DESIGN.md section 4, C05",
        note="The in-memory transport replaces the kernel socket (one Read returns at most one scripted fragment); loopback TCP in the thorough tier. A wall-clock watchdog around the connection variant can only yield INCONCLUSIVE.",
        technique="runtime monitor: sent-vs-delivered sequence oracle and consumed-byte counter under scripted fragmentation",
    ),
    "C06": dict(
        text="Exploration: tens of thousands of read histories per run on the real decoder with its real buffer pool, decided by comparing the retained message's header fields, serialisation and rendering before and after, plus the race detector on a concurrent re-reader; sampled over layouts and histories.",
        design_ref="DESIGN.md section 4, C06",
        note="Deterministic pool reuse relies on the plain build with GC disabled during a history (under -race sync.Pool drops buffers at random, so the race build is a second, independent oracle).",
        technique="runtime monitor: before/after snapshot oracle across further reads; race detector on a concurrent reader of the retained message",
    ),
    "C03": dict(
        text="Exploration: hundreds of thousands of hostile inputs per run (structured corruptions enumerated per seed message, typed-length grids, nest bombs, random strings, 16 MiB extremes; thorough adds coverage-guided fuzzing) through every decoder and every post-decode inspection in child processes; a clean run means the decoders held on these inputs, not memory safety in general.",
        design_ref="DESIGN.md section 4, C03",
        note="Panics are observed by recover(), aborts by the child's exit status with the input logged beforehand, memory by runtime.MemStats.TotalAlloc deltas and a per-call goroutine stack cap (debug.SetMaxStack); Go's own bounds checks are the underlying sanitizer.",
        technique="runtime monitoring under hostile inputs: recover/exit-status/allocation/stack-cap oracles in child processes (+ native fuzzing in the thorough tier)",
    ),
    "C17": dict(
        text="Exploration, exhaustive over the embedded keys: every definition in every embedded dictionary and its neighbours is looked up in all forms (about a million lookups per run) and compared with an independent resolver over the same XML; load-order behaviour is explored on generated sets in every permutation.",
        design_ref="DESIGN.md section 4, C17",
        note="Trusts refdict (own XML structs, own resolver with the parent-application map copied from the library's documentation) and the go/parser extraction of the embedded XML strings and constant names; constant values come from the compiled packages.",
        technique="runtime differential monitor: dictionary lookups vs reference resolver; monotonicity assertions across loads",
    ),
    "C18": dict(
        text="Exploration: tens of thousands of generated values per run over a struct family that covers every field shape the property lists, each through Marshal, the hand-built-list comparison and both Unmarshal paths on the real reflection code; sampled over values, fixed over shapes.",
        design_ref="DESIGN.md section 4, C18",
        note="The expected AVP list of every struct type is written by hand in the harness (expect methods); comparison uses the abstract-tree mapping of harness/lib.",
        technique="runtime monitor: marshal/unmarshal inverse oracle and hand-built AVP list comparison over generated struct values",
    ),
    "C07": dict(
        text="Fault enumeration for the retry half (every outcome script up to the bound on three write paths) and exploration for the concurrent half (hundreds of runs with up to 32 writers under mid-write stalls, on two scheduler widths and under the race detector), decided by an offline exactly-once / order / integrity checker over the transport's byte log.",
        design_ref="DESIGN.md section 4, C07",
        note="Interleavings are the ones the Go scheduler and the transport stalls produced (fingerprints are counted in the evidence); the in-memory transport models per-call atomic writes.",
        technique="runtime monitoring: offline checker over the transport byte log (exactly-once, per-writer order, integrity) + race detector; enumerated partial-write/temporary-error fault scripts",
    ),
    "C08": dict(
        text="Exploration: thousands of arrival-pattern x handler-behaviour scenarios per run on the real server / connection code under the race detector, each decided by an online per-connection monitor and by progress checks at quiescence instead of wall-clock time-outs.",
        design_ref="DESIGN.md section 4, C08",
        note="Schedules are those produced by the bubble's scheduler for the enumerated arrival patterns; independence is checked as 'dispatched at quiescence', a bounded-progress restatement.",
        technique="runtime monitoring: online in-flight/order monitor in handlers, progress assertions at synctest quiescence, race detector",
    ),
    "C09": dict(
        text="Exploration with an exhaustive core: the complete 512 x 12 decision table (plus re-registration) is executed on the real ServeMux on every run; the concurrent part checks recorded histories for linearizability, which covers the interleavings the scheduler produced.",
        design_ref="DESIGN.md section 4, C09",
        note="The reference is a 3-slot decision function; porcupine v1.3.0 decides the concurrent histories (a checker time-out is inconclusive).",
        technique="runtime monitoring: instrumented handlers vs reference decision function (exhaustive table); porcupine linearizability check of recorded register/dispatch histories; race detector",
    ),
    "C11": dict(
        text="Exploration with a bounded-exhaustive core: every CER of the product space up to 3 (thorough 4) application AVPs - 28 560 (372 000) CERs - is sent to a real server state machine and its CEA, the transport close and the resulting metadata are compared with a predicate computed independently from the dictionary XML; random multisets beyond the bound.",
        design_ref="DESIGN.md section 4, C11",
        note="Trusts the reference predicate (common application = an advertised id that is relay or supported with that type by an application element of the XML) and refcodec for building CERs and parsing CEAs.",
        technique="runtime monitoring: end-to-end CER/CEA exchange vs reference acceptance predicate, transport close log and metadata probe, inside synctest bubbles under the race detector",
    ),
    "C10": dict(
        text="Exploration with a bounded-exhaustive core: every peer sequence up to length 4 (thorough 5) in two delivery modes on the server side and every reply sequence up to length 4 on the client side is executed against the real state machine, and the handler-invocation log is compared with a 3-state reference gate; random longer sequences beyond.",
        design_ref="DESIGN.md section 4, C10",
        note="Trusts the reference gate and the scripted peer (refcodec); quiescence of the bubble stands for 'the message has been processed'.",
        technique="runtime monitoring: handler-invocation log vs reference gate automaton over enumerated peer message sequences (synctest bubbles, race detector)",
    ),
    "C12": dict(
        text="Fault enumeration: the complete product of retransmission budgets, reply positions, reply kinds, reply delays and post-handshake CEA sequences up to length 3 (about 3 thousand scripts) is executed against the real client under a virtual clock, so timing facts (spacing, which retransmission window a reply falls into) are exact and not load dependent.",
        design_ref="DESIGN.md section 4, C12",
        note="Timestamps are taken at entry of the transport's Write on the bubble's virtual clock; the scripted peer is built on refcodec. One further child process (TestC12Net) runs every dial entry point over loopback TCP/TLS sockets on the real clock; its verdicts are a failed write or an ended connection, never a deadline.",
        technique="runtime monitoring under enumerated peer-fault scripts: transport write log (count, identity, spacing in virtual time), dial outcome, close log, handler log, goroutine-leak check at bubble end; plus the dial entry points over real loopback sockets (usable after the dial timeout has elapsed)",
    ),
    "C13": dict(
        text="Fault enumeration: every combination of retransmission budget, interval pair, peer answer pattern and transport schedule (about 260 scripts, repeated) runs against the real watchdog under a virtual clock, so spacing, counts and the instant of the close are exact; liveness is restated as a minimum number of rounds within a virtual horizon.",
        design_ref="DESIGN.md section 4, C13",
        note="Timestamps are taken at entry of the transport's Write in virtual time; the 'Write returns late' schedule holds the writer inside the transport while the peer's answer is processed - an existing suspension point of the library. One further child process (TestC13Legacy) runs with GODEBUG=asynctimerchan=1 on the real clock (synctest refuses that setting): a peer that reads DWRs slowly and answers at once must never be dropped; no deadline in its verdict.",
        technique="runtime monitoring under enumerated peer/transport fault scripts in virtual time: offline checker over the DWR write log, close log, goroutine dump after close; plus a real-clock run under the pre-Go-1.23 timer semantics",
    ),
    "C14": dict(
        text="Fault enumeration: the complete set of event orderings up to the bound (several thousand) is executed with the ordering imposed as the schedule through quiescence points, plus randomised racing runs and the watchdog client; verdicts are facts at quiescence (channel closed or not, goroutines present or not), not time-outs.",
        design_ref="DESIGN.md section 4, C14",
        note="Quiescence is synctest's: every goroutine of the bubble durably blocked. A goroutine that waits on a mutex or runs for ever on timers prevents quiescence; the bubble watchdog then decides from the goroutine dump (see DESIGN.md).",
        technique="runtime monitoring over enumerated event orderings in synctest bubbles: channel-state assertions at quiescence, message-log comparison, log scan, goroutine-dump diff; race detector on the racing variant",
    ),
    "C15": dict(
        text="Fault enumeration: every placement of one fault among the connections' message sequences and of runs of temporary accept errors in the accept sequence is executed against the real server loop, followed by random two-fault scenarios; verdicts are read from the transports' logs at quiescence.",
        design_ref="DESIGN.md section 4, C15",
        note="The listener and the connections are in-memory; a handler panic is injected by the harness's own handler, the other faults at the transport.",
        technique="runtime monitoring with fault injection at every placement: answer matching per connection, transport close log, ErrorReports channel, captured log, Serve liveness",
    ),
    "C19": dict(
        text="Exploration, exhaustive for small cases: all interleavings of the chunk sequences of small multi-stream cases (thousands of bubble runs per check) and random interleavings of large ones are fed to the real demultiplexer and connection loop; the structural invariant of the stream-buffer heap is asserted under the demultiplexer's own lock at every quiescent point.",
        design_ref="DESIGN.md section 4, C19",
        note="One open known finding (D48, known_findings.json: a complete message of another stream is lost when the association ends inside a message). Needs the verif hook (one added file in package diam) because the sandbox kernel has no SCTP and the embedded socket type is concrete; the in-memory association models partial delivery and per-read stream tags.",
        technique="runtime monitoring through an in-memory SCTP backend hook: per-stream exactly-once/order/integrity checker, reply-stream log, heap-invariant hook at quiescent points, race detector",
    ),
}
