// Package peer builds and parses Diameter base messages with refcodec only, so
// that a scripted peer never shares code with the library under test.
package peer

import (
	"encoding/binary"

	"verifharness/refcodec"
)

const (
	CodeCE = 257
	CodeDW = 280

	OriginHost   = 264
	OriginRealm  = 296
	HostIP       = 257
	VendorID     = 266
	ProductName  = 269
	OriginState  = 278
	SupportedVnd = 265
	AuthApp      = 258
	InbandSec    = 299
	AcctApp      = 259
	VSApp        = 260
	Firmware     = 267
	ResultCode   = 268
	SessionID    = 263
	ErrorMessage = 281
	FailedAVP    = 279
)

const M = 0x40

func Str(code uint32, k refcodec.Kind, s string) *refcodec.Node {
	return &refcodec.Node{Code: code, Flags: M, Kind: k, B: []byte(s)}
}
func U32(code uint32, v uint32) *refcodec.Node {
	return &refcodec.Node{Code: code, Flags: M, Kind: refcodec.Unsigned32, U: uint64(v)}
}
func Addr4(code uint32, a, b, c, d byte) *refcodec.Node {
	return &refcodec.Node{Code: code, Flags: M, Kind: refcodec.Address, Fam: 1, B: []byte{a, b, c, d}}
}
func Group(code uint32, kids ...*refcodec.Node) *refcodec.Node {
	return &refcodec.Node{Code: code, Flags: M, Kind: refcodec.Grouped, Kids: kids}
}

// Msg encodes a message.
func Msg(flags uint8, code, app, hbh, e2e uint32, avps ...*refcodec.Node) []byte {
	return refcodec.EncodeMessage(refcodec.Header{Version: 1, Flags: flags, Code: code, App: app, HopByHop: hbh, EndToEnd: e2e}, avps)
}

// Identity AVPs of a peer.
func Identity(host, realm string) []*refcodec.Node {
	return []*refcodec.Node{Str(OriginHost, refcodec.DiameterIdentity, host), Str(OriginRealm, refcodec.DiameterIdentity, realm)}
}

// StdCER is an acceptable CER advertising the given auth application.
func StdCER(hbh, e2e uint32, authApp uint32) []byte {
	avps := append(Identity("peer.example", "example"), Addr4(HostIP, 10, 9, 8, 7), U32(VendorID, 99), Str(ProductName, refcodec.UTF8String, "peer"),
		U32(AuthApp, authApp))
	avps[4].Flags = 0
	return Msg(0x80, CodeCE, 0, hbh, e2e, avps...)
}

// CERWith is a CER whose application / security AVPs are the given ones.
func CERWith(hbh, e2e uint32, apps ...*refcodec.Node) []byte {
	avps := append(Identity("peer.example", "example"), Addr4(HostIP, 10, 9, 8, 7), U32(VendorID, 99), Str(ProductName, refcodec.UTF8String, "peer"))
	avps[4].Flags = 0
	return Msg(0x80, CodeCE, 0, hbh, e2e, append(avps, apps...)...)
}

// StdCEA is a CEA with the given result code advertising the auth application.
func StdCEA(hbh, e2e uint32, rc uint32, authApps ...uint32) []byte {
	avps := []*refcodec.Node{U32(ResultCode, rc)}
	avps = append(avps, Identity("srv.example", "example")...)
	avps = append(avps, Addr4(HostIP, 10, 1, 2, 3), U32(VendorID, 99), Str(ProductName, refcodec.UTF8String, "srv"))
	for _, a := range authApps {
		avps = append(avps, U32(AuthApp, a))
	}
	return Msg(0, CodeCE, 0, hbh, e2e, avps...)
}

func DWR(hbh, e2e uint32) []byte {
	return Msg(0x80, CodeDW, 0, hbh, e2e, Identity("peer.example", "example")...)
}

func DWA(hbh, e2e uint32, rc uint32) []byte {
	avps := append([]*refcodec.Node{U32(ResultCode, rc)}, Identity("srv.example", "example")...)
	return Msg(0, CodeDW, 0, hbh, e2e, avps...)
}

// SplitMessages cuts a byte log into whole messages by the declared message
// length; rest holds trailing bytes that do not form a whole message.
func SplitMessages(b []byte) (msgs [][]byte, rest []byte) {
	for len(b) >= 20 {
		l := int(b[1])<<16 | int(b[2])<<8 | int(b[3])
		if l < 20 || l > len(b) {
			break
		}
		msgs = append(msgs, b[:l])
		b = b[l:]
	}
	return msgs, b
}

// Header decodes the header of a message image.
func Header(m []byte) refcodec.Header {
	h, _ := refcodec.DecodeHeader(m)
	return h
}

// Find returns the payloads of the top-level AVPs with the given code.
func Find(m []byte, code uint32) [][]byte {
	recs, _, err := refcodec.Frame(m[20:])
	if err != nil {
		return nil
	}
	var out [][]byte
	for _, r := range recs {
		if r.Code == code {
			out = append(out, r.Payload)
		}
	}
	return out
}

// FindU32 returns the Unsigned32 values of the top-level AVPs with the code.
func FindU32(m []byte, code uint32) []uint32 {
	var out []uint32
	for _, p := range Find(m, code) {
		if len(p) == 4 {
			out = append(out, binary.BigEndian.Uint32(p))
		}
	}
	return out
}
