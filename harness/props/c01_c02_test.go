package props

import (
	"bytes"
	"fmt"
	"sync"
	"testing"

	"github.com/fiorix/go-diameter/v4/diam"
	"github.com/fiorix/go-diameter/v4/diam/datatype"

	"verifharness/ev"
	"verifharness/gen"
	"verifharness/lib"
	"verifharness/refcodec"
	"verifharness/refdict"
)

// drawMsg draws an abstract message for ctx.
func drawMsg(c *ev.Case, ctx *lib.Ctx, o *gen.Opts) *gen.Msg {
	r := c.R
	h, cmd := ctx.Header(r, ctx.Cmds)
	_ = cmd
	if cmd.App == 0 && r.IntN(3) == 0 {
		// a base command under another application id (falls back to base)
		apps := ctx.Set.Apps()
		if r.IntN(3) == 0 {
			h.App = r.Uint32()
		} else {
			h.App = apps[r.IntN(len(apps))].ID
		}
		// the application's own command with that code would shadow the base one
		if cd, ok := ctx.Ix.FindCommand(h.App, h.Code); !ok || cd.App != 0 {
			h.App = 0
		}
	}
	return &gen.Msg{H: h, Nodes: ctx.Tree(r, h.App, o)}
}

func headerDiff(a, b refcodec.Header) string {
	if a != b {
		return fmt.Sprintf("header %+v vs %+v", a, b)
	}
	return ""
}

// codecCase runs one abstract message through both directions of the codec and
// applies the C01 and/or C02 oracles.
func codecCase(c *ev.Case, ctx *lib.Ctx, m *gen.Msg, mode int, c01, c02 bool, risk string) {
	sig := func(op string) ev.Sig { return ev.Sig{"op": op, "risk": risk} }
	refwire := refcodec.EncodeMessage(m.H, m.Nodes)
	want := m.H
	want.Length = uint32(len(refwire))

	var dm *diam.Message
	var wire []byte
	var err error
	if p, bad := guard(func() {
		dm = lib.Build(ctx.Parser, m, mode)
		wire, err = dm.Serialize()
	}); bad {
		c.Fail(sig("panic-build"), refwire, nil, "building/serialising through the API panicked: %s", p)
		return
	}
	if err != nil {
		c.Fail(sig("serialize-error"), refwire, nil, "Serialize: %v", err)
		return
	}
	c.Event("api_built", 1)
	if c02 {
		if int(dm.Header.MessageLength) != len(wire) || dm.Len() != len(wire) {
			c.Fail(sig("length-bookkeeping"), refwire, nil, "Header.MessageLength=%d Len()=%d len(Serialize())=%d", dm.Header.MessageLength, dm.Len(), len(wire))
			return
		}
		if !bytes.Equal(wire, refwire) {
			c.Fail(sig("encode-vs-ref"), refwire, map[string]any{"lib": ev.Hex(wire)}, "library wire image differs from the reference encoder at byte %d (lib %d bytes, ref %d bytes)", firstDiff(wire, refwire), len(wire), len(refwire))
			return
		}
		// the bytes actually emitted to a writer (serialised into a recycled buffer)
		var wbuf bytes.Buffer
		if _, werr := dm.WriteTo(&wbuf); werr != nil || !bytes.Equal(wbuf.Bytes(), refwire) {
			c.Fail(sig("writeto-vs-ref"), refwire, map[string]any{"lib": ev.Hex(wbuf.Bytes())}, "the bytes WriteTo emits differ from the reference encoder at byte %d (err=%v)", firstDiff(wbuf.Bytes(), refwire), werr)
			return
		}
	}
	if c01 {
		var buf bytes.Buffer
		n, werr := dm.WriteTo(&buf)
		if werr != nil || int(n) != len(wire) || !bytes.Equal(buf.Bytes(), wire) {
			c.Fail(sig("writeto-vs-serialize"), refwire, nil, "WriteTo wrote %d bytes err=%v, differs from Serialize (%d bytes)", n, werr, len(wire))
			return
		}
		var rm *diam.Message
		if p, bad := guard(func() { rm, err = diam.ReadMessage(bytes.NewReader(wire), ctx.Parser) }); bad {
			c.Fail(sig("panic-read"), wire, nil, "ReadMessage panicked: %s", p)
			return
		}
		if err != nil {
			c.Fail(sig("read-own-wire"), wire, nil, "ReadMessage of the library's own serialisation: %v", err)
			return
		}
		hw := want
		hw.Length = uint32(len(wire))
		if d := headerDiff(lib.HeaderOf(rm.Header), hw); d != "" {
			c.Fail(sig("api-header"), wire, nil, "after API->wire->API: %s", d)
			return
		}
		got, terr := lib.ToNodes(rm.AVP)
		if terr != nil {
			c.Fail(sig("api-tree"), wire, nil, "after API->wire->API: %v", terr)
			return
		}
		if d := refcodec.Equal(m.Nodes, got, ""); d != "" {
			c.Fail(sig("api-tree"), wire, nil, "after API->wire->API the AVP tree differs: %s", d)
			return
		}
		again, err := rm.Serialize()
		if err != nil || !bytes.Equal(again, wire) {
			c.Fail(sig("reserialize"), wire, map[string]any{"again": ev.Hex(again)}, "serialising the read-back message again differs at byte %d (err=%v)", firstDiff(again, wire), err)
			return
		}
		c.Event("api_roundtrip_ok", 1)
	}
	// wire -> API -> wire on the reference image
	var rm2 *diam.Message
	if p, bad := guard(func() { rm2, err = diam.ReadMessage(bytes.NewReader(refwire), ctx.Parser) }); bad {
		c.Fail(sig("panic-read"), refwire, nil, "ReadMessage panicked: %s", p)
		return
	}
	if err != nil {
		c.Fail(sig("read-ref-wire"), refwire, nil, "ReadMessage of a well-formed reference-encoded message: %v", err)
		return
	}
	if c02 {
		if d := headerDiff(lib.HeaderOf(rm2.Header), want); d != "" {
			c.Fail(sig("ref-decode-header"), refwire, nil, "header read from the reference image: %s", d)
			return
		}
		got, terr := lib.ToNodes(rm2.AVP)
		if terr != nil {
			c.Fail(sig("ref-decode-values"), refwire, nil, "values read from the reference image: %v", terr)
			return
		}
		if d := refcodec.Equal(m.Nodes, got, ""); d != "" {
			c.Fail(sig("ref-decode-values"), refwire, nil, "typed values read from the reference image differ from what was encoded: %s", d)
			return
		}
		c.Event("ref_decode_ok", 1)
	}
	if c01 {
		var out []byte
		if p, bad := guard(func() { out, err = rm2.Serialize() }); bad {
			c.Fail(sig("panic-serialize"), refwire, nil, "Serialize panicked: %s", p)
			return
		}
		if err != nil || !bytes.Equal(out, refwire) {
			c.Fail(sig("wire-bytes"), refwire, map[string]any{"out": ev.Hex(out)}, "wire->API->wire does not reproduce the bytes: first difference at %d (in %d bytes, out %d bytes, err=%v)", firstDiff(out, refwire), len(refwire), len(out), err)
			return
		}
		c.Event("wire_roundtrip_ok", 1)
	}
	if c.WantSample() && len(refwire) < 300 && len(m.Nodes) > 1 {
		c.Sample(sampleMsg(ctx.Name, m, refwire))
	}
}

func firstDiff(a, b []byte) int {
	n := len(a)
	if len(b) < n {
		n = len(b)
	}
	for i := 0; i < n; i++ {
		if a[i] != b[i] {
			return i
		}
	}
	if len(a) != len(b) {
		return n
	}
	return -1
}

func stdOpts(r interface{ IntN(int) int }) *gen.Opts {
	return &gen.Opts{MaxDepth: 6, MaxAVPs: 1 + r.IntN(12), BigStrings: r.IntN(40) == 0}
}

// riskMsg draws a message with exactly one Address AVP of a known-risk class.
func riskMsg(c *ev.Case, ctx *lib.Ctx) (*gen.Msg, string) {
	o := &gen.Opts{MaxDepth: 3, MaxAVPs: 5, NoAddr: true}
	m := drawMsg(c, ctx, o)
	// an Address AVP definition visible from the application
	var defs []*refdict.AVPDef
	for _, d := range ctx.Visible(m.H.App) {
		if d.Type == "Address" {
			defs = append(defs, d)
		}
	}
	if len(defs) == 0 {
		return nil, ""
	}
	d := defs[c.R.IntN(len(defs))]
	n := &refcodec.Node{Code: d.Code, Vendor: d.Vendor, Flags: 0x40, Kind: refcodec.Address}
	if d.Vendor != 0 {
		n.Flags |= refcodec.AVPFlagV
	}
	gen.Addr(c.R, n, true)
	risk := "addr-otherfam-len4or16"
	if n.Fam == 2 {
		risk = "addr-v4mapped-ipv6"
	}
	pos := c.R.IntN(len(m.Nodes) + 1)
	m.Nodes = append(m.Nodes[:pos], append([]*refcodec.Node{n}, m.Nodes[pos:]...)...)
	return m, risk
}

func runCodec(t *testing.T, prop string, c01, c02 bool) *ev.Rec {
	rec := ev.Open(t, prop)
	refcodecSelfCheck(t)
	ctxs := contexts(t)
	n := rec.N(60000, 4000000)
	if rec.Race() {
		n = rec.N(2000, 40000)
	}
	rec.Suite("messages", n, func(c *ev.Case) {
		ctx := ctxs[c.I%len(ctxs)]
		m := drawMsg(c, ctx, stdOpts(c.R))
		classOfTree(c, ctx.Name, m.Nodes)
		codecCase(c, ctx, m, c.R.IntN(4), c01, c02, "")
	})
	// the same oracle from four goroutines that share the dictionaries (every connection's reader
	// decodes with the Server's Parser, every handler builds answers with it)
	rec.Suite("parallel-messages", n/8, func(c *ev.Case) {
		ctx := ctxs[c.I%len(ctxs)]
		c.Class("parallel-messages/%s", ctx.Name)
		inParallel(rec, c, 4, func(gc *ev.Case, g int) {
			for k := 0; k < 2 && !gc.Failed(); k++ {
				m := drawMsg(gc, ctx, stdOpts(gc.R))
				codecCase(gc, ctx, m, gc.R.IntN(4), c01, c02, "")
			}
		})
	})
	// a relay extends a message it received and forwards it: an AVP is appended at the top and
	// one inside the first decoded group; the forwarded image is the reference image of the tree
	// as extended, and the next hop reads it back
	rec.Suite("relayed-messages", n/20, func(c *ev.Case) {
		ctx := genCtx(t)
		m := drawMsg(c, ctx, &gen.Opts{MaxDepth: 3, MaxAVPs: 2 + c.R.IntN(10)})
		for _, nd := range m.Nodes {
			if nd.Kind == refcodec.Address && gen.RiskAddress(nd.Fam, nd.B) {
				return
			}
		}
		refwire := refcodec.EncodeMessage(m.H, m.Nodes)
		rm, err := diam.ReadMessage(bytes.NewReader(refwire), ctx.Parser)
		if err != nil {
			c.Fail(ev.Sig{"op": "read-ref-wire", "risk": ""}, refwire, nil, "ReadMessage of a well-formed reference-encoded message: %v", err)
			return
		}
		if b, err := rm.Serialize(); err != nil || !bytes.Equal(b, refwire) {
			return // classes with a known finding (address families): not this suite's business
		}
		nodes := append([]*refcodec.Node(nil), m.Nodes...)
		grouped := false
		for i, nd := range nodes {
			if g, ok := rm.AVP[i].Data.(*diam.GroupedAVP); ok && nd.Kind == refcodec.Grouped && c.I%2 == 1 {
				g.AddAVP(diam.NewAVP(9009, 0x40, 0, datatype.Unsigned32(0xC0FFEE)))
				cp := *nd
				cp.Kids = append(append([]*refcodec.Node(nil), nd.Kids...), &refcodec.Node{Code: 9009, Flags: 0x40, Kind: refcodec.Unsigned32, U: 0xC0FFEE})
				nodes[i] = &cp
				grouped = true
				break
			}
		}
		rm.NewAVP(9001, 0x40, 0, datatype.OctetString("relay-1"))
		nodes = append(nodes, &refcodec.Node{Code: 9001, Flags: 0x40, Kind: refcodec.OctetString, B: []byte("relay-1")})
		c.Class("relayed/avps=%d/group-extended=%v", min(len(m.Nodes), 8), grouped)
		want := refcodec.EncodeMessage(m.H, nodes)
		got, err := rm.Serialize()
		if grouped && err == nil && len(got) == len(want) {
			// a member added to a group that is already part of a message is not an operation on
			// the message: its header length is the caller's to adjust; everything else is checked
			copy(got[1:4], want[1:4])
			rm.Header.MessageLength = uint32(len(got))
		}
		if err != nil || !bytes.Equal(got, want) {
			c.Fail(ev.Sig{"op": "relayed-image", "risk": ""}, refwire, nil, "a received message, extended by one AVP at the top (and one inside its first group: %v) and serialised: err=%v, the image differs from the reference image of the extended tree at byte %d", grouped, err, firstDiff(got, want))
			return
		}
		if _, err := diam.ReadMessage(bytes.NewReader(got), ctx.Parser); err != nil {
			c.Fail(ev.Sig{"op": "read-own-wire", "risk": ""}, got, nil, "the forwarded message is not readable: %v", err)
			return
		}
		if int(rm.Header.MessageLength) != len(got) && c02 {
			c.Fail(ev.Sig{"op": "length-bookkeeping", "step": "relay"}, got, nil, "after NewAVP on a received message Header.MessageLength is %d, the serialised size %d", rm.Header.MessageLength, len(got))
			return
		}
		c.Event("wire_roundtrip_ok", 1)
	})
	// a relay keeps the request it received and forwards a copy that shares the decoded AVP
	// list (fwd.AVP = req.AVP, or fwd := *req), with a Route-Record inserted in front and an
	// AVP added at the end: the forwarded image is the reference image of the extended tree, and
	// the kept request - on which no operation was performed - still is what was received
	rec.Suite("forwarded-copy", n/20, func(c *ev.Case) {
		ctx := genCtx(t)
		m := drawMsg(c, ctx, &gen.Opts{MaxDepth: 3, MaxAVPs: 1 + c.R.IntN(10)})
		for _, nd := range m.Nodes {
			if nd.Kind == refcodec.Address && gen.RiskAddress(nd.Fam, nd.B) {
				return
			}
		}
		refwire := refcodec.EncodeMessage(m.H, m.Nodes)
		rm, err := diam.ReadMessage(bytes.NewReader(refwire), ctx.Parser)
		if err != nil {
			c.Fail(ev.Sig{"op": "read-ref-wire", "risk": ""}, refwire, nil, "ReadMessage of a well-formed reference-encoded message: %v", err)
			return
		}
		if b, err := rm.Serialize(); err != nil || !bytes.Equal(b, refwire) {
			return // classes with a known finding (address families): not this suite's business
		}
		var fwd *diam.Message
		how := []string{"fwd.AVP = req.AVP", "fwd := *req", "fwd.AVP = req.AVP[:len:len]"}[c.I%3]
		switch c.I % 3 {
		case 0:
			fwd = diam.NewMessage(m.H.Code, m.H.Flags, m.H.App, m.H.HopByHop, m.H.EndToEnd, ctx.Parser)
			fwd.AVP = rm.AVP
			fwd.Header.MessageLength = rm.Header.MessageLength
			fwd.Header.HopByHopID, fwd.Header.EndToEndID = m.H.HopByHop, m.H.EndToEnd
		case 1:
			cp := *rm
			hd := *rm.Header
			cp.Header = &hd
			fwd = &cp
		case 2:
			fwd = diam.NewMessage(m.H.Code, m.H.Flags, m.H.App, m.H.HopByHop, m.H.EndToEnd, ctx.Parser)
			fwd.AVP = rm.AVP[:len(rm.AVP):len(rm.AVP)]
			fwd.Header.MessageLength = rm.Header.MessageLength
			fwd.Header.HopByHopID, fwd.Header.EndToEndID = m.H.HopByHop, m.H.EndToEnd
		}
		nodes := append([]*refcodec.Node(nil), m.Nodes...)
		ops := ""
		for k := 1 + c.R.IntN(3); k > 0; k-- {
			if c.R.IntN(2) == 0 {
				fwd.InsertAVP(diam.NewAVP(9003, 0x40, 0, datatype.DiameterIdentity("relay.example")))
				nodes = append([]*refcodec.Node{{Code: 9003, Flags: 0x40, Kind: refcodec.DiameterIdentity, B: []byte("relay.example")}}, nodes...)
				ops += "I"
			} else {
				fwd.NewAVP(9001, 0x40, 0, datatype.OctetString("relay-1"))
				nodes = append(nodes, &refcodec.Node{Code: 9001, Flags: 0x40, Kind: refcodec.OctetString, B: []byte("relay-1")})
				ops += "A"
			}
		}
		c.Class("forwarded-copy/%d/avps=%d/ops=%s", c.I%3, min(len(m.Nodes), 8), ops)
		hf := m.H
		want := refcodec.EncodeMessage(hf, nodes)
		got, err := fwd.Serialize()
		if err != nil || !bytes.Equal(got, want) {
			c.Fail(ev.Sig{"op": "forwarded-image", "risk": ""}, refwire, nil, "a copy of a received message (%s) extended by %s (I: InsertAVP, A: NewAVP): err=%v, its image differs from the reference image of the extended tree at byte %d", how, ops, err, firstDiff(got, want))
			return
		}
		kept, err := rm.Serialize()
		if err != nil || !bytes.Equal(kept, refwire) {
			c.Fail(ev.Sig{"op": "kept-request-image", "risk": ""}, refwire, nil, "after %s and %s on the copy, the kept request - untouched - serialises differently from what was received (err=%v, first difference at byte %d, %d bytes for %d)", how, ops, err, firstDiff(kept, refwire), len(kept), len(refwire))
			return
		}
		if int(rm.Header.MessageLength) != len(kept) && c02 {
			c.Fail(ev.Sig{"op": "length-bookkeeping", "step": "kept-request"}, kept, nil, "after %s and %s on the copy, the kept request has Header.MessageLength %d and serialises to %d bytes", how, ops, rm.Header.MessageLength, len(kept))
			return
		}
		c.Event("wire_roundtrip_ok", 1)
	})
	// messages with one large AVP: around the 64 KiB steps of the body reader and beyond
	bigLens := []int{65507, 65508, 65528, 65536, 70001, 131044, 131052, 131073, 196608, 300000, 1 << 20}
	rec.Suite("big-avps", len(bigLens)*rec.N(2, 20), func(c *ev.Case) {
		ctx := genCtx(t)
		n := bigLens[c.I%len(bigLens)]
		c.Class("big-avp/len=%d", n)
		b := make([]byte, n)
		for i := range b {
			b[i] = byte(i*7 + c.I)
		}
		nodes := []*refcodec.Node{{Code: 9009, Flags: 0x40, Kind: refcodec.Unsigned32, U: 7},
			{Code: 9001, Flags: 0x40, Kind: refcodec.OctetString, B: b},
			{Code: 9002, Flags: 0x40, Kind: refcodec.UTF8String, B: []byte("tail")}}
		if c.I%2 == 1 {
			nodes[1] = &refcodec.Node{Code: 0x00E10001, Flags: 0x80, Vendor: 4242, Kind: refcodec.Unknown, B: b}
		}
		m := &gen.Msg{H: refcodec.Header{Version: 1, Flags: 0x80, Code: 8388000, HopByHop: 1, EndToEnd: 2}, Nodes: nodes}
		codecCase(c, ctx, m, c.I, c01, c02, "")
	})
	// chains of grouped AVPs nested 7..120 deep (the decoder accepts up to
	// MaxGroupedAVPDepth = 128 levels)
	rec.Suite("deep-chains", rec.N(300, 20000), func(c *ev.Case) {
		ctx := genCtx(t)
		depth := 7 + c.R.IntN(114)
		c.Class("deep-chain/depth=%d", depth/10*10)
		leaf := &refcodec.Node{Code: 9009, Flags: 0x40, Kind: refcodec.Unsigned32, U: uint64(c.R.Uint32())}
		cur := []*refcodec.Node{leaf}
		for d := 0; d < depth; d++ {
			g := &refcodec.Node{Code: uint32(9018 + c.R.IntN(2)), Flags: 0x40, Kind: refcodec.Grouped, Kids: cur}
			cur = []*refcodec.Node{g}
			if c.R.IntN(4) == 0 {
				cur = append(cur, &refcodec.Node{Code: 9001, Flags: 0x40, Kind: refcodec.OctetString, B: []byte{byte(d)}})
			}
		}
		m := &gen.Msg{H: refcodec.Header{Version: 1, Flags: 0x80, Code: 8388000, HopByHop: 1, EndToEnd: 2}, Nodes: cur}
		codecCase(c, ctx, m, c.I, c01, c02, "")
	})
	// one message object serialised by several goroutines at once (a request sent to
	// several peers, a retransmission racing the first write): every emission must be
	// the reference image; under the race build any write to the shared message is a
	// reported data race
	rec.Suite("shared-message", rec.N(300, 20000), func(c *ev.Case) {
		ctx := ctxs[c.I%len(ctxs)]
		m := drawMsg(c, ctx, &gen.Opts{MaxDepth: 5, MaxAVPs: 6 + c.R.IntN(20)})
		sharedMessage(c, ctx, m, c01, c02)
	})
	// known-risk Address classes, wire direction only (the API cannot express them)
	rec.Suite("risk-address", rec.N(2000, 50000), func(c *ev.Case) {
		ctx := ctxs[c.I%len(ctxs)]
		m, risk := riskMsg(c, ctx)
		if m == nil {
			return
		}
		c.Class("risk/%s/%s", ctx.Name, risk)
		wireOnly(c, ctx, m, c01, c02, risk)
	})
	return rec
}

// wireOnly applies the wire->API->wire direction only.
func wireOnly(c *ev.Case, ctx *lib.Ctx, m *gen.Msg, c01, c02 bool, risk string) {
	sig := func(op string) ev.Sig { return ev.Sig{"op": op, "risk": risk} }
	refwire := refcodec.EncodeMessage(m.H, m.Nodes)
	var rm *diam.Message
	var err error
	if p, bad := guard(func() { rm, err = diam.ReadMessage(bytes.NewReader(refwire), ctx.Parser) }); bad {
		c.Fail(sig("panic-read"), refwire, nil, "ReadMessage panicked: %s", p)
		return
	}
	if err != nil {
		c.Fail(sig("read-ref-wire"), refwire, nil, "ReadMessage of a well-formed reference-encoded message: %v", err)
		return
	}
	if c02 {
		got, terr := lib.ToNodes(rm.AVP)
		if terr != nil {
			c.Fail(sig("ref-decode-values"), refwire, nil, "%v", terr)
			return
		}
		if d := refcodec.Equal(m.Nodes, got, ""); d != "" {
			c.Fail(sig("ref-decode-values"), refwire, nil, "typed values read from the reference image differ from what was encoded: %s", d)
			return
		}
	}
	if c01 {
		out, err := rm.Serialize()
		if err != nil || !bytes.Equal(out, refwire) {
			c.Fail(sig("wire-bytes"), refwire, map[string]any{"out": ev.Hex(out)}, "wire->API->wire does not reproduce the bytes: first difference at %d (in %d bytes, out %d bytes, err=%v)", firstDiff(out, refwire), len(refwire), len(out), err)
			return
		}
	}
}

func TestC01(t *testing.T) {
	rec := runCodec(t, "C01", true, false)
	rec.Close()
}

// sharedMessage: G goroutines serialise the same *diam.Message through every
// emitting entry point at the same time.
func sharedMessage(c *ev.Case, ctx *lib.Ctx, m *gen.Msg, c01, c02 bool) {
	refwire := refcodec.EncodeMessage(m.H, m.Nodes)
	var dm *diam.Message
	var err error
	fromWire := c.R.IntN(2) == 0
	if p, bad := guard(func() {
		if fromWire {
			dm, err = diam.ReadMessage(bytes.NewReader(refwire), ctx.Parser)
		} else {
			dm = lib.Build(ctx.Parser, m, c.R.IntN(4))
		}
	}); bad || err != nil {
		c.Fail(ev.Sig{"op": "shared-build"}, refwire, nil, "building the shared message: %s %v", p, err)
		return
	}
	G := 2 + c.R.IntN(5)
	rounds := 8 + c.R.IntN(24)
	c.Class("shared/from-wire=%v/G=%d", fromWire, G)
	type bad struct {
		op  string
		out []byte
		msg string
	}
	var mu sync.Mutex
	var first *bad
	report := func(b *bad) {
		mu.Lock()
		if first == nil {
			first = b
		}
		mu.Unlock()
	}
	start := make(chan struct{})
	var wg sync.WaitGroup
	for g := 0; g < G; g++ {
		ops := make([]int, rounds)
		for i := range ops {
			ops[i] = c.R.IntN(5)
		}
		wg.Add(1)
		go func() {
			defer wg.Done()
			<-start
			for _, op := range ops {
				var out []byte
				var e error
				name := ""
				p, panicked := guard(func() {
					switch op {
					case 0:
						name = "Serialize"
						out, e = dm.Serialize()
					case 1:
						name = "SerializeTo"
						out = make([]byte, dm.Len())
						e = dm.SerializeTo(out)
					case 2:
						name = "WriteTo"
						var buf bytes.Buffer
						_, e = dm.WriteTo(&buf)
						out = buf.Bytes()
					case 3:
						name = "WriteToWithRetry"
						var buf bytes.Buffer
						_, e = dm.WriteToWithRetry(&buf, 2)
						out = buf.Bytes()
					case 4:
						name = "Len"
						if l := dm.Len(); l != len(refwire) {
							e = fmt.Errorf("Len()=%d, the image has %d bytes", l, len(refwire))
						}
						out = refwire
					}
				})
				if panicked {
					report(&bad{name, nil, "panic: " + p})
					return
				}
				if e != nil || !bytes.Equal(out, refwire) {
					report(&bad{name, out, fmt.Sprintf("err=%v, first difference at byte %d (emitted %d bytes, reference %d)", e, firstDiff(out, refwire), len(out), len(refwire))})
					return
				}
			}
		}()
	}
	close(start)
	wg.Wait()
	c.Event("shared_message_emissions", G*rounds)
	if first != nil {
		c.Fail(ev.Sig{"op": "shared-message-emission", "call": first.op}, refwire, map[string]any{"emitted": ev.Hex(first.out)},
			"%d goroutines emitting one message at the same time: %s %s", G, first.op, first.msg)
		return
	}
	if c02 && int(dm.Header.MessageLength) != len(refwire) {
		c.Fail(ev.Sig{"op": "shared-message-length"}, refwire, nil, "Header.MessageLength=%d after concurrent emissions of a %d-byte message", dm.Header.MessageLength, len(refwire))
	}
	_ = c01
}
