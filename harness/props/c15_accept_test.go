package props

import (
	"bytes"
	"net"
	"os"
	"syscall"
	"testing"
	"time"

	"github.com/fiorix/go-diameter/v4/diam"

	"verifharness/ev"
	"verifharness/peer"
)

// TestC15Accept: transient accept errors on a listener the library created itself
// (diam.Listen, as ListenAndServe uses), produced by the kernel: the process runs out of file
// descriptors (EMFILE), a peer connects meanwhile, descriptors are released again.  The server
// must still be accepting: that peer, and one that connects afterwards, are served.
// Runs in a child process of its own (it lowers RLIMIT_NOFILE).
func TestC15Accept(t *testing.T) {
	rec := ev.Open(t, "C15")
	defer rec.Close()
	ctx := genCtx(t)
	_, restore := captureLog()
	defer restore()
	rec.Suite("out-of-descriptors", rec.N(3, 40), func(c *ev.Case) {
		sig := func(op string) ev.Sig {
			return ev.Sig{"op": op, "faults": "", "accept_errors": true, "how": "out-of-descriptors"}
		}
		c.Class("out-of-descriptors/library-listener")
		mux := diam.NewServeMux()
		mux.HandleFunc("ALL", func(dc diam.Conn, m *diam.Message) { m.Answer(2001).WriteTo(dc) })
		l, err := diam.Listen("tcp", "127.0.0.1:0")
		if err != nil {
			c.Fail(ev.Sig{"op": "setup"}, nil, nil, "diam.Listen: %v", err)
			return
		}
		srv := &diam.Server{Handler: mux, Dict: ctx.Parser}
		serveDone := make(chan error, 1)
		go func() { serveDone <- srv.Serve(l) }()
		defer l.Close()
		exchange := func(conn net.Conn, id uint32) bool {
			conn.SetDeadline(time.Now().Add(15 * time.Second))
			if _, err := conn.Write(seqMsg(id, 12)); err != nil {
				return false
			}
			hdr := make([]byte, 20)
			if _, err := readFull(conn, hdr); err != nil {
				return false
			}
			return peer.Header(hdr).HopByHop == id
		}
		// before: one ordinary exchange
		c0, err := net.Dial("tcp", l.Addr().String())
		if err != nil || !exchange(c0, 1) {
			c.Fail(ev.Sig{"op": "setup"}, nil, nil, "ordinary exchange before the fault failed: %v", err)
			return
		}
		defer c0.Close()
		var lim, old syscall.Rlimit
		if err := syscall.Getrlimit(syscall.RLIMIT_NOFILE, &old); err != nil {
			c.Fail(ev.Sig{"op": "setup"}, nil, nil, "getrlimit: %v", err)
			return
		}
		lim = old
		lim.Cur = 256
		if err := syscall.Setrlimit(syscall.RLIMIT_NOFILE, &lim); err != nil {
			c.Fail(ev.Sig{"op": "setup"}, nil, nil, "setrlimit: %v", err)
			return
		}
		restored := false
		restoreLimit := func() {
			if !restored {
				syscall.Setrlimit(syscall.RLIMIT_NOFILE, &old)
				restored = true
			}
		}
		defer restoreLimit()
		var hogs []*os.File
		release := func() {
			for _, f := range hogs {
				f.Close()
			}
			hogs = nil
		}
		defer release()
		for {
			f, err := os.Open("/dev/null")
			if err != nil {
				break
			}
			hogs = append(hogs, f)
		}
		if len(hogs) == 0 {
			c.Fail(ev.Sig{"op": "setup"}, nil, nil, "could not exhaust the descriptors")
			return
		}
		// one descriptor for the dialling side; the accepting side finds none
		hogs[len(hogs)-1].Close()
		hogs = hogs[:len(hogs)-1]
		c1, err := net.Dial("tcp", l.Addr().String())
		if err != nil {
			c.Fail(ev.Sig{"op": "setup"}, nil, nil, "dial with one spare descriptor: %v", err)
			return
		}
		defer c1.Close()
		time.Sleep(300 * time.Millisecond) // the accept loop meets EMFILE a few times
		select {
		case err := <-serveDone:
			release()
			restoreLimit()
			c.Fail(sig("serve-returned"), nil, nil, "Server.Serve returned (%v) when the process ran out of file descriptors for a moment (accept: too many open files is a temporary error); listener created by diam.Listen", err)
			return
		default:
		}
		release()
		restoreLimit()
		if !exchange(c1, 2) {
			c.Fail(sig("connection-not-served-after-accept-errors"), nil, nil, "the connection made while accept failed with EMFILE was not served within 15 s after descriptors became available again")
			return
		}
		c2, err := net.Dial("tcp", l.Addr().String())
		if err != nil || !exchange(c2, 3) {
			c.Fail(sig("listener-stopped"), nil, nil, "a connection made after the temporary accept errors was not served (dial err=%v)", err)
			return
		}
		c2.Close()
		select {
		case err := <-serveDone:
			c.Fail(sig("serve-returned"), nil, nil, "Server.Serve returned (%v) after temporary accept errors", err)
			return
		default:
		}
		c.Event("scenarios", 1)
		c.Event("real_accept_error_runs", 1)
		c.Event("answers_matched", 3)
	})
}

func readFull(conn net.Conn, b []byte) (int, error) {
	n := 0
	for n < len(b) {
		k, err := conn.Read(b[n:])
		n += k
		if err != nil {
			return n, err
		}
	}
	return n, nil
}

var _ = bytes.Equal
