package props

import (
	"bytes"
	"fmt"
	"log"
	"os"
	"regexp"
	"runtime"
	"strings"
	"sync"
	"sync/atomic"
	"testing"
	"testing/synctest"
	"time"

	"verifharness/ev"
)

// runBubble runs f inside a synctest bubble (virtual clock, quiescence
// detection). If goroutines of the bubble are still blocked when f returns,
// synctest panics in the caller; that is reported as leak.
func runBubble(t *testing.T, f func()) (leak string) {
	defer func() {
		if r := recover(); r != nil {
			leak = fmt.Sprint(r)
			// name what is left: the blocked goroutines with library frames
			for i, g := range libGoroutines() {
				if i < 3 {
					leak += "\n--- left behind [" + g.State + "] in " + topLibFrame(g.Stack) + "\n" + g.Stack
				}
			}
		}
	}()
	synctest.Test(t, func(t *testing.T) { f() })
	return ""
}

// runBubbleWD is runBubble with a generous wall-clock watchdog. A bubble whose
// goroutines wait for a sync.Mutex never becomes quiescent (a mutex wait is not
// a durable block), so synctest.Wait would hang for ever. When the watchdog
// fires the goroutine dump decides: a goroutine with library frames waiting in
// sync.(*Mutex).Lock / RWMutex is reported as a violation of the calling
// property (blocked on a lock inside the library while the rest of the bubble
// is idle); anything else is a plain watchdog (inconclusive). Either way the
// child stops after writing its summary, because the stuck bubble cannot be
// torn down.
func runBubbleWD(t *testing.T, rec *ev.Rec, c *ev.Case, wd time.Duration, f func()) (leak string) {
	done := make(chan string, 1)
	var finished atomic.Bool
	go func() {
		done <- runBubble(t, func() {
			f()
			finished.Store(true)
		})
	}()
	select {
	case l := <-done:
		return l
	case <-time.After(wd):
	}
	gs := libGoroutines()
	var lockers []string
	for _, g := range gs {
		if strings.Contains(g.Stack, "sync.(*Mutex).Lock") || strings.Contains(g.Stack, "sync.(*RWMutex).Lock") || strings.Contains(g.Stack, "sync.(*RWMutex).RLock") {
			lockers = append(lockers, g.Stack)
		}
	}
	switch {
	case c.Failed():
		// the scenario already reported a violation; the bubble just cannot end
	case len(lockers) > 0:
		c.Fail(ev.Sig{"op": "blocked-on-library-lock", "frame": topLibFrame(lockers[0])}, nil, nil,
			"the scenario did not become quiescent within %v of real time: %d goroutine(s) are waiting for a lock inside the library while everything else is idle, e.g.\n%s", wd, len(lockers), lockers[0])
	case finished.Load() && len(gs) > 0:
		// the scenario is over, but a library goroutine keeps running on timers,
		// so the bubble (whose clock it drives forward for ever) can never end
		c.Fail(ev.Sig{"op": "goroutine-left", "how": "runs-for-ever", "frame": topLibFrame(gs[0].Stack)}, nil, nil,
			"the scenario ended but %d library goroutine(s) keep running for ever (virtual time advanced without bound for %v of real time), e.g. in %s:\n%s", len(gs), wd, topLibFrame(gs[0].Stack), gs[0].Stack)
	default:
		c.Fail(ev.Sig{"op": "watchdog"}, nil, nil, "the scenario did not become quiescent within %v of real time", wd)
	}
	rec.Close()
	os.Exit(0)
	return ""
}

var goroutineHdr = regexp.MustCompile(`(?m)^goroutine (\d+) [^\n]*\[([^\]]*)\]`)

type gInfo struct {
	ID    string
	State string
	Stack string
}

// libGoroutines returns the goroutines whose stacks contain frames of the
// library under test (excluding the calling goroutine).
func libGoroutines() []gInfo {
	buf := make([]byte, 1<<20)
	for {
		n := runtime.Stack(buf, true)
		if n < len(buf) {
			buf = buf[:n]
			break
		}
		buf = make([]byte, 2*len(buf))
	}
	var out []gInfo
	for i, blk := range strings.Split(string(buf), "\n\n") {
		if i == 0 {
			continue // the caller
		}
		if !strings.Contains(blk, "github.com/fiorix/go-diameter/v4/diam") {
			continue
		}
		m := goroutineHdr.FindStringSubmatch(blk)
		if m == nil {
			continue
		}
		out = append(out, gInfo{ID: m[1], State: m[2], Stack: blk})
	}
	return out
}

// topLibFrame names the innermost library function of a goroutine stack.
func topLibFrame(stack string) string {
	for _, l := range strings.Split(stack, "\n") {
		if strings.HasPrefix(l, "github.com/fiorix/go-diameter/v4/") {
			if k := strings.LastIndex(l, "("); k > 0 {
				l = l[:k]
			}
			return strings.TrimPrefix(l, "github.com/fiorix/go-diameter/v4/")
		}
	}
	return "?"
}

// logCapture redirects the standard logger for the duration of a scenario.
type logCapture struct {
	mu  sync.Mutex
	buf bytes.Buffer
}

func (l *logCapture) Write(p []byte) (int, error) {
	l.mu.Lock()
	defer l.mu.Unlock()
	return l.buf.Write(p)
}
func (l *logCapture) String() string {
	l.mu.Lock()
	defer l.mu.Unlock()
	return l.buf.String()
}

func captureLog() (*logCapture, func()) {
	lc := &logCapture{}
	old := log.Writer()
	log.SetOutput(lc)
	return lc, func() { log.SetOutput(old) }
}
