package props

import (
	"fmt"
	"io"
	"net"
	"testing"
	"time"

	"github.com/fiorix/go-diameter/v4/diam"
	"github.com/fiorix/go-diameter/v4/diam/datatype"
	"github.com/fiorix/go-diameter/v4/diam/sm"

	"verifharness/ev"
	"verifharness/peer"
)

// TestC13Legacy: the watchdog under the timer semantics of programs whose go.mod names a Go
// release before 1.23 (the library's own go.mod does): the child process runs with
// GODEBUG=asynctimerchan=1, under which a timer that fired unobserved keeps its tick across
// Reset.  testing/synctest refuses that setting, so this is the one C13 workload on the real
// clock: a client over net.Pipe whose peer reads each DWR only after more than
// RetransmitInterval (the write itself takes that long) and answers the moment it has read it.
// Such a peer answers every request: the client must go on, round after round.
//
// The verdict does not rest on a deadline: with a correct watchdog nothing ever closes the
// connection, and the peer waits for the next DWR without limit (the driver's watchdog is the
// only clock, and its firing is inconclusive).  A case in which the peer itself was slow to
// hand over its answer (a third of RetransmitInterval, measured) is dropped as inconclusive.
func TestC13Legacy(t *testing.T) {
	rec := ev.Open(t, "C13")
	defer rec.Close()
	ctx := defCtx(t)
	_, restore := captureLog()
	defer restore()
	type variant struct {
		R, stall time.Duration
		rounds   int
		busy     bool // the write is slow because an application write holds the connection
	}
	vs := []variant{
		{2400 * time.Millisecond, 3000 * time.Millisecond, 2, false},
		{2400 * time.Millisecond, 5000 * time.Millisecond, 1, false},
		{3000 * time.Millisecond, 3600 * time.Millisecond, 2, false},
		{2400 * time.Millisecond, 3000 * time.Millisecond, 2, true},
	}
	// (all variants of a round run side by side: the time is spent waiting)
	rec.Suite("slowly-read-dwr", rec.N(1, 4), func(c0 *ev.Case) {
		inParallel(rec, c0, len(vs), func(c *ev.Case, g int) {
			v := vs[g]
			c.Class("slowly-read-dwr/R=%v/stall=%v/busy=%v", v.R, v.stall, v.busy)
			sig := func(op string) ev.Sig { return ev.Sig{"op": op, "suite": "slowly-read-dwr", "busy": v.busy} }
			settings := &sm.Settings{OriginHost: "cli.local", OriginRealm: "realm.local", VendorID: 13, ProductName: "verif",
				HostIPAddresses: []datatype.Address{datatype.Address([]byte{192, 0, 2, 9})}}
			cli := &sm.Client{Dict: ctx.Parser, Handler: sm.New(settings), MaxRetransmits: 0, RetransmitInterval: v.R,
				EnableWatchdog: true, WatchdogInterval: 50 * time.Millisecond,
				AuthApplicationID: []*diam.AVP{diam.NewAVP(258, 0x40, 0, datatype.Unsigned32(4))}}
			a, b := net.Pipe()
			defer a.Close()
			defer b.Close()
			readMsg := func() ([]byte, error) {
				h := make([]byte, 20)
				if _, err := io.ReadFull(b, h); err != nil {
					return nil, err
				}
				n := int(h[1])<<16 | int(h[2])<<8 | int(h[3])
				m := append(h, make([]byte, n-20)...)
				_, err := io.ReadFull(b, m[20:])
				return m, err
			}
			type res struct {
				answered int
				err      error
				slow     time.Duration
				other    int
			}
			done := make(chan res, 1)
			go func() {
				var r res
				m, err := readMsg() // CER
				if err != nil {
					r.err = err
					done <- r
					return
				}
				h := peer.Header(m)
				b.Write(peer.StdCEA(h.HopByHop, h.EndToEnd, 2001, 4))
				for r.answered < v.rounds+1 {
					if r.answered < v.rounds {
						time.Sleep(v.stall) // the client's write of its next DWR lasts this long
					}
					m, err := readMsg()
					if err != nil {
						r.err = err
						break
					}
					h := peer.Header(m)
					if h.Code != 280 || h.Flags&0x80 == 0 {
						r.other++
						continue
					}
					if r.answered == v.rounds {
						break // the DWR of one more round arrived: the client went on
					}
					t0 := time.Now()
					b.Write(c13DWA(0, h.HopByHop, h.EndToEnd, 2001))
					if d := time.Since(t0); d > r.slow {
						r.slow = d
					}
					r.answered++
				}
				done <- r
			}()
			conn, err := cli.NewConn(a, "peer:3868")
			if err != nil {
				c.Fail(sig("setup"), nil, nil, "handshake failed: %v", err)
				return
			}
			defer conn.Close()
			if v.busy {
				// an application request of 64 KB: on net.Pipe it holds the connection's writer
				// until the peer has read all of it, and the DWR queues behind it
				go func() {
					m := diam.NewRequest(272, 4, ctx.Parser)
					m.NewAVP(263, 0x40, 0, datatype.UTF8String("s;1"))
					m.NewAVP(9001, 0, 0, datatype.OctetString(make([]byte, 64<<10)))
					m.WriteTo(conn)
				}()
			}
			r := <-done
			if r.slow > v.R/3 {
				rec.Note(fmt.Sprintf("inconclusive: the peer needed %v to hand over a DWA (machine too busy)", r.slow))
				c.Event("inconclusive_slow_machine", 1)
				return
			}
			if r.err != nil {
				c.Fail(sig("closed-although-answered"), nil, nil, "MaxRetransmits=0, RetransmitInterval=%v, asynctimerchan=1: the peer read each DWR %v after it was offered and answered it within %v, yet after %d answered rounds the connection ended (%v): a responsive peer was dropped", v.R, v.stall, r.slow, r.answered, r.err)
				return
			}
			c.Event("rounds_answered", r.answered)
			c.Event("dwr", r.answered+1)
			c.Event("dwa", r.answered)
		})
	})
}
