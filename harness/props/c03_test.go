package props

import (
	"bytes"
	"encoding/binary"
	"fmt"
	"io"
	"net"
	"runtime"
	"runtime/debug"
	"strings"
	"testing"
	"time"

	"github.com/fiorix/go-diameter/v4/diam"
	"github.com/fiorix/go-diameter/v4/diam/datatype"
	"github.com/fiorix/go-diameter/v4/diam/sm/smparser"

	"verifharness/ev"
	"verifharness/gen"
	"verifharness/lib"
	"verifharness/refcodec"
	"verifharness/refdict"
)

// memBound: memory and stack a decoder may use for an input of n supplied bytes.
func memBound(n int) uint64 { return 64*uint64(n) + 1<<20 }

const goDefaultMaxStack = 1000000000

func nextPow2(v uint64) uint64 {
	p := uint64(1)
	for p < v {
		p <<= 1
	}
	return p
}

// stackCap: the goroutine stack limit during a decoding call for n supplied
// bytes - the memory bound rounded up to a power of two (stacks double), never
// above the runtime's default limit.
func stackCap(n int) int {
	c := nextPow2(memBound(n))
	if c > goDefaultMaxStack {
		return goDefaultMaxStack
	}
	return int(c)
}

// countingReader counts what the decoder asks for and gets.
type countingReader struct {
	b         []byte
	off       int
	requested int
	calls     int
}

func (r *countingReader) Read(p []byte) (int, error) {
	r.calls++
	r.requested += len(p)
	if r.off >= len(r.b) {
		return 0, io.EOF
	}
	n := copy(p, r.b[r.off:])
	r.off += n
	return n, nil
}

// msReader is a diam.MultistreamReader over a byte string delivered as one
// stream of an association (the path ReadMessage takes on SCTP connections).
type msReader struct {
	countingReader
	stream uint
}

func (r *msReader) ReadAny(b []byte) (int, uint, error) {
	n, err := r.Read(b)
	return n, r.stream, err
}
func (r *msReader) ReadStream(b []byte, stream uint) (int, error) { return r.Read(b) }
func (r *msReader) ReadAtLeast(b []byte, min int, strm uint) (int, uint, error) {
	if len(b) < min {
		return 0, r.stream, io.ErrShortBuffer
	}
	n := 0
	for n < min {
		k, err := r.Read(b[n:])
		n += k
		if err != nil {
			if n > 0 && n < min && err == io.EOF {
				err = io.ErrUnexpectedEOF
			}
			return n, r.stream, err
		}
	}
	return n, r.stream, nil
}
func (r *msReader) CurrentStream() uint          { return r.stream }
func (r *msReader) ResetCurrentStream()          {}
func (r *msReader) SetCurrentStream(s uint) uint { return r.stream }

// shapes for Unmarshal
type c03Shape1 struct {
	OriginHost  string                    `avp:"Origin-Host"`
	OriginRealm datatype.DiameterIdentity `avp:"Origin-Realm"`
	HostIP      []net.IP                  `avp:"Host-IP-Address"`
	VendorID    uint32                    `avp:"Vendor-Id"`
	Product     *string                   `avp:"Product-Name"`
	State       *diam.AVP                 `avp:"Origin-State-Id"`
	VSA         []struct {
		Vendor int     `avp:"Vendor-Id"`
		Auth   *uint32 `avp:"Auth-Application-Id"`
		Acct   []int64 `avp:"Acct-Application-Id"`
	} `avp:"Vendor-Specific-Application-Id"`
	Failed  []*diam.AVP `avp:"Failed-AVP"`
	ResCode int         `avp:"Result-Code"`
	Ts      time.Time   `avp:"Event-Timestamp"`
	Sess    []byte      `avp:"Session-Id"`
}
type c03Shape2 struct {
	Oct datatype.OctetString `avp:"G-Octets"`
	U   []string             `avp:"G-UTF8"`
	I32 int32                `avp:"G-I32"`
	I64 *int64               `avp:"G-I64"`
	U32 []uint32             `avp:"G-U32"`
	U64 uint64               `avp:"G-U64"`
	F32 float32              `avp:"G-F32"`
	F64 []float64            `avp:"G-F64"`
	E   datatype.Enumerated  `avp:"G-Enum"`
	T   time.Time            `avp:"G-Time"`
	TT  datatype.Time        `avp:"G-Time"`
	A   net.IP               `avp:"G-Addr"`
	AA  []datatype.Address   `avp:"G-Addr"`
	V4  datatype.IPv4        `avp:"G-IPv4"`
	V6  net.IP               `avp:"G-IPv6"`
	G   struct {
		O  []byte `avp:"G-Octets"`
		GG *struct {
			O string `avp:"G-Octets"`
		} `avp:"G-Group"`
		A diam.AVP `avp:"G-Addr"`
	} `avp:"G-Group"`
	G2 []*diam.AVP `avp:"G-Group2"`
	GP *diam.AVP   `avp:"G-Group"`
}

// decodeOps offers the input to every decoder, measuring memory, and returns
// the decoded message (if any) for inspection.
func decodeOps(c *ev.Case, ctx *lib.Ctx, in []byte, class string) (*diam.Message, bool) {
	bound := memBound(len(in))
	var ms0, ms1 runtime.MemStats
	var m *diam.Message
	var err error
	cr := &countingReader{b: in}
	c.Input("ReadMessage/"+ctx.Name, in)
	debug.SetMaxStack(stackCap(len(in)))
	runtime.ReadMemStats(&ms0)
	p, bad := guard(func() { m, err = diam.ReadMessage(cr, ctx.Parser) })
	runtime.ReadMemStats(&ms1)
	debug.SetMaxStack(goDefaultMaxStack)
	if bad {
		c.Fail(ev.Sig{"op": "panic", "call": "ReadMessage", "site": panicSite(p)}, in, nil, "ReadMessage panicked (%s, dict %s): %s", class, ctx.Name, p)
		return nil, false
	}
	alloc := ms1.TotalAlloc - ms0.TotalAlloc
	if alloc > bound {
		declared := 0
		if len(in) >= 4 {
			declared = int(in[1])<<16 | int(in[2])<<8 | int(in[3])
		}
		truncated := declared > len(in)
		c.Fail(ev.Sig{"op": "over-allocation", "call": "ReadMessage", "claimed_length_truncated": truncated, "excess_le_declared": alloc <= uint64(declared)+memBound(len(in))},
			in[:min(len(in), 64)], map[string]any{"supplied": len(in), "declared": declared, "allocated": alloc, "bound": bound},
			"ReadMessage allocated %d bytes for %d supplied bytes (bound 64*len+1MiB = %d); declared message length %d, err=%v (%s)", alloc, len(in), bound, declared, err, class)
		return nil, false
	}
	if cr.requested > 2*len(in)+8192 && cr.off >= len(in) && err != nil {
		// the decoder kept asking for bytes that a length field promised
		c.Event("reads_beyond_supplied", 1)
	}
	c.Event("readmessage_calls", 1)
	if err == nil {
		c.Event("readmessage_ok", 1)
	}
	// the same bytes arriving on a stream of a multi-stream association
	{
		var m2 *diam.Message
		var err2 error
		mr := &msReader{countingReader: countingReader{b: in}, stream: uint(len(in) % 7)}
		c.Input("ReadMessage-multistream/"+ctx.Name, in)
		debug.SetMaxStack(stackCap(len(in)))
		runtime.ReadMemStats(&ms0)
		p, bad := guard(func() { m2, err2 = diam.ReadMessage(mr, ctx.Parser) })
		runtime.ReadMemStats(&ms1)
		debug.SetMaxStack(goDefaultMaxStack)
		if bad {
			c.Fail(ev.Sig{"op": "panic", "call": "ReadMessage-multistream", "site": panicSite(p)}, in, nil, "ReadMessage from a multi-stream reader panicked (%s, dict %s): %s", class, ctx.Name, p)
			return nil, false
		}
		if alloc := ms1.TotalAlloc - ms0.TotalAlloc; alloc > bound {
			c.Fail(ev.Sig{"op": "over-allocation", "call": "ReadMessage-multistream"}, in[:min(len(in), 64)], map[string]any{"supplied": len(in), "allocated": alloc, "bound": bound},
				"ReadMessage from a multi-stream reader allocated %d bytes for %d supplied bytes (bound %d), err=%v (%s)", alloc, len(in), bound, err2, class)
			return nil, false
		}
		if (err == nil) != (err2 == nil) {
			c.Fail(ev.Sig{"op": "multistream-differs", "call": "ReadMessage-multistream"}, in, nil, "the same bytes: err=%v from a plain reader, err=%v from a multi-stream reader (%s)", err, err2, class)
			return nil, false
		}
		if err == nil && len(m2.AVP) != len(m.AVP) {
			c.Fail(ev.Sig{"op": "multistream-differs", "call": "ReadMessage-multistream"}, in, nil, "the same bytes: %d AVPs from a plain reader, %d from a multi-stream reader (%s)", len(m.AVP), len(m2.AVP), class)
			return nil, false
		}
		c.Event("readmessage_multistream_calls", 1)
	}
	// other decoders on the same bytes
	c.Input("DecodeHeader", in)
	if p, bad := guard(func() { diam.DecodeHeader(in) }); bad {
		c.Fail(ev.Sig{"op": "panic", "call": "DecodeHeader", "site": panicSite(p)}, in, nil, "DecodeHeader panicked: %s", p)
		return nil, false
	}
	if len(in) > 20 {
		body := in[20:]
		app := binary.BigEndian.Uint32(in[8:12])
		c.Input("DecodeAVP", body)
		debug.SetMaxStack(stackCap(len(in)))
		runtime.ReadMemStats(&ms0)
		var a *diam.AVP
		p, bad := guard(func() { a, err = diam.DecodeAVP(body, app, ctx.Parser) })
		var g *diam.GroupedAVP
		var p2 string
		var bad2 bool
		if !bad {
			c.Input("DecodeGrouped", body)
			p2, bad2 = guard(func() { g, _ = diam.DecodeGrouped(datatype.Grouped(body), app, ctx.Parser) })
		}
		runtime.ReadMemStats(&ms1)
		debug.SetMaxStack(goDefaultMaxStack)
		if bad || bad2 {
			c.Fail(ev.Sig{"op": "panic", "call": "DecodeAVP/DecodeGrouped", "site": panicSite(p + p2)}, body, nil, "DecodeAVP/DecodeGrouped panicked (%s): %s%s", class, p, p2)
			return nil, false
		}
		if alloc := ms1.TotalAlloc - ms0.TotalAlloc; alloc > 2*bound {
			c.Fail(ev.Sig{"op": "over-allocation", "call": "DecodeAVP/DecodeGrouped"}, body[:min(len(body), 64)], nil, "DecodeAVP+DecodeGrouped allocated %d bytes for %d supplied", alloc, len(body))
			return nil, false
		}
		if a != nil && err == nil && a.Data != nil && avpDepth([]*diam.AVP{a}) <= 300 {
			inspectAVP(c, a, class)
		}
		if g != nil && avpDepth(g.AVP) <= 300 {
			if p, bad := guard(func() { _ = g.String(); g.Serialize(); g.Len() }); bad {
				c.Fail(ev.Sig{"op": "panic", "call": "GroupedAVP-inspect", "site": panicSite(p)}, body, nil, "inspecting a decoded group panicked: %s", p)
				return nil, false
			}
		}
	}
	return m, true
}

func inspectAVP(c *ev.Case, a *diam.AVP, class string) {
	if p, bad := guard(func() { _ = a.String(); a.Serialize(); a.Len() }); bad {
		c.Fail(ev.Sig{"op": "panic", "call": "AVP-inspect", "site": panicSite(p)}, nil, nil, "inspecting a decoded AVP panicked (%s): %s", class, p)
	}
}

// c03Shape3: destinations of a fixed size (Go converts a slice to an array when it is long
// enough, and panics when it is not: the length is the peer's)
type c03Shape3 struct {
	Host4  [4]byte    `avp:"Host-IP-Address"`
	Host16 *[16]byte  `avp:"Host-IP-Address"`
	Hosts  [][4]byte  `avp:"Host-IP-Address"`
	A      [6]byte    `avp:"G-Addr"`
	V4     [4]byte    `avp:"G-IPv4"`
	V6     *[16]byte  `avp:"G-IPv6"`
	V6s    [][16]byte `avp:"G-IPv6"`
	Oct    [8]byte    `avp:"G-Octets"`
	Name   [3]byte    `avp:"Origin-Host"`
	State  [4]byte    `avp:"Origin-State-Id"`
}

// inspectBounded: the inspections whose allocations are measured against the size of the input.
var inspectBounded = map[string]bool{"String": true, "PrettyDump": true, "Serialize": true, "Len": true, "Answer": true,
	"Unmarshal-CER": true, "Unmarshal-CEA": true, "Unmarshal-shape1": true, "Unmarshal-shape2": true}

// inspect renders / searches / unmarshals a decoded message.
func inspect(c *ev.Case, ctx *lib.Ctx, m *diam.Message, in []byte, class string) bool {
	type op struct {
		name string
		f    func()
	}
	ops := []op{
		{"String", func() { _ = m.String() }},
		{"PrettyDump", func() { _ = m.PrettyDump() }},
		{"Serialize", func() { m.Serialize() }},
		{"Len", func() { m.Len() }},
		{"Unmarshal-CER", func() { m.Unmarshal(new(smparser.CER)) }},
		{"Unmarshal-CEA", func() { m.Unmarshal(new(smparser.CEA)) }},
		{"Unmarshal-DWR", func() { m.Unmarshal(new(smparser.DWR)) }},
		{"Unmarshal-DWA", func() { m.Unmarshal(new(smparser.DWA)) }},
		{"Unmarshal-shape1", func() { m.Unmarshal(new(c03Shape1)) }},
		{"Unmarshal-shape2", func() { m.Unmarshal(new(c03Shape2)) }},
		{"Unmarshal-shape3", func() { m.Unmarshal(new(c03Shape3)) }},
		{"Parse-CER", func() { new(smparser.CER).Parse(m, smparser.Server) }},
		{"Parse-CEA", func() { new(smparser.CEA).Parse(m, smparser.Client) }},
		{"FindAVP", func() {
			m.FindAVP(264, 0)
			m.FindAVP("Origin-Host", refdict.AnyVendor)
			m.FindAVP(uint32(9018), refdict.AnyVendor)
			for _, a := range m.AVP {
				m.FindAVP(a.Code, a.VendorID)
				m.FindAVPs(a.Code, refdict.AnyVendor)
			}
		}},
		{"FindAVPsWithPath", func() {
			for _, a := range m.AVP {
				m.FindAVPsWithPath([]interface{}{a.Code}, refdict.AnyVendor)
				if g, ok := a.Data.(*diam.GroupedAVP); ok && len(g.AVP) > 0 {
					m.FindAVPsWithPath([]interface{}{a.Code, g.AVP[0].Code}, refdict.AnyVendor)
				}
			}
		}},
		{"Answer", func() { m.Answer(2001).Serialize() }},
	}
	depth := avpDepth(m.AVP)
	deep := depth > 300
	if depth > 2000 {
		// Len()/Serialize() are quadratic in the nesting depth as well
		c.Event("too_deep_to_inspect", 1)
		return true
	}
	for _, o := range ops {
		if deep && (o.name == "String" || o.name == "PrettyDump") {
			// rendering builds nested strings, quadratic in the depth: not a
			// panic/abort question, only a matter of run time
			continue
		}
		c.Input("inspect/"+o.name, in)
		var ms0, ms1 runtime.MemStats
		bounded := inspectBounded[o.name]
		if bounded {
			runtime.ReadMemStats(&ms0)
		}
		if p, bad := guard(o.f); bad {
			c.Fail(ev.Sig{"op": "panic", "call": o.name, "site": panicSite(p)}, in, nil, "%s of a decoded message panicked (%s, dict %s): %s", o.name, class, ctx.Name, p)
			return false
		}
		if bounded {
			// a decoded tree is rendered / re-serialised / unmarshalled in memory proportional to its
			// size times its nesting depth (every level embeds the text of the levels below), never
			// to the square of the number of AVPs
			runtime.ReadMemStats(&ms1)
			bound := 16 * uint64(depth+2) * memBound(len(in))
			if o.name == "Serialize" || o.name == "Len" {
				// nothing is rendered here: the wire image is as large as the input was,
				// whatever the nesting
				bound = memBound(len(in))
			}
			if alloc := ms1.TotalAlloc - ms0.TotalAlloc; alloc > bound {
				c.Fail(ev.Sig{"op": "over-allocation", "call": o.name}, in[:min(len(in), 64)], map[string]any{"supplied": len(in), "allocated": alloc, "bound": bound, "depth": depth},
					"%s of a decoded message allocated %d bytes for %d supplied bytes and nesting depth %d (bound 16*(depth+2)*(64*len+1MiB) for renderings and struct unmarshalling, 64*len+1MiB for Serialize and Len: %d) (%s, dict %s)", o.name, alloc, len(in), depth, bound, class, ctx.Name)
				return false
			}
			c.Event("inspections_memory_bounded", 1)
		}
	}
	c.Event("messages_inspected", 1)
	return true
}

// offerQuiet: ReadMessage and the inspections of offer(), checked for panics only (usable from
// several goroutines at once).
func offerQuiet(c *ev.Case, ctx *lib.Ctx, in []byte) {
	var m *diam.Message
	var err error
	c.Input("ReadMessage-parallel/"+ctx.Name, in)
	if p, bad := guard(func() { m, err = diam.ReadMessage(bytes.NewReader(in), ctx.Parser) }); bad {
		c.Fail(ev.Sig{"op": "panic", "call": "ReadMessage", "site": panicSite(p), "how": "parallel"}, in, nil, "ReadMessage panicked while other goroutines decode with the same dictionary (dict %s): %s", ctx.Name, p)
		return
	}
	c.Event("readmessage_calls", 1)
	if err != nil || m == nil {
		return
	}
	c.Event("readmessage_ok", 1)
	for _, o := range []struct {
		name string
		f    func()
	}{
		{"String", func() { _ = m.String() }},
		{"PrettyDump", func() { _ = m.PrettyDump() }},
		{"Serialize", func() { m.Serialize() }},
		{"Unmarshal-shape1", func() { m.Unmarshal(new(c03Shape1)) }},
		{"Unmarshal-shape2", func() { m.Unmarshal(new(c03Shape2)) }},
		{"Unmarshal-shape3", func() { m.Unmarshal(new(c03Shape3)) }},
		{"FindAVP", func() {
			m.FindAVP("Origin-Host", refdict.AnyVendor)
			for _, a := range m.AVP {
				m.FindAVPs(a.Code, refdict.AnyVendor)
			}
		}},
		{"Answer", func() { m.Answer(2001).Serialize() }},
	} {
		if p, bad := guard(o.f); bad {
			c.Fail(ev.Sig{"op": "panic", "call": o.name, "site": panicSite(p), "how": "parallel"}, in, nil, "%s of a decoded message panicked while other goroutines decode with the same dictionary (dict %s): %s", o.name, ctx.Name, p)
			return
		}
	}
	c.Event("messages_inspected", 1)
}

func raceDiv(rec *ev.Rec, n, div int) int {
	if rec.Race() {
		return n / div
	}
	return n
}

func avpDepth(avps []*diam.AVP) int {
	d := 0
	for _, a := range avps {
		if g, ok := a.Data.(*diam.GroupedAVP); ok {
			if k := 1 + avpDepth(g.AVP); k > d {
				d = k
			}
		}
	}
	return d
}

// offer runs one input through decoders and inspections under ctx.
func offer(c *ev.Case, ctx *lib.Ctx, in []byte, class string) bool {
	c.Class("%s", class)
	m, ok := decodeOps(c, ctx, in, class)
	if !ok {
		return false
	}
	if m != nil && len(in) <= 1<<17 {
		return inspect(c, ctx, m, in, class)
	}
	return true
}

// lengthFields returns the absolute offsets of every 3-byte length field in a
// message image (message length first), with the true value and the size of
// the enclosing container.
type lenField struct {
	off       int
	val       int
	container int
	depth     int
}

func lengthFields(wire []byte, tf refcodec.TypeFunc) []lenField {
	out := []lenField{{off: 1, val: len(wire), container: len(wire), depth: -1}}
	var walk func(b []byte, base, depth int)
	walk = func(b []byte, base, depth int) {
		recs, _, err := refcodec.Frame(b)
		if err != nil {
			return
		}
		for _, r := range recs {
			out = append(out, lenField{off: base + r.Off + 5, val: int(r.Length), container: len(b) - r.Off, depth: depth})
			if tf(r.Code, r.Vendor, r.Flags&0x80 != 0) == refcodec.Grouped {
				hl := 8
				if r.Flags&0x80 != 0 {
					hl = 12
				}
				walk(r.Payload, base+r.Off+hl, depth+1)
			}
		}
	}
	walk(wire[20:], 20, 0)
	return out
}

func put24(b []byte, off, v int) {
	b[off], b[off+1], b[off+2] = byte(v>>16), byte(v>>8), byte(v)
}

// nestBomb: grouped AVPs nested d levels, innermost empty.
func nestBomb(code uint32, d int) []byte {
	total := 20 + 8*d
	b := make([]byte, total)
	copy(b, refcodec.EncodeHeader(refcodec.Header{Version: 1, Length: uint32(total), Flags: 0x80, Code: 257, HopByHop: 1, EndToEnd: 1}))
	for i := 0; i < d; i++ {
		off := 20 + 8*i
		binary.BigEndian.PutUint32(b[off:], code)
		b[off+4] = 0x40
		put24(b, off+5, total-off)
	}
	return b
}

// wideGroup: one grouped AVP with w members that are (empty) grouped AVPs of the
// same code; deep: every 10th member holds a chain of 20 more.
func wideGroup(code uint32, w int, deep bool) []byte {
	var body []byte
	for i := 0; i < w; i++ {
		if deep && i%10 == 0 {
			inner := nestBomb(code, 20)[20:]
			body = append(body, inner...)
			continue
		}
		m := make([]byte, 8)
		binary.BigEndian.PutUint32(m, code)
		m[4] = 0x40
		put24(m, 5, 8)
		body = append(body, m...)
	}
	total := 20 + 8 + len(body)
	b := make([]byte, 28, total)
	copy(b, refcodec.EncodeHeader(refcodec.Header{Version: 1, Length: uint32(total), Flags: 0x80, Code: 257, HopByHop: 1, EndToEnd: 1}))
	binary.BigEndian.PutUint32(b[20:], code)
	b[24] = 0x40
	put24(b, 25, 8+len(body))
	return append(b, body...)
}

// distinctUnknowns: a message of n 8-byte AVPs with codes nobody defines, all
// different (also from those of other seeds), half of them with a vendor id.
func distinctUnknowns(seed uint32, n int) []byte {
	var body []byte
	for i := 0; i < n; i++ {
		code := 0x01000000 + seed*8192 + uint32(i)
		if i%2 == 0 {
			a := make([]byte, 8)
			binary.BigEndian.PutUint32(a, code)
			put24(a, 5, 8)
			body = append(body, a...)
		} else {
			a := make([]byte, 12)
			binary.BigEndian.PutUint32(a, code)
			a[4] = 0x80
			put24(a, 5, 12)
			binary.BigEndian.PutUint32(a[8:], 70000+seed+uint32(i))
			body = append(body, a...)
		}
	}
	h := refcodec.EncodeHeader(refcodec.Header{Version: 1, Length: uint32(20 + len(body)), Flags: 0x80, Code: 257, HopByHop: 1, EndToEnd: 1})
	return append(h, body...)
}

func seedMessage(c *ev.Case, ctx *lib.Ctx) (*gen.Msg, []byte) {
	o := &gen.Opts{MaxDepth: 3, MaxAVPs: 6}
	for {
		m := drawMsg(c, ctx, o)
		w := refcodec.EncodeMessage(m.H, m.Nodes)
		if len(w) <= 400 {
			return m, w
		}
	}
}

// c03LaterXML defines, after the fact, codes that earlier messages carried as opaque data, and
// gives an application other types for codes of the base application.
const c03LaterXML = `<?xml version="1.0" encoding="UTF-8"?>
<diameter>
  <application id="0" name="Base">
    <avp name="L-Group" code="9600" must="M"><data type="Grouped"><rule avp="G-Octets" required="false"/></data></avp>
    <avp name="L-U32" code="9601" must="M"><data type="Unsigned32"/></avp>
    <avp name="L-Addr" code="9602" must="M"><data type="Address"/></avp>
    <avp name="LV-Group" code="9603" must="M,V" vendor-id="99999"><data type="Grouped"><rule avp="G-Octets" required="false"/></data></avp>
    <avp name="L-Time" code="9604" must="M"><data type="Time"/></avp>
    <avp name="L-IPv4" code="9605" must="M"><data type="IPv4"/></avp>
    <avp name="L-F64" code="9606" must="M"><data type="Float64"/></avp>
    <avp name="L-URI" code="9607" must="M"><data type="DiameterURI"/></avp>
  </application>
  <application id="8388001" type="auth" name="Gen-App">
    <avp name="LA-Group-As-Octets" code="9018" must="M"><data type="OctetString"/></avp>
    <avp name="LA-U32-As-Group" code="9009" must="M"><data type="Grouped"><rule avp="G-Octets" required="false"/></data></avp>
    <avp name="LA-Octets-As-Group" code="9001" must="M"><data type="Grouped"><rule avp="G-Octets" required="false"/></data></avp>
  </application>
</diameter>`

func TestC03(t *testing.T) {
	rec := ev.Open(t, "C03")
	defer rec.Close()
	ctxs := contexts(t)
	def := ctxs[0]

	// 1. structured corruptions of valid seed messages (deterministic per seed message)
	rec.Suite("corruptions", raceDiv(rec, rec.N(600, 30000), 6), func(c *ev.Case) {
		ctx := ctxs[c.I%len(ctxs)]
		m, wire := seedMessage(c, ctx)
		tf := ctx.TypeFunc(m.H.App)
		if !offer(c, ctx, wire, "seed") {
			return
		}
		fields := lengthFields(wire, tf)
		for _, f := range fields {
			vals := []int{0, 1, 7, 8, 9, 11, 12, 13, f.val - 1, f.val + 1, f.val + 4, f.container, f.container + 1, 0xFFFFFF}
			if f.depth < 0 {
				vals = append(vals, 19, 20, 21)
			}
			for vi, v := range vals {
				if v < 0 || v > 0xFFFFFF || v == f.val {
					continue
				}
				if f.depth < 0 && v == 0xFFFFFF && c.I%8 != 0 {
					continue // the 16 MiB claimed-length case is expensive: one seed in 8
				}
				mut := append([]byte(nil), wire...)
				put24(mut, f.off, v)
				if !offer(c, ctx, mut, fmt.Sprintf("length-field/depth=%d/value#%d", f.depth, vi)) {
					return
				}
			}
		}
		// every truncation of messages up to 4 KiB; of longer ones the first 2 KiB, the last
		// 64 bytes and every step-th length in between (the cost is quadratic otherwise)
		step := 1
		if len(wire) > 4096 {
			step = len(wire) / 2048
		}
		for tr := 0; tr < len(wire); tr++ {
			if step > 1 && tr > 2048 && tr < len(wire)-64 && tr%step != 0 {
				continue
			}
			if !offer(c, ctx, wire[:tr], "truncation") {
				return
			}
		}
		// every flag bit of the header and of each AVP; version byte
		for bit := 0; bit < 8; bit++ {
			mut := append([]byte(nil), wire...)
			mut[4] ^= 1 << bit
			if !offer(c, ctx, mut, "flip/header-flag") {
				return
			}
			for _, f := range fields[1:] {
				mut := append([]byte(nil), wire...)
				mut[f.off-1] ^= 1 << bit
				if !offer(c, ctx, mut, fmt.Sprintf("flip/avp-flag-bit%d", bit)) {
					return
				}
			}
		}
		for _, v := range []byte{0, 2, 255} {
			mut := append([]byte(nil), wire...)
			mut[0] = v
			if !offer(c, ctx, mut, "version") {
				return
			}
		}
		// V flag with Length 8..11 on each AVP
		for _, f := range fields[1:] {
			for l := 8; l <= 11; l++ {
				mut := append([]byte(nil), wire...)
				mut[f.off-1] |= 0x80
				put24(mut, f.off, l)
				if !offer(c, ctx, mut, "vflag-short") {
					return
				}
			}
		}
		if c.WantSample() {
			c.Sample(map[string]any{"seed_message": ev.Hex(wire), "dict": ctx.Name, "length_fields": len(fields)})
		}
	})

	// 2. typed payload lengths: fixed-width types with payloads 0..17, Address every family/length 0..20
	rec.Suite("typed-lengths", raceDiv(rec, rec.N(400, 20000), 4), func(c *ev.Case) {
		ctx := ctxs[c.I%len(ctxs)]
		r := c.R
		h, _ := ctx.Header(r, ctx.Cmds)
		vis := ctx.Visible(h.App)
		def := vis[r.IntN(len(vis))]
		k, _ := refcodec.KindOf(def.Type)
		flags := uint8(0x40)
		if def.Vendor != 0 {
			flags |= 0x80
		}
		maxl := 17
		if k == refcodec.Address {
			maxl = 20
		}
		for l := 0; l <= maxl; l++ {
			payload := make([]byte, l)
			for i := range payload {
				payload[i] = byte(r.Uint32())
			}
			fams := []int{-1}
			if k == refcodec.Address && l >= 2 {
				fams = []int{0, 1, 2, 3, 8, 65534, 65535}
			}
			for _, fam := range fams {
				if fam >= 0 {
					binary.BigEndian.PutUint16(payload, uint16(fam))
				}
				hl := 8 + 4*int(flags>>7)
				body := append(rawHeader(def.Code, flags, def.Vendor, hl+l), payload...)
				for len(body)%4 != 0 {
					body = append(body, 0)
				}
				h.Length = uint32(20 + len(body))
				wire := append(refcodec.EncodeHeader(h), body...)
				if !offer(c, ctx, wire, fmt.Sprintf("typed/%s/len=%d", def.Type, l)) {
					return
				}
			}
		}
	})

	// 3. nest bombs on a geometric grid (up to 64 KiB here; the 16 MiB one is an extreme)
	grouped := []uint32{260, 279, 297, 284} // grouped AVPs of the base dictionary
	depths := []int{1, 2, 3, 7, 15, 31, 63, 64, 65, 127, 128, 129, 255, 256, 257, 511, 1023, 2047, 4095, 8189}
	rec.Suite("nest-bombs", len(depths)*len(grouped), func(c *ev.Case) {
		d := depths[c.I%len(depths)]
		code := grouped[c.I/len(depths)]
		offer(c, def, nestBomb(code, d), fmt.Sprintf("nest/depth=%d", d))
	})

	// 3'. deep and heavy: a chain of nested groups around one large value (what the decoder
	//     accepted is then rendered, searched and serialised again: no inspection may need the
	//     value's size once per level of nesting)
	heavy := [][2]int{{100, 1 << 20}, {50, 1 << 20}, {127, 64 << 10}, {120, 256 << 10}, {10, 4 << 20}, {128, 4 << 10}}
	rec.Suite("nested-around-a-large-value", len(heavy)*2, func(c *ev.Case) {
		d, sz := heavy[c.I%len(heavy)][0], heavy[c.I%len(heavy)][1]
		code := grouped[(c.I/len(heavy))%len(grouped)]
		total := 20 + 8*d + 8 + sz
		b := make([]byte, total)
		copy(b, refcodec.EncodeHeader(refcodec.Header{Version: 1, Length: uint32(total), Flags: 0x80, Code: 257, HopByHop: 1, EndToEnd: 1}))
		for i := 0; i < d; i++ {
			off := 20 + 8*i
			binary.BigEndian.PutUint32(b[off:], code)
			b[off+4] = 0x40
			put24(b, off+5, total-off)
		}
		off := 20 + 8*d
		binary.BigEndian.PutUint32(b[off:], 0x00E10001) // nobody's code: opaque data
		put24(b, off+5, 8+sz)
		for i := off + 8; i < total; i++ {
			b[i] = byte(i)
		}
		offer(c, def, b, fmt.Sprintf("nested-around-a-large-value/depth=%d/size=%d", d, sz))
	})

	// 3a. wide instead of deep: one group holding many members that are groups themselves
	//     (and trees that are both wide and deep)
	widths := []int{1, 2, 127, 128, 129, 130, 200, 1000, 5000}
	rec.Suite("wide-groups", len(widths)*len(grouped)*2, func(c *ev.Case) {
		w := widths[c.I%len(widths)]
		code := grouped[(c.I/len(widths))%len(grouped)]
		deep := c.I/(len(widths)*len(grouped)) == 1
		offer(c, def, wideGroup(code, w, deep), fmt.Sprintf("wide/members=%d/deep=%v", w, deep))
	})

	// 1b. decoding and inspecting from four goroutines that share the dictionaries, as the
	//     readers and handlers of several connections do: valid messages, messages with a few
	//     bytes changed, truncated ones, messages full of AVP codes nobody has seen before.
	//     (No memory bound here: the counters are per process.)
	rec.Suite("parallel-decodes", raceDiv(rec, rec.N(300, 30000), 3), func(c *ev.Case) {
		ctx := ctxs[c.I%len(ctxs)]
		c.Class("parallel-decodes/%s", ctx.Name)
		inParallel(rec, c, 4, func(gc *ev.Case, g int) {
			r := gc.R
			for k := 0; k < 6 && !gc.Failed(); k++ {
				var in []byte
				switch r.IntN(4) {
				case 0:
					_, in = seedMessage(gc, ctx)
				case 1:
					_, w := seedMessage(gc, ctx)
					in = append([]byte(nil), w...)
					for f := 1 + r.IntN(3); f > 0 && len(in) > 20; f-- {
						in[20+r.IntN(len(in)-20)] ^= byte(1 << r.IntN(8))
					}
				case 2:
					_, w := seedMessage(gc, ctx)
					in = w[:r.IntN(len(w)+1)]
				default:
					in = distinctUnknowns(uint32(c.I*64+g*8+k), 30+r.IntN(60))
				}
				offerQuiet(gc, ctx, in)
			}
		})
		c.Event("parallel_decode_groups", 1)
	})

	// 3d. the same code several times, one occurrence unlike the others (the V bit with a vendor id
	//     nobody defines, so that it decodes as opaque data; the V bit with vendor 0; a payload of
	//     another size): struct fields that are slices of plain values see values of mixed types
	repNames := []string{"Host-IP-Address", "G-UTF8", "G-U32", "G-F64", "G-Addr", "G-I64", "G-Enum"}
	rec.Suite("repeated-codes", len(repNames)*4*3, func(c *ev.Case) {
		name := repNames[c.I%len(repNames)]
		kind := (c.I / len(repNames)) % 4
		pos := c.I / (len(repNames) * 4)
		var ctx *lib.Ctx
		var code uint32
		for _, cx := range ctxs {
			if a, err := cx.Parser.FindAVP(0, name); err == nil {
				ctx, code = cx, a.Code
				break
			}
		}
		if ctx == nil {
			t.Fatalf("no dictionary context defines %s", name)
		}
		good := map[string][]byte{"Host-IP-Address": {0, 1, 10, 0, 0, 1}, "G-UTF8": []byte("abc"), "G-U32": {0, 0, 0, 7}, "G-F64": {0x40, 9, 0x21, 0xfb, 0x54, 0x44, 0x2d, 0x18},
			"G-Addr": {0, 1, 10, 0, 0, 2}, "G-I64": {0xff, 0xff, 0xff, 0xff, 0xff, 0xff, 0xff, 0xfe}, "G-Enum": {0, 0, 0, 1}}[name]
		var body []byte
		for i := 0; i < 3; i++ {
			flags, vendor, payload := uint8(0x40), uint32(0), good
			if i == pos {
				switch kind {
				case 0:
					flags, vendor = 0xC0, 99999
				case 1:
					payload = nil
				case 2:
					payload = append(append([]byte{}, good...), 0x41)
				case 3:
					flags = 0xC0
				}
			}
			hl := 8
			if flags&0x80 != 0 {
				hl = 12
			}
			body = append(body, rawHeader(code, flags, vendor, hl+len(payload))...)
			body = append(body, payload...)
			for len(body)%4 != 0 {
				body = append(body, 0)
			}
		}
		cmd := uint32(257)
		if name != "Host-IP-Address" {
			cmd = 8388000
		}
		in := append(refcodec.EncodeHeader(refcodec.Header{Version: 1, Length: uint32(20 + len(body)), Flags: 0x80, Code: cmd, HopByHop: 1, EndToEnd: 1}), body...)
		offer(c, ctx, in, fmt.Sprintf("repeated/%s/odd-one=%d/at=%d", name, kind, pos))
	})
	rec.Exhaustive("repeated-codes")

	// 3c. retention: what the decoders keep once the messages are dropped must not grow with
	//     the traffic (streams of AVPs whose code / vendor / application keeps changing)
	rec.Suite("retention", rec.N(6, 60), func(c *ev.Case) {
		ctx := ctxs[c.I%len(ctxs)]
		var ms0, ms1 runtime.MemStats
		runtime.GC()
		runtime.ReadMemStats(&ms0)
		supplied := 0
		for k := 0; k < 40; k++ {
			in := distinctUnknowns(uint32(c.I*1000+k), 2000)
			supplied += len(in)
			c.Input("ReadMessage-retention/"+ctx.Name, in[:64])
			if m, err := diam.ReadMessage(bytes.NewReader(in), ctx.Parser); err == nil {
				_ = m.String()
				m.FindAVP(264, 0)
			}
		}
		runtime.GC()
		runtime.GC()
		runtime.ReadMemStats(&ms1)
		grown := int64(ms1.HeapAlloc) - int64(ms0.HeapAlloc)
		c.Class("retention/%s", ctx.Name)
		c.Event("retention_rounds", 1)
		if grown > int64(supplied)/4+(1<<20) {
			c.Fail(ev.Sig{"op": "retained-after-drop", "call": "ReadMessage"}, nil, map[string]any{"supplied": supplied, "heap_growth_after_gc": grown},
				"after decoding and dropping 40 messages (%d bytes supplied, every AVP with another undefined code / vendor) the live heap is %d bytes larger than before (bound: supplied/4 + 1 MiB): the decoder keeps memory per distinct AVP seen", supplied, grown)
		}
	})

	// 3b. claimed length x supplied bytes: a header that claims much and a peer
	//     that delivers only part of it, around the 64 KiB growth step
	claimed := []int{70000, 200000, 1 << 20, 0xFFFFFF}
	supplied := []int{0, 1, 1000, 65535, 65536, 65537, 131072, 131073, 300000, 1 << 20}
	rec.Suite("claimed-vs-supplied", len(claimed)*len(supplied), func(c *ev.Case) {
		cl, su := claimed[c.I%len(claimed)], supplied[c.I/len(claimed)]
		if su >= cl-20 {
			return
		}
		in := make([]byte, 20+su)
		copy(in, refcodec.EncodeHeader(refcodec.Header{Version: 1, Length: uint32(cl), Flags: 0x80, Code: 257, HopByHop: 1, EndToEnd: 1}))
		if su >= 8 {
			// one OctetString-like AVP that claims the rest of the message
			in[20+3] = 44 // Session-Id... any code of the base dictionary: 263 = 0x107
			in[20+2], in[20+3] = 0x01, 0x07
			put24(in, 20+5, cl-20)
		}
		offer(c, def, in, fmt.Sprintf("claimed=%d/supplied=%d", cl, su))
	})

	// 3e. the same claims after history: the parser has just received, complete, a 4 MiB message
	//     of the same command (what a receiver learned from earlier traffic must not make it
	//     believe a later header)
	rec.Suite("claimed-after-large-message", len(claimed)*3, func(c *ev.Case) {
		cl, su := claimed[c.I%len(claimed)], []int{0, 1000, 65537}[c.I/len(claimed)]
		if su >= cl-20 {
			return
		}
		warm := make([]byte, 20+8+(4<<20))
		copy(warm, refcodec.EncodeHeader(refcodec.Header{Version: 1, Length: uint32(len(warm)), Flags: 0x80, Code: 257, HopByHop: 1, EndToEnd: 1}))
		warm[20+2], warm[20+3] = 0x01, 0x07 // Session-Id
		warm[20+4] = 0x40
		put24(warm, 20+5, len(warm)-20)
		if m, err := diam.ReadMessage(bytes.NewReader(warm), def.Parser); err != nil || m == nil {
			c.Fail(ev.Sig{"op": "setup"}, nil, nil, "the complete 4 MiB message was refused: %v", err)
			return
		}
		warm = nil
		runtime.GC()
		in := make([]byte, 20+su)
		copy(in, refcodec.EncodeHeader(refcodec.Header{Version: 1, Length: uint32(cl), Flags: 0x80, Code: 257, HopByHop: 1, EndToEnd: 1}))
		if su >= 8 {
			in[20+2], in[20+3] = 0x01, 0x07
			put24(in, 20+5, cl-20)
		}
		offer(c, def, in, fmt.Sprintf("after-large-message/claimed=%d/supplied=%d", cl, su))
	})

	// 3f. diam.MessageBufferLength is an exported variable: an application may change it while
	//     it is running (more room once it has seen larger messages). Well-formed messages of
	//     every size are decoded before and after, whatever buffers earlier traffic left behind.
	g03 := genCtx(t)
	rec.Suite("buffer-length-changed-at-run-time", 12, func(c *ev.Case) {
		oldLen := diam.MessageBufferLength
		defer func() { diam.MessageBufferLength = oldLen }()
		lens := [][2]int{{1024, 8192}, {1024, 4096}, {512, 2048}, {2048, 1 << 16}, {4096, 1024}, {64, 1024}}[c.I%6]
		c.Class("buffer-length %d->%d", lens[0], lens[1])
		for round := 0; round < 200 && !c.Failed(); round++ {
			diam.MessageBufferLength = lens[0]
			bodies := []int{12, 100, 0, lens[0] - 24}
			if round%2 == 1 {
				diam.MessageBufferLength = lens[1]
				lo, hi := lens[0], lens[1]
				if lo > hi {
					lo, hi = hi, lo
				}
				bodies = []int{(lo + 4 + c.R.IntN(hi-lo)) &^ 3, 12, (hi - 24) &^ 3, (lo + 8) &^ 3}
			}
			for k, body := range bodies {
				if body != 0 && body < 12 {
					body = 12
				}
				if body > 12 {
					body &^= 3
				}
				id := uint32(round)<<8 | uint32(k)
				in := seqMsg(id, body)
				var m *diam.Message
				var err error
				if p, bad := guard(func() { m, err = diam.ReadMessage(bytes.NewReader(in), g03.Parser) }); bad || err != nil || m == nil || m.Header.HopByHopID != id || int(m.Header.MessageLength) != len(in) {
					c.Fail(ev.Sig{"op": "panic", "call": "ReadMessage", "how": "buffer-length-changed"}, in, nil, "diam.MessageBufferLength set to %d after messages had been read with %d: ReadMessage of a well-formed %d-byte message: err=%v %s", diam.MessageBufferLength, lens[(round+1)%2], len(in), err, p)
					return
				}
				c.Event("decodes", 1)
			}
		}
	})

	// 4. random byte strings with plausible headers
	// a message decoded while its dictionary did not know some of its AVPs (they are carried as
	// opaque data), then a dictionary is loaded that defines those codes - as groups, numbers,
	// addresses - and the message kept from before is inspected; likewise a decoded message
	// whose header is given the id of an application that defines its codes with other types
	gf, err := refdict.Parse("gen", lib.GenXML)
	if err != nil {
		t.Fatal(err)
	}
	rec.Suite("inspected-after-load", raceDiv(rec, rec.N(300, 20000), 3), func(c *ev.Case) {
		r := c.R
		fresh, err := lib.Load("gen", gf)
		if err != nil {
			c.Fail(ev.Sig{"op": "setup"}, nil, nil, "load: %v", err)
			return
		}
		var nodes []*refcodec.Node
		for k := 1 + r.IntN(6); k > 0; k-- {
			code := uint32(9600 + r.IntN(8))
			n := &refcodec.Node{Code: code, Flags: 0x40, Kind: refcodec.Unknown}
			if code == 9603 {
				n.Flags, n.Vendor = 0xC0, 99999
			}
			switch r.IntN(4) {
			case 0: // a well-formed group body
				n.B = append((&refcodec.Node{Code: 9001, Flags: 0x40, Kind: refcodec.OctetString, B: []byte("member")}).Encode(), (&refcodec.Node{Code: 9009, Flags: 0x40, Kind: refcodec.Unsigned32, U: 7}).Encode()...)
			case 1:
				n.B = make([]byte, []int{0, 1, 4, 6, 8, 18}[r.IntN(6)])
			default:
				n.B = make([]byte, r.IntN(40))
				for i := range n.B {
					n.B[i] = byte(r.Uint32())
				}
			}
			nodes = append(nodes, n)
			if r.IntN(3) == 0 {
				nodes = append(nodes, &refcodec.Node{Code: 9018, Flags: 0x40, Kind: refcodec.Grouped, Kids: []*refcodec.Node{{Code: code, Flags: n.Flags, Vendor: n.Vendor, Kind: refcodec.Unknown, B: n.B}}})
			}
			if r.IntN(3) == 0 {
				nodes = append(nodes, &refcodec.Node{Code: 9009, Flags: 0x40, Kind: refcodec.Unsigned32, U: uint64(r.Uint32())})
			}
		}
		in := refcodec.EncodeMessage(refcodec.Header{Version: 1, Flags: 0x80, Code: 8388000, HopByHop: 1, EndToEnd: 2}, nodes)
		c.Class("inspected-after-load/avps=%d", len(nodes))
		c.Input("ReadMessage", in)
		var m *diam.Message
		if p, bad := guard(func() { m, err = diam.ReadMessage(bytes.NewReader(in), fresh.Parser) }); bad {
			c.Fail(ev.Sig{"op": "panic", "call": "ReadMessage", "site": panicSite(p)}, in, nil, "ReadMessage panicked: %s", p)
			return
		}
		if err != nil || m == nil {
			c.Fail(ev.Sig{"op": "read-ref-wire"}, in, nil, "a well-formed message with undefined AVPs is not readable: %v", err)
			return
		}
		if c.I%4 != 3 {
			if p, bad := guard(func() { err = fresh.Parser.Load(strings.NewReader(c03LaterXML)) }); bad || err != nil {
				c.Fail(ev.Sig{"op": "setup"}, nil, nil, "loading the later dictionary: %v %s", err, p)
				return
			}
		}
		if c.I%4 >= 2 {
			m.Header.ApplicationID = 8388001
		}
		if inspect(c, fresh, m, in, fmt.Sprintf("decoded before the dictionary grew, variant %d", c.I%4)) {
			c.Event("inspected_after_load", 1)
		}
	})
	rec.Suite("random", raceDiv(rec, rec.N(20000, 2000000), 8), func(c *ev.Case) {
		r := c.R
		ctx := ctxs[c.I%len(ctxs)]
		n := r.IntN(200)
		b := make([]byte, n)
		for i := range b {
			b[i] = byte(r.Uint32())
		}
		if n >= 20 && r.IntN(4) != 0 {
			h, _ := ctx.Header(r, ctx.Cmds)
			h.Length = uint32(n)
			if r.IntN(4) == 0 {
				h.Length = uint32(r.IntN(400))
			}
			copy(b, refcodec.EncodeHeader(h))
			// plausible AVP headers
			for off := 20; off+8 <= n; {
				if r.IntN(3) == 0 {
					break
				}
				vis := ctx.Visible(h.App)
				d := vis[r.IntN(len(vis))]
				binary.BigEndian.PutUint32(b[off:], d.Code)
				l := 8 + r.IntN(24)
				if r.IntN(5) == 0 {
					l = r.IntN(1 << 24)
				}
				put24(b, off+5, l)
				off += (l + 3) &^ 3
				if off < 0 {
					break
				}
			}
		}
		offer(c, ctx, b, "random")
	})
}

// TestC03Extremes: the three 16 MiB extremes, each in its own child process.
func TestC03Extremes(t *testing.T) {
	rec := ev.Open(t, "C03")
	defer rec.Close()
	def := defCtx(t)
	g := genCtx(t)
	// GC off: scanning a goroutine stack hundreds of MiB deep on every cycle makes
	// the nest extremes take tens of minutes without changing their outcome
	defer debug.SetGCPercent(debug.SetGCPercent(-1))
	rec.Suite("extremes", 5, func(c *ev.Case) {
		switch c.I {
		case 0: // a header that claims 16 MiB, then nothing
			h := refcodec.EncodeHeader(refcodec.Header{Version: 1, Length: 0xFFFFFF, Flags: 0x80, Code: 257})
			offer(c, def, h, "extreme/claimed-16MiB-then-EOF")
		case 1: // grouped AVPs nested as deep as 16 MiB allow
			offer(c, def, nestBomb(260, (0xFFFFFF-20)/8), "extreme/nest-16MiB")
		case 2: // one OctetString AVP of the maximum size
			n := 1<<24 - 32
			node := &refcodec.Node{Code: 9001, Flags: 0x40, Kind: refcodec.OctetString, B: bytes.Repeat([]byte{0xAB}, n)}
			w := refcodec.EncodeMessage(refcodec.Header{Version: 1, Flags: 0x80, Code: 8388000}, []*refcodec.Node{node})
			offer(c, g, w, "extreme/single-avp-16MiB")
		case 3: // 16 MiB of minimal AVPs (worst case AVP count)
			n := (1<<24 - 24) / 8
			b := make([]byte, 20+8*n)
			copy(b, refcodec.EncodeHeader(refcodec.Header{Version: 1, Length: uint32(len(b)), Flags: 0x80, Code: 8388000}))
			for i := 0; i < n; i++ {
				off := 20 + 8*i
				binary.BigEndian.PutUint32(b[off:], 9001)
				b[off+4] = 0x40
				put24(b, off+5, 8)
			}
			offer(c, g, b, "extreme/2M-minimal-avps")
		case 4: // nest of 1 MiB (131 k levels) inside a group of the generated dictionary
			offer(c, g, nestBombGen(9018, 1<<17), "extreme/nest-1MiB")
		}
	})
}

func nestBombGen(code uint32, d int) []byte {
	b := nestBomb(code, d)
	copy(b, refcodec.EncodeHeader(refcodec.Header{Version: 1, Length: uint32(len(b)), Flags: 0x80, Code: 8388000, HopByHop: 1, EndToEnd: 1}))
	return b
}

// FuzzC03: coverage-guided native fuzzing of the decoders and inspections,
// seeded with valid messages of every dictionary context (thorough tier:
// `go test -fuzz FuzzC03 -fuzztime=<N>x`). A violation is a test failure; the
// engine writes the failing input to testdata/fuzz/FuzzC03/.
func FuzzC03(f *testing.F) {
	ctxs := contexts(f)
	seedRec := ev.Open(&testing.T{}, "C03")
	for i := 0; i < 60; i++ {
		c := seedRec.OneCase("fuzz-seed", i)
		_, w := seedMessage(c, ctxs[i%len(ctxs)])
		f.Add(w, uint8(i%len(ctxs)))
	}
	f.Add(nestBomb(260, 100), uint8(0))
	f.Add(refcodec.EncodeHeader(refcodec.Header{Version: 1, Length: 0xFFFFFF, Flags: 0x80, Code: 257}), uint8(0))
	f.Fuzz(func(t *testing.T, in []byte, k uint8) {
		if len(in) > 1<<16 {
			return
		}
		r := ev.Open(t, "C03")
		c := r.OneCase("fuzz", 0)
		offer(c, ctxs[int(k)%len(ctxs)], in, "fuzz")
		if c.Failed() {
			t.FailNow()
		}
	})
}
