package props

import (
	"bytes"
	"context"
	"crypto/tls"
	"errors"
	"fmt"
	"hash/fnv"
	"io"
	"net"
	"sort"
	"sync"
	"sync/atomic"
	"testing"
	"testing/synctest"
	"time"

	"github.com/fiorix/go-diameter/v4/diam"
	"github.com/fiorix/go-diameter/v4/diam/dict"

	"verifharness/ev"
	"verifharness/lib"
	"verifharness/memnet"
	"verifharness/peer"
	"verifharness/sctpmem"
)

type c19Chunk struct {
	stream uint16
	data   []byte
}

type c19Case struct {
	gaps    map[int]time.Duration // virtual time that passes after chunk i of the merge has been fed
	streams []uint16
	msgs    map[uint16][][]byte // per stream: message images in order
	chunks  map[uint16][][]byte // per stream: the byte sequence cut into chunks
}

// c19Build draws streams, messages and cuts.
func c19Build(c *ev.Case, nStreams, maxMsgs, maxChunks int, sizes []int) *c19Case {
	r := c.R
	cc := &c19Case{msgs: map[uint16][][]byte{}, chunks: map[uint16][][]byte{}}
	used := map[uint16]bool{}
	for len(cc.streams) < nStreams {
		s := uint16(r.IntN(16))
		if r.IntN(20) == 0 {
			s = 65535
		}
		if !used[s] {
			used[s] = true
			cc.streams = append(cc.streams, s)
		}
	}
	for _, s := range cc.streams {
		n := 1 + r.IntN(maxMsgs)
		var all []byte
		var bounds []int
		for i := 1; i <= n; i++ {
			id := uint32(s)<<16 | uint32(i)
			m := seqMsg(id, sizes[r.IntN(len(sizes))])
			cc.msgs[s] = append(cc.msgs[s], m)
			all = append(all, m...)
			bounds = append(bounds, len(all))
		}
		// cuts: inside a header, exactly on a boundary, anywhere (chunks may span messages)
		k := r.IntN(maxChunks)
		cutset := map[int]bool{}
		for i := 0; i < k; i++ {
			var p int
			switch r.IntN(4) {
			case 0:
				b := 0
				if j := r.IntN(len(bounds)); j > 0 {
					b = bounds[j-1]
				}
				p = b + 1 + r.IntN(19) // inside a header
			case 1:
				p = bounds[r.IntN(len(bounds))]
			default:
				p = 1 + r.IntN(len(all))
			}
			if p > 0 && p < len(all) {
				cutset[p] = true
			}
		}
		var cuts []int
		for p := range cutset {
			cuts = append(cuts, p)
		}
		sort.Ints(cuts)
		prev := 0
		for _, p := range cuts {
			cc.chunks[s] = append(cc.chunks[s], all[prev:p])
			prev = p
		}
		cc.chunks[s] = append(cc.chunks[s], all[prev:])
	}
	return cc
}

// merges enumerates every interleaving of the per-stream chunk sequences (per
// stream order preserved) and calls f with each; f returns false to stop.
func (cc *c19Case) merges(f func([]c19Chunk) bool) {
	idx := make([]int, len(cc.streams))
	total := 0
	for _, s := range cc.streams {
		total += len(cc.chunks[s])
	}
	cur := make([]c19Chunk, 0, total)
	var rec func() bool
	rec = func() bool {
		if len(cur) == total {
			return f(cur)
		}
		for i, s := range cc.streams {
			if idx[i] < len(cc.chunks[s]) {
				cur = append(cur, c19Chunk{s, cc.chunks[s][idx[i]]})
				idx[i]++
				ok := rec()
				idx[i]--
				cur = cur[:len(cur)-1]
				if !ok {
					return false
				}
			}
		}
		return true
	}
	rec()
}

func (cc *c19Case) randomMerge(c *ev.Case) []c19Chunk {
	idx := map[uint16]int{}
	var out []c19Chunk
	for {
		var live []uint16
		for _, s := range cc.streams {
			if idx[s] < len(cc.chunks[s]) {
				live = append(live, s)
			}
		}
		if len(live) == 0 {
			return out
		}
		s := live[c.R.IntN(len(live))]
		out = append(out, c19Chunk{s, cc.chunks[s][idx[s]]})
		idx[s]++
	}
}

type c19Logged struct {
	stream uint
	id     uint32
	ok     bool
}

// runC19 feeds one merge to the real connection loop and applies the oracle.
func runC19(c *ev.Case, ctx *lib.Ctx, cc *c19Case, merge []c19Chunk, stepwise bool, withNotify bool, opts int) bool {
	// every third run answers later, from another goroutine, in reverse order
	deferred := (len(merge)+len(cc.streams))%3 == 0
	var pending []*diam.Message
	var pconn diam.Conn
	resumedParts, resumedAt := 0, 0
	var resumedWhole []byte
	sig := func(op string) ev.Sig { return ev.Sig{"op": op, "stepwise": stepwise, "streams": len(cc.streams)} }
	assoc := sctpmem.New()
	msc := diam.VerifNewSCTPConn(assoc)
	defer diam.VerifRelease(msc)
	var mu sync.Mutex
	var logged []c19Logged
	handledBytes := map[uint16]int{}
	sent := map[uint32][]byte{}
	for _, s := range cc.streams {
		for _, m := range cc.msgs[s] {
			sent[peer.Header(m).HopByHop] = m
		}
	}
	h := diam.HandlerFunc(func(dc diam.Conn, m *diam.Message) {
		b, err := m.Serialize()
		id := m.Header.HopByHopID
		mu.Lock()
		logged = append(logged, c19Logged{m.MessageStream(), id, err == nil && bytes.Equal(b, sent[id])})
		handledBytes[uint16(m.MessageStream())] += len(sent[id])
		if deferred {
			pending = append(pending, m)
			pconn = dc
		}
		mu.Unlock()
		if !deferred {
			m.Answer(2001).WriteTo(dc)
		}
	})
	// opts&1: the association is accepted by a Server that has a write timeout configured;
	// opts&2: a writer stream has been pinned with SetWriterStream (it concerns plain Write
	// calls only: answers still belong on the stream of their request)
	var conn diam.Conn
	if opts&1 != 0 {
		srv := &diam.Server{Handler: h, Dict: ctx.Parser, WriteTimeout: time.Hour}
		ln := memnet.NewListener()
		go srv.Serve(ln)
		defer ln.Close()
		ln.Offer(msc)
		withNotify = false
		conn = c19Closer{msc}
	} else {
		var err error
		conn, err = diam.NewConn(msc, "peer", h, ctx.Parser)
		if err != nil {
			c.Fail(sig("setup"), nil, nil, "NewConn: %v", err)
			return false
		}
	}
	if opts&2 != 0 {
		msc.SetWriterStream(uint(7 + len(merge)%3))
	}
	var notify <-chan struct{}
	describe := func() string {
		s := ""
		for _, ch := range merge {
			s += fmt.Sprintf("s%d:%d ", ch.stream, len(ch.data))
		}
		ms := ""
		for _, st := range cc.streams {
			ms += fmt.Sprintf("stream %d: %v; ", st, sizes(cc.msgs[st]))
		}
		return fmt.Sprintf("messages {%s} chunk order [%s] stepwise=%v", ms, s, stepwise)
	}
	invariants := func(final bool) bool {
		buffered, herr := msc.VerifCheckStreams()
		if herr != nil {
			c.Fail(sig("heap-invariant"), nil, nil, "stream-buffer invariant broken: %v; %s", herr, describe())
			return false
		}
		del := assoc.Delivered()
		mu.Lock()
		defer mu.Unlock()
		positive := 0
		for _, s := range cc.streams {
			d := del[s] - handledBytes[s] - buffered[uint(s)]
			if d < 0 {
				c.Fail(sig("conservation"), nil, nil, "stream %d: %d bytes delivered, %d in handled messages, %d buffered: more bytes than were delivered; %s", s, del[s], handledBytes[s], buffered[uint(s)], describe())
				return false
			}
			if d > 0 {
				positive++
			}
			if final && (d != 0 || buffered[uint(s)] != 0) {
				c.Fail(sig("conservation"), nil, nil, "stream %d at the end: %d bytes delivered, %d in handled messages, %d still buffered; %s", s, del[s], handledBytes[s], buffered[uint(s)], describe())
				return false
			}
		}
		if positive > 1 {
			c.Fail(sig("conservation"), nil, nil, "bytes of %d streams are held by the reader at the same time (a message is being assembled from more than one stream); %s", positive, describe())
			return false
		}
		return true
	}
	for i, ch := range merge {
		if i > 0 && cc.gaps[i-1] > 0 {
			synctest.Wait()
			time.Sleep(cc.gaps[i-1])
		}
		assoc.Feed(ch.stream, ch.data)
		if withNotify && i == len(merge)/2 {
			notify = conn.(diam.CloseNotifier).CloseNotify()
		}
		if stepwise {
			synctest.Wait()
			if !invariants(false) {
				return false
			}
			c.Event("quiescent_points", 1)
		}
	}
	synctest.Wait()
	if deferred {
		mu.Lock()
		pm := pending
		mu.Unlock()
		// the first late answer meets a transport that accepts 10 bytes and reports a
		// temporary error; it is resumed (WriteToWithRetry) and every part of it must
		// go to the stream of its request
		if len(pm) > 0 {
			nBefore := len(assoc.Writes())
			var failedOnce atomic.Bool
			assoc.WriteScript = func(seq int, b []byte) (int, error) {
				if failedOnce.CompareAndSwap(false, true) && len(b) > 10 {
					return 10, &memnet.TempError{Msg: "EAGAIN"}
				}
				return len(b), nil
			}
			first := pm[0]
			pm = pm[1:]
			if _, err := first.Answer(2001).WriteToWithRetry(pconn, 2); err != nil {
				c.Fail(sig("reply-retry"), nil, nil, "WriteToWithRetry of a late answer: %v", err)
				return false
			}
			assoc.WriteScript = nil
			parts := assoc.Writes()[nBefore:]
			var whole []byte
			for _, w := range parts {
				if uint32(w.Stream) != first.Header.HopByHopID>>16 {
					c.Fail(sig("reply-stream"), nil, nil, "a part of the resumed answer to message %#x (received on stream %d) was written to stream %d; %s", first.Header.HopByHopID, first.Header.HopByHopID>>16, w.Stream, describe())
					return false
				}
				whole = append(whole, w.Data...)
			}
			resumedParts, resumedWhole, resumedAt = len(parts), whole, nBefore
		}
		// answers written later, in reverse order, by several goroutines at once
		const G = 4
		var wg sync.WaitGroup
		for g := 0; g < G; g++ {
			wg.Add(1)
			go func(g int) {
				defer wg.Done()
				for i := len(pm) - 1 - g; i >= 0; i -= G {
					pm[i].Answer(2001).WriteTo(pconn)
				}
			}(g)
		}
		wg.Wait()
		c.Event("deferred_answer_runs", 1)
	}
	ok := invariants(true)
	if ok {
		// per stream: same ids, same order, none missing, none twice; stream tag; integrity
		mu.Lock()
		per := map[uint16][]uint32{}
		for _, l := range logged {
			if !l.ok {
				c.Fail(sig("integrity"), nil, nil, "message %#x was delivered with bytes that are not the ones sent on its stream; %s", l.id, describe())
				ok = false
				break
			}
			if uint32(l.stream) != l.id>>16 {
				c.Fail(sig("stream-tag"), nil, nil, "message %#x sent on stream %d reports stream %d; %s", l.id, l.id>>16, l.stream, describe())
				ok = false
				break
			}
			per[uint16(l.stream)] = append(per[uint16(l.stream)], l.id&0xffff)
		}
		mu.Unlock()
		for _, s := range cc.streams {
			if !ok {
				break
			}
			var want []uint32
			for i := range cc.msgs[s] {
				want = append(want, uint32(i+1))
			}
			if fmt.Sprint(per[s]) != fmt.Sprint(want) {
				c.Fail(sig("per-stream-order"), nil, nil, "stream %d delivered messages %v, sent %v; %s", s, per[s], want, describe())
				ok = false
			}
		}
	}
	if ok {
		// replies: one SCTPWrite per request, on the request's stream
		ws := assoc.Writes()
		if resumedParts > 0 {
			merged := append([]sctpmem.WriteRec{}, ws[:resumedAt]...)
			merged = append(merged, sctpmem.WriteRec{Stream: ws[resumedAt].Stream, PPID: ws[resumedAt].PPID, Data: resumedWhole})
			ws = append(merged, ws[resumedAt+resumedParts:]...)
		}
		seen := map[uint32]int{}
		for _, w := range ws {
			msgs, rest := peer.SplitMessages(w.Data)
			if len(msgs) != 1 || len(rest) != 0 {
				c.Fail(sig("reply-framing"), w.Data, nil, "a reply write of %d bytes is not exactly one message; %s", len(w.Data), describe())
				ok = false
				break
			}
			hh := peer.Header(msgs[0])
			seen[hh.HopByHop]++
			if uint32(w.Stream) != hh.HopByHop>>16 {
				c.Fail(sig("reply-stream"), nil, nil, "the answer to message %#x (received on stream %d) was written to stream %d; %s", hh.HopByHop, hh.HopByHop>>16, w.Stream, describe())
				ok = false
				break
			}
			if w.PPID != 46<<24 {
				c.Fail(sig("reply-ppid"), nil, nil, "reply written with payload protocol id %#x", w.PPID)
				ok = false
				break
			}
		}
		for id := range sent {
			if ok && seen[id] != 1 {
				c.Fail(sig("reply-count"), nil, nil, "request %#x got %d replies; %s", id, seen[id], describe())
				ok = false
			}
		}
		c.Event("replies_checked", len(ws))
	}
	// end of the association
	assoc.FeedEOF()
	synctest.Wait()
	if ok && notify != nil {
		select {
		case <-notify:
		default:
			c.Fail(sig("closenotify-sctp"), nil, nil, "CloseNotify channel of a multi-stream connection not closed at quiescence after EOF; %s", describe())
			ok = false
		}
	}
	if ok && assoc.CloseCount() == 0 {
		c.Fail(sig("not-closed"), nil, nil, "association not closed after EOF")
		ok = false
	}
	if ok {
		c.Event("merges", 1)
		c.Event("messages_delivered", len(sent))
		// fingerprint of the observed delivery order across streams
		fp := fnv.New64a()
		mu.Lock()
		for _, l := range logged {
			fp.Write([]byte{byte(l.stream), byte(l.id)})
		}
		mu.Unlock()
		c.Class("delivery-order/%03x", fp.Sum64()%4096)
	}
	conn.Close()
	synctest.Wait()
	return ok
}

// c19Closer stands in for the diam.Conn of a server-side connection (only Close is used).
type c19Closer struct{ *diam.SCTPConn }

func (c c19Closer) Close()                                       { c.SCTPConn.Close() }
func (c19Closer) Write(b []byte) (int, error)                    { return 0, nil }
func (c19Closer) WriteStream(b []byte, stream uint) (int, error) { return 0, nil }
func (c19Closer) TLS() *tls.ConnectionState                      { return nil }
func (c19Closer) Dictionary() *dict.Parser                       { return nil }
func (c19Closer) Context() context.Context                       { return nil }
func (c19Closer) SetContext(ctx context.Context)                 {}
func (c19Closer) Connection() net.Conn                           { return nil }

func TestC19(t *testing.T) {
	rec := ev.Open(t, "C19")
	defer rec.Close()
	ctx := genCtx(t)
	_, restore := captureLog()
	defer restore()
	small := []int{0, 12, 16, 100}
	big := []int{0, 12, 100, 1000, 1024, 1028, 5000}
	// small cases: every merge
	rec.Suite("small-all-merges", rec.N(60, 10000), func(c *ev.Case) {
		ns := 1 + c.R.IntN(3)
		cc := c19Build(c, ns, 2, 3, small)
		total := 0
		for _, s := range cc.streams {
			total += len(cc.chunks[s])
		}
		if total > 8 {
			return
		}
		c.Class("small/streams=%d/chunks=%d", ns, total)
		n := 0
		cc.merges(func(m []c19Chunk) bool {
			mm := append([]c19Chunk(nil), m...)
			for _, stepwise := range []bool{true, false} {
				good := true
				leak := runBubbleWD(t, rec, c, 60*time.Second, func() { good = runC19(c, ctx, cc, mm, stepwise, n%3 == 0, (n/3)%4) })
				if leak != "" && !c.Failed() {
					c.Fail(ev.Sig{"op": "bubble-leak"}, nil, nil, "goroutines left blocked: %s", leak)
				}
				if !good || c.Failed() {
					return false
				}
			}
			n++
			return true
		})
		c.Event("exhaustive_small_cases", 1)
		if c.WantSample() && ns > 1 {
			var s []string
			for _, st := range cc.streams {
				s = append(s, fmt.Sprintf("stream %d: messages %v in %d chunks", st, sizes(cc.msgs[st]), len(cc.chunks[st])))
			}
			c.Sample(map[string]any{"case": s, "merges_executed": n})
		}
	})
	// a stream that is not being read gets far ahead: the reader is in the middle of a message
	// of stream a (its chunk ended inside the header or the body) when more than 1 MiB arrives
	// on stream b (pipelined requests, or one message above 1 MiB: Diameter allows 16 MiB),
	// and only then the rest of a's message
	rec.Suite("backlog", rec.N(12, 600), func(c *ev.Case) {
		r := c.R
		a, b := uint16(r.IntN(8)), uint16(8+r.IntN(8))
		cc := &c19Case{streams: []uint16{a, b}, msgs: map[uint16][][]byte{}, chunks: map[uint16][][]byte{}}
		var allA []byte
		for i := 1; i <= 1+r.IntN(2); i++ {
			m := seqMsg(uint32(a)<<16|uint32(i), big[r.IntN(len(big))])
			cc.msgs[a] = append(cc.msgs[a], m)
			allA = append(allA, m...)
		}
		cut := 1 + r.IntN(19)
		if r.IntN(2) == 0 && len(cc.msgs[a][0]) > 21 {
			cut = 20 + r.IntN(len(cc.msgs[a][0])-20)
		}
		cc.chunks[a] = [][]byte{allA[:cut], allA[cut:]}
		var allB []byte
		one := c.I%2 == 0
		if one {
			m := seqMsg(uint32(b)<<16|1, []int{1<<20 - 100, 1<<20 + 4, 1200000, 2500000, 5 << 20}[r.IntN(5)])
			cc.msgs[b] = append(cc.msgs[b], m)
			allB = m
		} else {
			for i := 1; len(allB) < 1100000+r.IntN(1500000); i++ {
				m := seqMsg(uint32(b)<<16|uint32(i), []int{65000, 30000, 4096, 100000}[r.IntN(4)])
				cc.msgs[b] = append(cc.msgs[b], m)
				allB = append(allB, m...)
			}
		}
		csz := []int{4096, 65536, 200000, len(allB)}[r.IntN(4)]
		for off := 0; off < len(allB); off += csz {
			cc.chunks[b] = append(cc.chunks[b], allB[off:min(off+csz, len(allB))])
		}
		merge := []c19Chunk{{a, cc.chunks[a][0]}}
		for _, ch := range cc.chunks[b] {
			merge = append(merge, c19Chunk{b, ch})
		}
		merge = append(merge, c19Chunk{a, cc.chunks[a][1]})
		c.Class("backlog/one-big-message=%v/bytes-ahead=%dMiB/chunk=%d", one, len(allB)>>20, min(csz, 1<<20))
		stepwise := (c.I/2)%2 == 0 && len(merge) < 200
		good := true
		leak := runBubbleWD(t, rec, c, 120*time.Second, func() { good = runC19(c, ctx, cc, merge, stepwise, (c.I/4)%2 == 0, (c.I/8)%4) })
		if leak != "" && !c.Failed() {
			c.Fail(ev.Sig{"op": "bubble-leak"}, nil, nil, "goroutines left blocked: %s", leak)
		}
		if good {
			c.Event("backlog_cases", 1)
		}
	})
	// three streams, messages whose sizes are powers of two, one message per chunk: the backlog
	// of stream b is partly delivered (the reader then waits for an incomplete message of stream
	// c), and grows again past 64 KiB, 128 KiB ... in steps that land exactly on those sizes
	rec.Suite("backlog-refilled-in-powers-of-two", rec.N(24, 2000), func(c *ev.Case) {
		r := c.R
		a, b, cs := uint16(r.IntN(4)), uint16(4+r.IntN(4)), uint16(8+r.IntN(8))
		cc := &c19Case{streams: []uint16{a, b, cs}, msgs: map[uint16][][]byte{}, chunks: map[uint16][][]byte{}}
		unit := []int{1024, 1024, 512, 2048, 256}[r.IntN(5)]
		ma := seqMsg(uint32(a)<<16|1, 100)
		cc.msgs[a] = [][]byte{ma}
		cutA := 1 + r.IntN(len(ma)-1)
		cc.chunks[a] = [][]byte{ma[:cutA], ma[cutA:]}
		// stream c: one message, of which a first part arrives early
		partC := 2000 + r.IntN(28000)
		mc := seqMsg(uint32(cs)<<16|1, (partC+1000+r.IntN(5000))&^3)
		cc.msgs[cs] = [][]byte{mc}
		cc.chunks[cs] = [][]byte{mc[:partC], mc[partC:]}
		// stream b: n1 messages before the rest of a, n2 + n3 afterwards
		n1 := (40000 + r.IntN(24000)) / unit
		target := []int{66 << 10, 70 << 10, 130 << 10, 140 << 10, 260 << 10}[r.IntN(5)]
		n2 := target / unit
		n3 := 1 + r.IntN(8)
		for i := 1; i <= n1+n2+n3; i++ {
			m := seqMsg(uint32(b)<<16|uint32(i), unit-20)
			cc.msgs[b] = append(cc.msgs[b], m)
			cc.chunks[b] = append(cc.chunks[b], m)
		}
		merge := []c19Chunk{{a, cc.chunks[a][0]}}
		for i := 0; i < n1; i++ {
			merge = append(merge, c19Chunk{b, cc.chunks[b][i]})
		}
		merge = append(merge, c19Chunk{cs, cc.chunks[cs][0]}, c19Chunk{a, cc.chunks[a][1]})
		for i := n1; i < n1+n2+n3; i++ {
			merge = append(merge, c19Chunk{b, cc.chunks[b][i]})
		}
		merge = append(merge, c19Chunk{cs, cc.chunks[cs][1]})
		c.Class("backlog-refilled/unit=%d/target=%dKiB", unit, target>>10)
		good := true
		leak := runBubbleWD(t, rec, c, 120*time.Second, func() { good = runC19(c, ctx, cc, merge, true, (c.I/4)%2 == 0, (c.I/8)%4) })
		if leak != "" && !c.Failed() {
			c.Fail(ev.Sig{"op": "bubble-leak"}, nil, nil, "goroutines left blocked: %s", leak)
		}
		if good {
			c.Event("backlog_cases", 1)
		}
	})
	// long pauses in the middle: data of stream b is set aside while a message of stream a is
	// incomplete, half a minute passes, more data of stream b arrives, then the rest of a - after
	// an earlier phase in which b's buffer had grown large and was drained again
	rec.Suite("backlog-across-a-long-pause", rec.N(24, 2000), func(c *ev.Case) {
		r := c.R
		a, b := uint16(r.IntN(8)), uint16(8+r.IntN(8))
		cc := &c19Case{streams: []uint16{a, b}, msgs: map[uint16][][]byte{}, chunks: map[uint16][][]byte{}, gaps: map[int]time.Duration{}}
		mk := func(st uint16, i int, body int) []byte {
			m := seqMsg(uint32(st)<<16|uint32(i), body)
			cc.msgs[st] = append(cc.msgs[st], m)
			return m
		}
		var merge []c19Chunk
		add := func(st uint16, data []byte) {
			merge = append(merge, c19Chunk{st, data})
			cc.chunks[st] = append(cc.chunks[st], data)
		}
		// phase 1: b gets far ahead of a, everything is delivered
		a1 := mk(a, 1, 100)
		add(a, a1[:30])
		for i := 1; i <= 3; i++ {
			add(b, mk(b, i, []int{5000, 1000, 12}[i-1]))
		}
		add(a, a1[30:])
		// phase 2: a again in the middle of a message, b set aside before and after a long pause
		a2 := mk(a, 2, 1000)
		cut := 1 + r.IntN(len(a2)-1)
		add(a, a2[:cut])
		add(b, mk(b, 4, 12+4*r.IntN(50)))
		cc.gaps[len(merge)-1] = time.Duration(21+r.IntN(100)) * time.Second
		add(b, mk(b, 5, 12+4*r.IntN(50)))
		if r.IntN(2) == 0 {
			cc.gaps[len(merge)-1] = 25 * time.Second
		}
		add(a, a2[cut:])
		add(b, mk(b, 6, 12))
		c.Class("backlog-across-a-long-pause/pauses=%d", len(cc.gaps))
		good := true
		leak := runBubbleWD(t, rec, c, 60*time.Second, func() { good = runC19(c, ctx, cc, merge, c.I%2 == 0, false, 0) })
		if leak != "" && !c.Failed() {
			c.Fail(ev.Sig{"op": "bubble-leak"}, nil, nil, "goroutines left blocked: %s", leak)
		}
		if good {
			c.Event("backlog_cases", 1)
		}
	})
	// a read of the association fails once with a temporary error between two messages (an
	// interrupted system call) while the traffic goes on on other streams: the connection either
	// treats it as the termination it is for the reader (and closes) or delivers everything
	rec.Suite("interrupted-read-between-messages", rec.N(12, 600), func(c *ev.Case) {
		c.Class("interrupted-read-between-messages")
		leak := runBubbleWD(t, rec, c, 60*time.Second, func() {
			assoc := sctpmem.New()
			msc := diam.VerifNewSCTPConn(assoc)
			defer diam.VerifRelease(msc)
			var mu sync.Mutex
			var seen []uint32
			conn, err := diam.NewConn(msc, "peer", diam.HandlerFunc(func(dc diam.Conn, m *diam.Message) {
				mu.Lock()
				seen = append(seen, m.Header.HopByHopID)
				mu.Unlock()
			}), ctx.Parser)
			if err != nil {
				c.Fail(ev.Sig{"op": "setup"}, nil, nil, "NewConn: %v", err)
				return
			}
			s1, s2, s3 := uint16(1+c.R.IntN(5)), uint16(6+c.R.IntN(5)), uint16(11+c.R.IntN(5))
			assoc.Feed(s1, seqMsg(uint32(s1)<<16|1, 12))
			synctest.Wait()
			assoc.FeedOnceErr(&memnet.TempError{Msg: "interrupted system call"})
			assoc.Feed(s2, seqMsg(uint32(s2)<<16|1, 100))
			assoc.Feed(s3, seqMsg(uint32(s3)<<16|1, 12))
			assoc.Feed(s2, seqMsg(uint32(s2)<<16|2, 12))
			synctest.Wait()
			mu.Lock()
			n := len(seen)
			mu.Unlock()
			if assoc.CloseCount() == 0 && n != 4 {
				c.Fail(ev.Sig{"op": "per-stream-order", "how": "interrupted-read"}, nil, nil, "a read of the association failed once with a temporary error between two messages; the association was kept open, but only %d of the 4 messages (streams %d, %d, %d) were delivered", n, s1, s2, s3)
			}
			assoc.FeedEOF()
			conn.Close()
			synctest.Wait()
			c.Event("merges", 1)
		})
		if leak != "" && !c.Failed() {
			c.Fail(ev.Sig{"op": "bubble-leak"}, nil, nil, "goroutines left blocked: %s", leak)
		}
	})
	// the end of the association is reported together with its last bytes (a read may return
	// n > 0 and io.EOF, or another error, from one call): what was received before the end was
	// received - the last message, if complete, is delivered and answered like the others
	rec.Suite("last-bytes-with-the-end-of-the-association", rec.N(48, 2000), func(c *ev.Case) {
		lastBody := []int{0, 0, 12, 100}[c.I%4] // header-only messages too
		withEOF := (c.I/4)%2 == 0
		split := (c.I / 8) % 3 // 0 the last message alone in its chunk, 1 glued to the end of the one before, 2 its last bytes alone
		c.Class("last-bytes-with-end/body=%d/eof=%v/split=%d", lastBody, withEOF, split)
		leak := runBubbleWD(t, rec, c, 60*time.Second, func() {
			assoc := sctpmem.New()
			msc := diam.VerifNewSCTPConn(assoc)
			defer diam.VerifRelease(msc)
			var mu sync.Mutex
			var seen []uint32
			conn, err := diam.NewConn(msc, "peer", diam.HandlerFunc(func(dc diam.Conn, m *diam.Message) {
				mu.Lock()
				seen = append(seen, m.Header.HopByHopID)
				mu.Unlock()
				m.Answer(2001).WriteTo(dc)
			}), ctx.Parser)
			if err != nil {
				c.Fail(ev.Sig{"op": "setup"}, nil, nil, "NewConn: %v", err)
				return
			}
			s1, s2 := uint16(1+c.R.IntN(5)), uint16(6+c.R.IntN(5))
			a := seqMsg(uint32(s1)<<16|1, 100)
			b := seqMsg(uint32(s2)<<16|1, 12)
			last := seqMsg(uint32(s1)<<16|2, lastBody)
			cut := 20 + c.R.IntN(len(a)-20)
			assoc.Feed(s1, a[:cut])
			assoc.Feed(s2, b)
			var end error = io.EOF
			if !withEOF {
				end = errors.New("connection reset by peer")
			}
			switch split {
			case 0:
				assoc.Feed(s1, a[cut:])
				assoc.FeedWithErr(s1, last, end)
			case 1:
				assoc.FeedWithErr(s1, append(append([]byte{}, a[cut:]...), last...), end)
			case 2:
				k := 1 + c.R.IntN(len(last)-1)
				assoc.Feed(s1, append(append([]byte{}, a[cut:]...), last[:k]...))
				assoc.FeedWithErr(s1, last[k:], end)
			}
			synctest.Wait()
			mu.Lock()
			got := append([]uint32(nil), seen...)
			mu.Unlock()
			want := []uint32{uint32(s1)<<16 | 1, uint32(s2)<<16 | 1, uint32(s1)<<16 | 2}
			// per stream: s1's two messages in order; s2's one
			var g1, g2 []uint32
			for _, id := range got {
				if uint16(id>>16) == s1 {
					g1 = append(g1, id)
				} else {
					g2 = append(g2, id)
				}
			}
			if len(g1) != 2 || g1[0] != want[0] || g1[1] != want[2] || len(g2) != 1 || g2[0] != want[1] {
				c.Fail(ev.Sig{"op": "per-stream-order", "how": "last-bytes-with-end"}, last, nil, "the association's last read handed over the final bytes of a complete message (%d-byte body, stream %d) together with %q: delivered %x, expected the messages %x (all of them were completely received)", lastBody, s1, end.Error(), got, want)
			} else {
				// each request answered on its stream
				ans := map[uint16]int{}
				for _, w := range assoc.Writes() {
					ans[w.Stream]++
				}
				if ans[s1] != 2 || ans[s2] != 1 {
					c.Fail(ev.Sig{"op": "reply-stream", "how": "last-bytes-with-end"}, nil, nil, "answers written per stream %v, expected 2 on stream %d and 1 on stream %d", ans, s1, s2)
				}
			}
			conn.Close()
			synctest.Wait()
			c.Event("merges", 1)
		})
		if leak != "" && !c.Failed() {
			c.Fail(ev.Sig{"op": "bubble-leak"}, nil, nil, "goroutines left blocked: %s", leak)
		}
	})
	// the association ends in the middle of a message of one stream while a complete message of
	// another stream has already been received (and set aside by the reader, which is busy
	// completing the first): it was received before the end, it is not lost
	rec.Suite("ends-inside-a-message-of-another-stream", 6, func(c *ev.Case) {
		withEOF := c.I%2 == 0
		bodyB := []int{0, 12, 100}[c.I/2]
		c.Class("ends-inside-a-message-of-another-stream/eof=%v/body=%d", withEOF, bodyB)
		leak := runBubbleWD(t, rec, c, 60*time.Second, func() {
			assoc := sctpmem.New()
			msc := diam.VerifNewSCTPConn(assoc)
			defer diam.VerifRelease(msc)
			var mu sync.Mutex
			var seen []uint32
			conn, err := diam.NewConn(msc, "peer", diam.HandlerFunc(func(dc diam.Conn, m *diam.Message) {
				mu.Lock()
				seen = append(seen, m.Header.HopByHopID)
				mu.Unlock()
			}), ctx.Parser)
			if err != nil {
				c.Fail(ev.Sig{"op": "setup"}, nil, nil, "NewConn: %v", err)
				return
			}
			a := seqMsg(0x10001, 100)
			b := seqMsg(0x20001, bodyB)
			assoc.Feed(1, a[:40]) // the header of A and the beginning of its body
			assoc.Feed(2, b)      // all of B
			synctest.Wait()
			if withEOF {
				assoc.FeedEOF()
			} else {
				assoc.FeedErr(errors.New("connection reset by peer"))
			}
			synctest.Wait()
			mu.Lock()
			got := append([]uint32(nil), seen...)
			mu.Unlock()
			if len(got) != 1 || got[0] != 0x20001 {
				c.Fail(ev.Sig{"op": "per-stream-order", "how": "ends-inside-a-message-of-another-stream"}, b, nil, "stream 1 carried 40 of the 120 bytes of a message, stream 2 a complete %d-byte message, then the association ended (EOF=%v): delivered %x, expected the complete message 20001 of stream 2", len(b), withEOF, got)
			}
			conn.Close()
			synctest.Wait()
			c.Event("merges", 1)
		})
		if leak != "" && !c.Failed() {
			c.Fail(ev.Sig{"op": "bubble-leak"}, nil, nil, "goroutines left blocked: %s", leak)
		}
	})
	// replies the library builds itself: a state machine's CEA and DWA (and an application answer)
	// for requests that arrive on different streams of one association
	dctx := defCtx(t)
	sts := []uint16{0, 1, 3, 7, 15, 65535}
	rec.Suite("state-machine-replies", len(sts)*len(sts)*2, func(c *ev.Case) {
		a, b := sts[c.I%len(sts)], sts[(c.I/len(sts))%len(sts)]
		d := sts[(c.I*5+1)%len(sts)]
		deferred := c.I/(len(sts)*len(sts)) == 1
		c.Class("state-machine-replies/cer=%d/dwr=%d/deferred=%v", a, b, deferred)
		leak := runBubbleWD(t, rec, c, 60*time.Second, func() { runC16Stream(c, dctx, a, b, d, c.I%5 == 0, false, deferred, false, false) })
		if leak != "" && !c.Failed() {
			c.Fail(ev.Sig{"op": "bubble-leak"}, nil, nil, "goroutines left blocked: %s", leak)
		}
		c.Event("replies_checked", 3)
	})
	// large cases: random merges
	rec.Suite("large-random-merges", rec.N(600, 200000), func(c *ev.Case) {
		ns := []int{1, 2, 3, 16}[c.R.IntN(4)]
		cc := c19Build(c, ns, 6, 6, big)
		c.Class("large/streams=%d", ns)
		for rep := 0; rep < 2; rep++ {
			m := cc.randomMerge(c)
			stepwise := rep == 0
			good := true
			leak := runBubbleWD(t, rec, c, 60*time.Second, func() { good = runC19(c, ctx, cc, m, stepwise, c.I%2 == 0, (c.I/2)%4) })
			if leak != "" && !c.Failed() {
				c.Fail(ev.Sig{"op": "bubble-leak"}, nil, nil, "goroutines left blocked: %s", leak)
			}
			if !good {
				return
			}
		}
	})
}
