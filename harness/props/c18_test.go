package props

import (
	"bytes"
	"fmt"
	"math"
	"math/rand/v2"
	"net"
	"reflect"
	"regexp"
	"sort"
	"strings"
	"sync"
	"testing"
	"time"

	"github.com/fiorix/go-diameter/v4/diam"
	"github.com/fiorix/go-diameter/v4/diam/datatype"

	"verifharness/ev"
	"verifharness/gen"
	"verifharness/lib"
	"verifharness/refcodec"
	"verifharness/refdict"
)

// ---- the struct family --------------------------------------------------------
// Every type has fill (draw a value) and expect (the AVP list a caller would build
// by hand from the dictionary). Within one struct each AVP name is used once.

type shape interface {
	fill(r *rand.Rand)
	expect() []*refcodec.Node
}

const fM = 0x40
const fV = 0x80

func nStr(code uint32, fl uint8, k refcodec.Kind, b []byte) *refcodec.Node {
	return &refcodec.Node{Code: code, Flags: fl, Kind: k, B: append([]byte{}, b...)}
}
func nU(code uint32, fl uint8, k refcodec.Kind, u uint64) *refcodec.Node {
	return &refcodec.Node{Code: code, Flags: fl, Kind: k, U: u}
}
func nI(code uint32, fl uint8, k refcodec.Kind, i int64) *refcodec.Node {
	return &refcodec.Node{Code: code, Flags: fl, Kind: k, I: i}
}
func nG(code uint32, fl uint8, kids ...*refcodec.Node) *refcodec.Node {
	return &refcodec.Node{Code: code, Flags: fl, Kind: refcodec.Grouped, Kids: kids}
}
func nIP(code uint32, fl uint8, ip []byte) *refcodec.Node {
	fam := uint16(1)
	if len(ip) == 16 {
		fam = 2
	}
	return &refcodec.Node{Code: code, Flags: fl, Kind: refcodec.Address, Fam: fam, B: append([]byte{}, ip...)}
}
func vend(n *refcodec.Node, v uint32) *refcodec.Node { n.Vendor = v; n.Flags |= fV; return n }

func rIP(r *rand.Rand) net.IP {
	for {
		n := &refcodec.Node{}
		gen.Addr(r, n, false)
		if n.Fam == 1 || n.Fam == 2 {
			return net.IP(n.B)
		}
	}
}
func rTime(r *rand.Rand) time.Time {
	n := &refcodec.Node{}
	gen.Value(r, n, refcodec.Time, nil, 0, nil)
	return time.Unix(n.I, 0)
}
func rStr(r *rand.Rand, zeroOK bool) string {
	n := &refcodec.Node{}
	gen.Value(r, n, refcodec.UTF8String, &gen.Opts{}, 0, nil)
	if !zeroOK && len(n.B) == 0 {
		return "x"
	}
	return string(n.B)
}
func rF32(r *rand.Rand) float32 {
	n := &refcodec.Node{}
	gen.Value(r, n, refcodec.Float32, nil, 0, nil)
	return math.Float32frombits(uint32(n.U))
}
func rF64(r *rand.Rand) float64 {
	n := &refcodec.Node{}
	gen.Value(r, n, refcodec.Float64, nil, 0, nil)
	return math.Float64frombits(n.U)
}
func rI(r *rand.Rand, k refcodec.Kind) int64 {
	n := &refcodec.Node{}
	gen.Value(r, n, k, nil, 0, nil)
	if k == refcodec.Unsigned32 || k == refcodec.Unsigned64 {
		return int64(n.U)
	}
	return n.I
}

// S1: native Go scalars
type S1 struct {
	Str string    `avp:"G-UTF8"`
	Oct []byte    `avp:"G-Octets"`
	I32 int32     `avp:"G-I32"`
	I64 int64     `avp:"G-I64"`
	U32 uint32    `avp:"G-U32"`
	U64 uint64    `avp:"G-U64"`
	F32 float32   `avp:"G-F32"`
	F64 float64   `avp:"G-F64"`
	En  int       `avp:"G-Enum"`
	T   time.Time `avp:"G-Time"`
	IP  net.IP    `avp:"G-Addr"`
	ID  string    `avp:"G-Ident"`
}

func (s *S1) fill(r *rand.Rand) {
	if r.IntN(8) == 0 {
		*s = S1{T: time.Unix(0, 0), IP: rIP(r)} // zero values
		return
	}
	s.Str, s.Oct = rStr(r, true), []byte(rStr(r, true))
	s.I32, s.I64 = int32(rI(r, refcodec.Integer32)), rI(r, refcodec.Integer64)
	s.U32, s.U64 = uint32(rI(r, refcodec.Unsigned32)), uint64(rI(r, refcodec.Unsigned64))
	s.F32, s.F64 = rF32(r), rF64(r)
	s.En = int(int32(rI(r, refcodec.Enumerated)))
	s.T, s.IP, s.ID = rTime(r), rIP(r), rStr(r, true)
}
func (s *S1) expect() []*refcodec.Node {
	return []*refcodec.Node{
		nStr(9002, fM, refcodec.UTF8String, []byte(s.Str)), nStr(9001, fM, refcodec.OctetString, s.Oct),
		nI(9007, fM, refcodec.Integer32, int64(s.I32)), nI(9008, fM, refcodec.Integer64, s.I64),
		nU(9009, fM, refcodec.Unsigned32, uint64(s.U32)), nU(9010, fM, refcodec.Unsigned64, s.U64),
		nU(9011, 0, refcodec.Float32, uint64(math.Float32bits(s.F32))), nU(9012, 0, refcodec.Float64, math.Float64bits(s.F64)),
		nI(9013, fM, refcodec.Enumerated, int64(s.En)), nI(9014, fM, refcodec.Time, s.T.Unix()), nIP(9015, fM, s.IP),
		nStr(9003, fM, refcodec.DiameterIdentity, []byte(s.ID)),
	}
}

// S2: every datatype type
type S2 struct {
	Oct  datatype.OctetString      `avp:"G-Octets"`
	U8   datatype.UTF8String       `avp:"G-UTF8"`
	Id   datatype.DiameterIdentity `avp:"G-Ident"`
	URI  datatype.DiameterURI      `avp:"G-URI"`
	IPF  datatype.IPFilterRule     `avp:"G-IPFilter"`
	QoS  datatype.QoSFilterRule    `avp:"G-QoSFilter"`
	I32  datatype.Integer32        `avp:"G-I32"`
	I64  datatype.Integer64        `avp:"G-I64"`
	U32  datatype.Unsigned32       `avp:"G-U32"`
	U64  datatype.Unsigned64       `avp:"G-U64"`
	F32  datatype.Float32          `avp:"G-F32"`
	F64  datatype.Float64          `avp:"G-F64"`
	En   datatype.Enumerated       `avp:"G-Enum"`
	T    datatype.Time             `avp:"G-Time"`
	Addr datatype.Address          `avp:"G-Addr"`
	V4   datatype.IPv4             `avp:"G-IPv4"`
	V6   datatype.IPv6             `avp:"G-IPv6"`
}

func (s *S2) fill(r *rand.Rand) {
	s.Oct, s.U8, s.Id = datatype.OctetString(rStr(r, true)), datatype.UTF8String(rStr(r, true)), datatype.DiameterIdentity(rStr(r, true))
	s.URI, s.IPF, s.QoS = datatype.DiameterURI(rStr(r, true)), datatype.IPFilterRule(rStr(r, true)), datatype.QoSFilterRule(rStr(r, true))
	s.I32, s.I64 = datatype.Integer32(rI(r, refcodec.Integer32)), datatype.Integer64(rI(r, refcodec.Integer64))
	s.U32, s.U64 = datatype.Unsigned32(rI(r, refcodec.Unsigned32)), datatype.Unsigned64(rI(r, refcodec.Unsigned64))
	s.F32, s.F64 = datatype.Float32(rF32(r)), datatype.Float64(rF64(r))
	s.En, s.T = datatype.Enumerated(rI(r, refcodec.Enumerated)), datatype.Time(rTime(r))
	s.Addr = datatype.Address(rIP(r))
	s.V4 = datatype.IPv4(net.IP{byte(r.Uint32()), 2, 3, byte(r.Uint32())})
	v6 := make(net.IP, 16)
	for i := range v6 {
		v6[i] = byte(r.Uint32())
	}
	s.V6 = datatype.IPv6(v6)
}
func (s *S2) expect() []*refcodec.Node {
	return []*refcodec.Node{
		nStr(9001, fM, refcodec.OctetString, []byte(s.Oct)), nStr(9002, fM, refcodec.UTF8String, []byte(s.U8)),
		nStr(9003, fM, refcodec.DiameterIdentity, []byte(s.Id)), nStr(9004, fM, refcodec.DiameterURI, []byte(s.URI)),
		nStr(9005, fM, refcodec.IPFilterRule, []byte(s.IPF)), nStr(9006, fM, refcodec.QoSFilterRule, []byte(s.QoS)),
		nI(9007, fM, refcodec.Integer32, int64(s.I32)), nI(9008, fM, refcodec.Integer64, int64(s.I64)),
		nU(9009, fM, refcodec.Unsigned32, uint64(s.U32)), nU(9010, fM, refcodec.Unsigned64, uint64(s.U64)),
		nU(9011, 0, refcodec.Float32, uint64(math.Float32bits(float32(s.F32)))), nU(9012, 0, refcodec.Float64, math.Float64bits(float64(s.F64))),
		nI(9013, fM, refcodec.Enumerated, int64(s.En)), nI(9014, fM, refcodec.Time, time.Time(s.T).Unix()), nIP(9015, fM, s.Addr),
		nStr(9016, fM, refcodec.IPv4, s.V4), nStr(9017, fM, refcodec.IPv6, s.V6),
	}
}

// S3: pointers (nil = absent)
type S3 struct {
	PS  *string              `avp:"G-UTF8"`
	PU  *uint32              `avp:"G-U32"`
	PD  *datatype.Unsigned64 `avp:"G-U64"`
	PI  *int64               `avp:"G-I64"`
	PF  *float64             `avp:"G-F64"`
	PB  *[]byte              `avp:"G-Octets"`
	PG  *S3Inner             `avp:"G-Group2"`
	PT  *time.Time           `avp:"G-Time"`
	PIP *net.IP              `avp:"G-Addr"`
}
type S3Inner struct {
	U uint32 `avp:"G-U32"`
}

func (s *S3) fill(r *rand.Rand) {
	*s = S3{}
	if r.IntN(2) == 0 {
		v := rStr(r, true)
		s.PS = &v
	}
	if r.IntN(2) == 0 {
		v := uint32(rI(r, refcodec.Unsigned32))
		s.PU = &v
	}
	if r.IntN(2) == 0 {
		v := datatype.Unsigned64(rI(r, refcodec.Unsigned64))
		s.PD = &v
	}
	if r.IntN(2) == 0 {
		v := rI(r, refcodec.Integer64)
		s.PI = &v
	}
	if r.IntN(2) == 0 {
		v := rF64(r)
		s.PF = &v
	}
	if r.IntN(2) == 0 {
		v := []byte(rStr(r, true))
		s.PB = &v
	}
	if r.IntN(2) == 0 {
		s.PG = &S3Inner{U: uint32(rI(r, refcodec.Unsigned32))}
	}
	if r.IntN(2) == 0 {
		v := rTime(r)
		s.PT = &v
	}
	if r.IntN(2) == 0 {
		v := rIP(r)
		s.PIP = &v
	}
}
func (s *S3) expect() []*refcodec.Node {
	var o []*refcodec.Node
	if s.PS != nil {
		o = append(o, nStr(9002, fM, refcodec.UTF8String, []byte(*s.PS)))
	}
	if s.PU != nil {
		o = append(o, nU(9009, fM, refcodec.Unsigned32, uint64(*s.PU)))
	}
	if s.PD != nil {
		o = append(o, nU(9010, fM, refcodec.Unsigned64, uint64(*s.PD)))
	}
	if s.PI != nil {
		o = append(o, nI(9008, fM, refcodec.Integer64, *s.PI))
	}
	if s.PF != nil {
		o = append(o, nU(9012, 0, refcodec.Float64, math.Float64bits(*s.PF)))
	}
	if s.PB != nil {
		o = append(o, nStr(9001, fM, refcodec.OctetString, *s.PB))
	}
	if s.PG != nil {
		o = append(o, nG(9019, fM, nU(9009, fM, refcodec.Unsigned32, uint64(s.PG.U))))
	}
	if s.PT != nil {
		o = append(o, nI(9014, fM, refcodec.Time, s.PT.Unix()))
	}
	if s.PIP != nil {
		o = append(o, nIP(9015, fM, *s.PIP))
	}
	return o
}

// S4: slices []T and []*T (empty / nil = absent)
type S4 struct {
	SS  []string               `avp:"G-UTF8"`
	SU  []uint32               `avp:"G-U32"`
	SD  []datatype.OctetString `avp:"G-Octets"`
	SP  []*uint64              `avp:"G-U64"`
	SPS []*string              `avp:"G-Ident"`
	SIP []net.IP               `avp:"G-Addr"`
	ST  []time.Time            `avp:"G-Time"`
	SB  [][]byte               `avp:"G-URI"`
	SG  []S3Inner              `avp:"G-Group2"`
	SPG []*S4G                 `avp:"G-Group"`
}
type S4G struct {
	O string `avp:"G-Octets"`
}

func (s *S4) fill(r *rand.Rand) {
	*s = S4{}
	n := func() int { return r.IntN(4) }
	for i := n(); i > 0; i-- {
		s.SS = append(s.SS, rStr(r, true))
	}
	for i := n(); i > 0; i-- {
		s.SU = append(s.SU, uint32(rI(r, refcodec.Unsigned32)))
	}
	for i := n(); i > 0; i-- {
		s.SD = append(s.SD, datatype.OctetString(rStr(r, true)))
	}
	for i := n(); i > 0; i-- {
		v := uint64(rI(r, refcodec.Unsigned64))
		s.SP = append(s.SP, &v)
	}
	for i := n(); i > 0; i-- {
		v := rStr(r, true)
		s.SPS = append(s.SPS, &v)
	}
	for i := n(); i > 0; i-- {
		s.SIP = append(s.SIP, rIP(r))
	}
	for i := n(); i > 0; i-- {
		s.ST = append(s.ST, rTime(r))
	}
	for i := n(); i > 0; i-- {
		s.SB = append(s.SB, []byte(rStr(r, true)))
	}
	for i := n(); i > 0; i-- {
		s.SG = append(s.SG, S3Inner{U: uint32(rI(r, refcodec.Unsigned32))})
	}
	for i := n(); i > 0; i-- {
		s.SPG = append(s.SPG, &S4G{O: rStr(r, true)})
	}
	if r.IntN(6) == 0 {
		s.SS, s.SU = []string{}, []uint32{} // empty, not nil
	}
}
func (s *S4) expect() []*refcodec.Node {
	var o []*refcodec.Node
	for _, v := range s.SS {
		o = append(o, nStr(9002, fM, refcodec.UTF8String, []byte(v)))
	}
	for _, v := range s.SU {
		o = append(o, nU(9009, fM, refcodec.Unsigned32, uint64(v)))
	}
	for _, v := range s.SD {
		o = append(o, nStr(9001, fM, refcodec.OctetString, []byte(v)))
	}
	for _, v := range s.SP {
		o = append(o, nU(9010, fM, refcodec.Unsigned64, *v))
	}
	for _, v := range s.SPS {
		o = append(o, nStr(9003, fM, refcodec.DiameterIdentity, []byte(*v)))
	}
	for _, v := range s.SIP {
		o = append(o, nIP(9015, fM, v))
	}
	for _, v := range s.ST {
		o = append(o, nI(9014, fM, refcodec.Time, v.Unix()))
	}
	for _, v := range s.SB {
		o = append(o, nStr(9004, fM, refcodec.DiameterURI, v))
	}
	for _, v := range s.SG {
		o = append(o, nG(9019, fM, nU(9009, fM, refcodec.Unsigned32, uint64(v.U))))
	}
	for _, v := range s.SPG {
		o = append(o, nG(9018, fM, nStr(9001, fM, refcodec.OctetString, []byte(v.O))))
	}
	return o
}

// S5: AVP / *AVP / []*AVP fields, tagged with grouped and non-grouped AVPs
type S5 struct {
	A   diam.AVP    `avp:"G-U32"`
	AG  diam.AVP    `avp:"G-Group"`
	PA  *diam.AVP   `avp:"G-Octets"`
	PAG *diam.AVP   `avp:"G-Group2"`
	LA  []*diam.AVP `avp:"G-UTF8"`
	LG  []*diam.AVP `avp:"GV-Group"`
}

func (s *S5) fill(r *rand.Rand) {
	*s = S5{}
	s.A = *diam.NewAVP(9009, fM, 0, datatype.Unsigned32(r.Uint32()))
	s.AG = *diam.NewAVP(9018, fM, 0, &diam.GroupedAVP{AVP: []*diam.AVP{diam.NewAVP(9001, fM, 0, datatype.OctetString(rStr(r, true)))}})
	if r.IntN(2) == 0 {
		s.PA = diam.NewAVP(9001, fM, 0, datatype.OctetString(rStr(r, true)))
	}
	if r.IntN(2) == 0 {
		s.PAG = diam.NewAVP(9019, fM, 0, &diam.GroupedAVP{AVP: []*diam.AVP{diam.NewAVP(9009, fM, 0, datatype.Unsigned32(r.Uint32()))}})
	}
	for i := r.IntN(3); i > 0; i-- {
		s.LA = append(s.LA, diam.NewAVP(9002, fM, 0, datatype.UTF8String(rStr(r, true))))
	}
	for i := r.IntN(3); i > 0; i-- {
		s.LG = append(s.LG, diam.NewAVP(9021, fM, 99999, &diam.GroupedAVP{AVP: []*diam.AVP{diam.NewAVP(9020, fM, 99999, datatype.Unsigned32(r.Uint32()))}}))
	}
}
func (s *S5) expect() []*refcodec.Node {
	var o []*refcodec.Node
	add := func(a *diam.AVP) {
		n, err := lib.ToNode(a)
		if err != nil {
			panic(err)
		}
		o = append(o, n)
	}
	add(&s.A)
	add(&s.AG)
	if s.PA != nil {
		add(s.PA)
	}
	if s.PAG != nil {
		add(s.PAG)
	}
	for _, a := range s.LA {
		add(a)
	}
	for _, a := range s.LG {
		add(a)
	}
	return o
}

// S6: nested struct, anonymous struct field, embedded struct
type S6Base struct {
	Oct []byte `avp:"G-Octets"`
	E   int32  `avp:"G-Enum"`
}
type S6 struct {
	S6Base
	U32 uint32 `avp:"G-U32"`
	G   struct {
		O    string `avp:"G-Octets"`
		Addr net.IP `avp:"G-Addr"`
		GG   struct {
			O string `avp:"G-Octets"`
		} `avp:"G-Group"`
	} `avp:"G-Group"`
	G2 struct {
		U  uint32   `avp:"G-U32"`
		PG *S4G     `avp:"G-Group"`
		L  []uint32 `avp:"G-U64"`
	} `avp:"G-Group2"`
}

func (s *S6) fill(r *rand.Rand) {
	*s = S6{}
	s.Oct, s.E, s.U32 = []byte(rStr(r, true)), int32(rI(r, refcodec.Enumerated)), uint32(rI(r, refcodec.Unsigned32))
	s.G.O, s.G.Addr, s.G.GG.O = rStr(r, true), rIP(r), rStr(r, true)
	s.G2.U = uint32(rI(r, refcodec.Unsigned32))
	if r.IntN(2) == 0 {
		s.G2.PG = &S4G{O: rStr(r, true)}
	}
	for i := r.IntN(3); i > 0; i-- {
		s.G2.L = append(s.G2.L, r.Uint32())
	}
}
func (s *S6) expect() []*refcodec.Node {
	g2 := []*refcodec.Node{nU(9009, fM, refcodec.Unsigned32, uint64(s.G2.U))}
	if s.G2.PG != nil {
		g2 = append(g2, nG(9018, fM, nStr(9001, fM, refcodec.OctetString, []byte(s.G2.PG.O))))
	}
	for _, v := range s.G2.L {
		g2 = append(g2, nU(9010, fM, refcodec.Unsigned64, uint64(v)))
	}
	return []*refcodec.Node{
		nStr(9001, fM, refcodec.OctetString, s.Oct), nI(9013, fM, refcodec.Enumerated, int64(s.E)),
		nU(9009, fM, refcodec.Unsigned32, uint64(s.U32)),
		nG(9018, fM, nStr(9001, fM, refcodec.OctetString, []byte(s.G.O)), nIP(9015, fM, s.G.Addr),
			nG(9018, fM, nStr(9001, fM, refcodec.OctetString, []byte(s.G.GG.O)))),
		nG(9019, fM, g2...),
	}
}

// S7b: omitempty on each kind, next to one field without it
type S7b struct {
	Str  string              `avp:"G-UTF8,omitempty"`
	Oct  []byte              `avp:"G-Octets,omitempty"`
	I    int64               `avp:"G-I64,omitempty"`
	U    uint32              `avp:"G-U32,omitempty"`
	F    float64             `avp:"G-F64,omitempty"`
	P    *uint64             `avp:"G-U64,omitempty"`
	L    []int32             `avp:"G-I32,omitempty"`
	D    datatype.Enumerated `avp:"G-Enum,omitempty"`
	Keep string              `avp:"G-Ident"`
}

func (s *S7b) fill(r *rand.Rand) {
	*s = S7b{}
	if r.IntN(2) == 0 {
		s.Str = rStr(r, true)
	}
	if r.IntN(2) == 0 {
		s.Oct = []byte(rStr(r, true))
	}
	if r.IntN(2) == 0 {
		s.I = rI(r, refcodec.Integer64)
	}
	if r.IntN(2) == 0 {
		s.U = uint32(rI(r, refcodec.Unsigned32))
	}
	if r.IntN(2) == 0 {
		s.F = rF64(r)
		if s.F == 0 {
			s.F = 0 // -0 counts as empty and comes back as +0
		}
	}
	if r.IntN(2) == 0 {
		v := uint64(rI(r, refcodec.Unsigned64))
		s.P = &v
	}
	for i := r.IntN(3); i > 0; i-- {
		s.L = append(s.L, int32(rI(r, refcodec.Integer32)))
	}
	if r.IntN(2) == 0 {
		s.D = datatype.Enumerated(rI(r, refcodec.Enumerated))
	}
	if r.IntN(2) == 0 {
		s.Keep = rStr(r, true)
	}
}
func (s *S7b) expect() []*refcodec.Node {
	var o []*refcodec.Node
	if s.Str != "" {
		o = append(o, nStr(9002, fM, refcodec.UTF8String, []byte(s.Str)))
	}
	if len(s.Oct) != 0 {
		o = append(o, nStr(9001, fM, refcodec.OctetString, s.Oct))
	}
	if s.I != 0 {
		o = append(o, nI(9008, fM, refcodec.Integer64, s.I))
	}
	if s.U != 0 {
		o = append(o, nU(9009, fM, refcodec.Unsigned32, uint64(s.U)))
	}
	if s.F != 0 { // -0 and NaN: reflect's Float()==0 is true for -0 only
		o = append(o, nU(9012, 0, refcodec.Float64, math.Float64bits(s.F)))
	}
	if s.P != nil {
		o = append(o, nU(9010, fM, refcodec.Unsigned64, *s.P))
	}
	for _, v := range s.L {
		o = append(o, nI(9007, fM, refcodec.Integer32, int64(v)))
	}
	if s.D != 0 {
		o = append(o, nI(9013, fM, refcodec.Enumerated, int64(s.D)))
	}
	o = append(o, nStr(9003, fM, refcodec.DiameterIdentity, []byte(s.Keep)))
	return o
}

// S12: struct tags with more keys than avp (a struct that is also JSON- or XML-encoded):
// omitempty means what it says whichever key comes first
type S12 struct {
	A    uint32  `json:"a" avp:"G-U32"`
	B    uint64  `avp:"G-U64,omitempty" json:"b"`
	C    string  `json:"c,omitempty" avp:"G-UTF8,omitempty"`
	D    []byte  `xml:"d" json:"d" avp:"G-Octets"`
	E    *int32  `json:"e" avp:"G-I32,omitempty"`
	Keep string  `avp:"G-Ident" json:"keep,omitempty"`
	L    []int64 `json:"l" avp:"G-I64,omitempty"`
}

func (s *S12) fill(r *rand.Rand) {
	*s = S12{}
	if r.IntN(2) == 0 {
		s.A = uint32(rI(r, refcodec.Unsigned32))
	}
	if r.IntN(2) == 0 {
		s.B = uint64(rI(r, refcodec.Unsigned64))
	}
	if r.IntN(2) == 0 {
		s.C = rStr(r, true)
	}
	if r.IntN(2) == 0 {
		s.D = []byte(rStr(r, true))
	}
	if r.IntN(2) == 0 {
		v := int32(rI(r, refcodec.Integer32))
		s.E = &v
	}
	if r.IntN(2) == 0 {
		s.Keep = rStr(r, true)
	}
	for i := r.IntN(3); i > 0; i-- {
		s.L = append(s.L, rI(r, refcodec.Integer64))
	}
}
func (s *S12) expect() []*refcodec.Node {
	o := []*refcodec.Node{nU(9009, fM, refcodec.Unsigned32, uint64(s.A))}
	if s.B != 0 {
		o = append(o, nU(9010, fM, refcodec.Unsigned64, s.B))
	}
	if s.C != "" {
		o = append(o, nStr(9002, fM, refcodec.UTF8String, []byte(s.C)))
	}
	o = append(o, nStr(9001, fM, refcodec.OctetString, s.D))
	if s.E != nil {
		o = append(o, nI(9007, fM, refcodec.Integer32, int64(*s.E)))
	}
	o = append(o, nStr(9003, fM, refcodec.DiameterIdentity, []byte(s.Keep)))
	for _, v := range s.L {
		o = append(o, nI(9008, fM, refcodec.Integer64, v))
	}
	return o
}

// S13: an embedded struct inside the struct of a grouped AVP
type S13Inner struct {
	O string `avp:"G-Octets"`
}
type S13 struct {
	U uint32 `avp:"G-U32"`
	G struct {
		S13Inner
		Addr net.IP `avp:"G-Addr"`
	} `avp:"G-Group"`
}

func (s *S13) fill(r *rand.Rand) {
	*s = S13{U: uint32(rI(r, refcodec.Unsigned32))}
	s.G.O, s.G.Addr = rStr(r, true), rIP(r)
}
func (s *S13) expect() []*refcodec.Node {
	return []*refcodec.Node{
		nU(9009, fM, refcodec.Unsigned32, uint64(s.U)),
		nG(9018, fM, nStr(9001, fM, refcodec.OctetString, []byte(s.G.O)), nIP(9015, fM, s.G.Addr)),
	}
}

// S8: vendor-specific AVPs: V flag and vendor id from the dictionary
type S8 struct {
	VU uint32 `avp:"GV-U32"`
	VG struct {
		U []uint32 `avp:"GV-U32"`
	} `avp:"GV-Group"`
	VA net.IP        `avp:"GV-Addr"`
	V6 datatype.IPv6 `avp:"GV-IPv6"`
}

func (s *S8) fill(r *rand.Rand) {
	*s = S8{VU: r.Uint32(), VA: rIP(r)}
	for i := r.IntN(3); i > 0; i-- {
		s.VG.U = append(s.VG.U, r.Uint32())
	}
	v6 := make(net.IP, 16)
	for i := range v6 {
		v6[i] = byte(r.Uint32())
	}
	s.V6 = datatype.IPv6(v6)
}
func (s *S8) expect() []*refcodec.Node {
	var kids []*refcodec.Node
	for _, v := range s.VG.U {
		kids = append(kids, vend(nU(9020, fM, refcodec.Unsigned32, uint64(v)), 99999))
	}
	return []*refcodec.Node{
		vend(nU(9020, fM, refcodec.Unsigned32, uint64(s.VU)), 99999), vend(nG(9021, fM, kids...), 99999),
		vend(nIP(9022, 0, s.VA), 10415), vend(nStr(9023, 0, refcodec.IPv6, s.V6), 10415),
	}
}

// S10: an embedded struct that is not the first field, after a tagged field and
// after an omitempty pointer that may be absent
type S10Emb struct {
	U uint32 `avp:"G-U32"`
	S string `avp:"G-UTF8"`
}
type S10 struct {
	Oct []byte  `avp:"G-Octets"`
	P   *uint64 `avp:"G-U64,omitempty"`
	S10Emb
	E int32 `avp:"G-Enum"`
}

func (s *S10) fill(r *rand.Rand) {
	*s = S10{Oct: []byte(rStr(r, true)), E: int32(rI(r, refcodec.Enumerated))}
	s.U, s.S = uint32(rI(r, refcodec.Unsigned32)), rStr(r, true)
	if r.IntN(2) == 0 {
		v := uint64(rI(r, refcodec.Unsigned64))
		s.P = &v
	}
}
func (s *S10) expect() []*refcodec.Node {
	o := []*refcodec.Node{nStr(9001, fM, refcodec.OctetString, s.Oct)}
	if s.P != nil {
		o = append(o, nU(9010, fM, refcodec.Unsigned64, *s.P))
	}
	return append(o, nU(9009, fM, refcodec.Unsigned32, uint64(s.U)), nStr(9002, fM, refcodec.UTF8String, []byte(s.S)), nI(9013, fM, refcodec.Enumerated, int64(s.E)))
}

// S11: the embedded struct last, the only tagged field before it absent
type S11 struct {
	P *string `avp:"G-Ident,omitempty"`
	S10Emb
}

func (s *S11) fill(r *rand.Rand) {
	*s = S11{}
	s.U, s.S = uint32(rI(r, refcodec.Unsigned32)), rStr(r, true)
	if r.IntN(3) == 0 {
		v := rStr(r, false)
		s.P = &v
	}
}
func (s *S11) expect() []*refcodec.Node {
	var o []*refcodec.Node
	if s.P != nil {
		o = append(o, nStr(9003, fM, refcodec.DiameterIdentity, []byte(*s.P)))
	}
	return append(o, nU(9009, fM, refcodec.Unsigned32, uint64(s.U)), nStr(9002, fM, refcodec.UTF8String, []byte(s.S)))
}

// S9: the default dictionary (a CER-like struct)
type S9 struct {
	OriginHost  datatype.DiameterIdentity `avp:"Origin-Host"`
	OriginRealm string                    `avp:"Origin-Realm"`
	HostIP      []net.IP                  `avp:"Host-IP-Address"`
	VendorID    uint32                    `avp:"Vendor-Id"`
	Product     string                    `avp:"Product-Name"`
	State       *uint32                   `avp:"Origin-State-Id"`
	Auth        []uint32                  `avp:"Auth-Application-Id"`
	VSA         []struct {
		Acct *uint32 `avp:"Acct-Application-Id"`
	} `avp:"Vendor-Specific-Application-Id"`
	Ts time.Time `avp:"Event-Timestamp"`
}

func (s *S9) fill(r *rand.Rand) {
	*s = S9{OriginHost: datatype.DiameterIdentity(rStr(r, true)), OriginRealm: rStr(r, true), VendorID: r.Uint32(), Product: rStr(r, true), Ts: rTime(r)}
	for i := r.IntN(3); i > 0; i-- {
		s.HostIP = append(s.HostIP, rIP(r))
	}
	if r.IntN(2) == 0 {
		v := r.Uint32()
		s.State = &v
	}
	for i := r.IntN(3); i > 0; i-- {
		s.Auth = append(s.Auth, r.Uint32())
	}
	for i := r.IntN(3); i > 0; i-- {
		var e struct {
			Acct *uint32 `avp:"Acct-Application-Id"`
		}
		if r.IntN(2) == 0 {
			v := r.Uint32()
			e.Acct = &v
		}
		s.VSA = append(s.VSA, e)
	}
}
func (s *S9) expect() []*refcodec.Node {
	o := []*refcodec.Node{nStr(264, fM, refcodec.DiameterIdentity, []byte(s.OriginHost)), nStr(296, fM, refcodec.DiameterIdentity, []byte(s.OriginRealm))}
	for _, ip := range s.HostIP {
		o = append(o, nIP(257, fM, ip))
	}
	o = append(o, nU(266, fM, refcodec.Unsigned32, uint64(s.VendorID)), nStr(269, 0, refcodec.UTF8String, []byte(s.Product)))
	if s.State != nil {
		o = append(o, nU(278, fM, refcodec.Unsigned32, uint64(*s.State)))
	}
	for _, a := range s.Auth {
		o = append(o, nU(258, fM, refcodec.Unsigned32, uint64(a)))
	}
	for _, v := range s.VSA {
		var kids []*refcodec.Node
		if v.Acct != nil {
			kids = append(kids, nU(259, fM, refcodec.Unsigned32, uint64(*v.Acct)))
		}
		o = append(o, nG(260, fM, kids...))
	}
	o = append(o, nI(55, fM, refcodec.Time, s.Ts.Unix()))
	return o
}

// ---- comparison of values ------------------------------------------------------

var timeType = reflect.TypeOf(time.Time{})
var avpType = reflect.TypeOf(diam.AVP{})

// sameValue: deep equality with nil == empty slice, Time at second resolution,
// floats by bit pattern, AVPs by their abstract tree.
func sameValue(a, b reflect.Value, path string) string {
	if a.Type() != b.Type() {
		return fmt.Sprintf("%s: type %s vs %s", path, a.Type(), b.Type())
	}
	switch {
	case a.Type() == timeType:
		if a.Interface().(time.Time).Unix() != b.Interface().(time.Time).Unix() {
			return fmt.Sprintf("%s: time %v vs %v", path, a.Interface(), b.Interface())
		}
		return ""
	case a.Type().ConvertibleTo(timeType) && a.Kind() == reflect.Struct && a.Type() != avpType && a.Type().Name() == "Time":
		if a.Convert(timeType).Interface().(time.Time).Unix() != b.Convert(timeType).Interface().(time.Time).Unix() {
			return fmt.Sprintf("%s: time differs", path)
		}
		return ""
	case a.Type() == avpType:
		x, y := a.Interface().(diam.AVP), b.Interface().(diam.AVP)
		nx, e1 := lib.ToNode(&x)
		ny, e2 := lib.ToNode(&y)
		if e1 != nil || e2 != nil {
			return fmt.Sprintf("%s: AVP not comparable: %v %v", path, e1, e2)
		}
		if d := refcodec.Equal([]*refcodec.Node{nx}, []*refcodec.Node{ny}, path); d != "" {
			return d
		}
		return ""
	}
	switch a.Kind() {
	case reflect.Float32:
		// by bit pattern, read without a conversion: widening a float32 to a float64
		// (what Value.Float does) sets the quiet bit of a signalling NaN
		if x, y := f32bits(a), f32bits(b); x != y {
			return fmt.Sprintf("%s: float32 bits %08x vs %08x", path, x, y)
		}
	case reflect.Float64:
		if math.Float64bits(a.Float()) != math.Float64bits(b.Float()) {
			return fmt.Sprintf("%s: float %v vs %v", path, a.Float(), b.Float())
		}
	case reflect.Ptr:
		if a.IsNil() != b.IsNil() {
			return fmt.Sprintf("%s: nil %v vs %v", path, a.IsNil(), b.IsNil())
		}
		if !a.IsNil() {
			return sameValue(a.Elem(), b.Elem(), path)
		}
	case reflect.Slice:
		if a.Len() != b.Len() {
			return fmt.Sprintf("%s: %d elements vs %d", path, a.Len(), b.Len())
		}
		for i := 0; i < a.Len(); i++ {
			if d := sameValue(a.Index(i), b.Index(i), fmt.Sprintf("%s[%d]", path, i)); d != "" {
				return d
			}
		}
	case reflect.Struct:
		for i := 0; i < a.NumField(); i++ {
			if d := sameValue(a.Field(i), b.Field(i), path+"."+a.Type().Field(i).Name); d != "" {
				return d
			}
		}
	default:
		if !reflect.DeepEqual(a.Interface(), b.Interface()) {
			return fmt.Sprintf("%s: %v vs %v", path, a.Interface(), b.Interface())
		}
	}
	return ""
}

// looseEqual compares AVP lists on code, vendor id, M and V flags and typed value.
func looseEqual(a, b []*refcodec.Node) string {
	mask := func(ns []*refcodec.Node) []*refcodec.Node { return ns }
	return refcodec.Equal(mask(a), mask(b), "")
}

func TestC18(t *testing.T) {
	rec := ev.Open(t, "C18")
	defer rec.Close()
	g := genCtx(t)
	def := defCtx(t)
	type entry struct {
		name string
		mk   func() shape
		ctx  *lib.Ctx
		cmd  uint32
		risk string
	}
	family := []entry{
		{"S1-native-scalars", func() shape { return new(S1) }, g, 8388000, ""},
		{"S2-datatype-types", func() shape { return new(S2) }, g, 8388000, ""},
		{"S3-pointers", func() shape { return new(S3) }, g, 8388000, ""},
		{"S4-slices", func() shape { return new(S4) }, g, 8388000, ""},
		{"S5-avp-fields", func() shape { return new(S5) }, g, 8388000, ""},
		{"S6-nested-embedded", func() shape { return new(S6) }, g, 8388000, ""},
		{"S7-omitempty", func() shape { return new(S7b) }, g, 8388000, ""},
		{"S8-vendor-specific", func() shape { return new(S8) }, g, 8388000, ""},
		{"S9-default-dictionary", func() shape { return new(S9) }, def, 257, ""},
		{"S10-embedded-not-first", func() shape { return new(S10) }, g, 8388000, ""},
		{"S11-embedded-last-after-absent-field", func() shape { return new(S11) }, g, 8388000, ""},
		{"S12-tags-with-several-keys", func() shape { return new(S12) }, g, 8388000, ""},
		{"S13-embedded-inside-a-group", func() shape { return new(S13) }, g, 8388000, ""},
	}
	n := rec.N(60000, 30000000)
	var runValue func(c *ev.Case, e entry)
	runValue = func(c *ev.Case, e entry) {
		src := e.mk()
		src.fill(c.R)
		want := src.expect()
		c.Class("%s/avps=%d", e.name, min(len(want), 12))
		sig := func(op string) ev.Sig { return ev.Sig{"op": op, "shape": e.name} }
		m := diam.NewMessage(e.cmd, diam.RequestFlag, 0, 1, 2, e.ctx.Parser)
		if c.I%3 == 1 {
			// the struct is marshalled into a message that already carries AVPs (an answer with
			// its Result-Code): Marshal replaces them
			m = m.Answer(2001)
			c.Class("marshal-into-a-used-message")
		}
		pre := len(m.AVP)
		var err error
		if p, bad := guard(func() { err = m.Marshal(src) }); bad {
			c.Fail(sig("marshal-panic"), nil, fmt.Sprintf("%+v", src), "Marshal panicked: %s", p)
			return
		}
		if err != nil {
			c.Fail(sig("marshal-error"), nil, fmt.Sprintf("%+v", src), "Marshal failed: %v", err)
			return
		}
		got, terr := lib.ToNodes(m.AVP)
		if terr != nil {
			c.Fail(sig("marshal-avps"), nil, nil, "AVPs produced by Marshal: %v", terr)
			return
		}
		if d := looseEqual(want, got); d != "" && pre > 0 && len(got) == pre+len(want) {
			// the struct's AVPs after the ones the message already had: also what a caller would
			// build by hand
			got = got[pre:]
		}
		if d := looseEqual(want, got); d != "" {
			c.Fail(sig("marshal-avps"), nil, map[string]any{"want": refcodec.Describe(want), "got": refcodec.Describe(got)}, "the AVPs produced by Marshal differ from the hand-built list: %s", d)
			return
		}
		wire, err := m.Serialize()
		if err != nil || int(m.Header.MessageLength) != len(wire) {
			c.Fail(sig("marshal-length"), nil, nil, "after Marshal: Serialize err=%v, Header.MessageLength=%d, %d bytes", err, m.Header.MessageLength, len(wire))
			return
		}
		// direct
		dst := e.mk()
		if p, bad := guard(func() { err = m.Unmarshal(dst) }); bad || err != nil {
			c.Fail(sig("unmarshal-direct"), wire, nil, "Unmarshal: err=%v %s", err, p)
			return
		}
		if d := sameValue(reflect.ValueOf(src).Elem(), reflect.ValueOf(dst).Elem(), e.name); d != "" {
			c.Fail(sig("roundtrip-direct"), wire, fmt.Sprintf("%+v", src), "Marshal -> Unmarshal does not reproduce the value: %s", d)
			return
		}
		// the same message marshalled again with other values: Unmarshal sees the new ones
		for again := 0; again < 2; again++ {
			src2 := e.mk()
			src2.fill(c.R)
			if p, bad := guard(func() { err = m.Marshal(src2) }); bad || err != nil {
				c.Fail(sig("marshal-error"), nil, fmt.Sprintf("%+v", src2), "Marshal on a message that was marshalled before: err=%v %s", err, p)
				return
			}
			dst3 := e.mk()
			if p, bad := guard(func() { err = m.Unmarshal(dst3) }); bad || err != nil {
				c.Fail(sig("unmarshal-direct"), nil, nil, "Unmarshal after marshalling the same message again: err=%v %s", err, p)
				return
			}
			if d := sameValue(reflect.ValueOf(src2).Elem(), reflect.ValueOf(dst3).Elem(), e.name); d != "" {
				c.Fail(sig("roundtrip-direct"), nil, fmt.Sprintf("%+v", src2), "a message marshalled, unmarshalled, marshalled again with other values and unmarshalled does not give the new values: %s", d)
				return
			}
			// and through the wire
			wire2, err := m.Serialize()
			if err != nil || int(m.Header.MessageLength) != len(wire2) {
				c.Fail(sig("marshal-length"), nil, nil, "after marshalling the same message again: Serialize err=%v, Header.MessageLength=%d, %d bytes", err, m.Header.MessageLength, len(wire2))
				return
			}
			rm2, err := diam.ReadMessage(bytes.NewReader(wire2), e.ctx.Parser)
			if err != nil {
				c.Fail(sig("read"), wire2, nil, "ReadMessage of a message that was marshalled twice: %v", err)
				return
			}
			dst4 := e.mk()
			if p, bad := guard(func() { err = rm2.Unmarshal(dst4) }); bad || err != nil {
				c.Fail(sig("unmarshal-wire"), wire2, nil, "Unmarshal after the wire (message marshalled twice): err=%v %s", err, p)
				return
			}
			if d := sameValue(reflect.ValueOf(src2).Elem(), reflect.ValueOf(dst4).Elem(), e.name); d != "" {
				c.Fail(sig("roundtrip-wire"), wire2, fmt.Sprintf("%+v", src2), "a message marshalled a second time with other values does not give them after the wire: %s", d)
				return
			}
			c.Event("roundtrips", 2)
		}
		// via the wire
		rm, err := diam.ReadMessage(bytes.NewReader(wire), e.ctx.Parser)
		if err != nil {
			c.Fail(sig("read"), wire, nil, "ReadMessage of the marshalled message: %v", err)
			return
		}
		dst2 := e.mk()
		if p, bad := guard(func() { err = rm.Unmarshal(dst2) }); bad || err != nil {
			c.Fail(sig("unmarshal-wire"), wire, nil, "Unmarshal after the wire: err=%v %s", err, p)
			return
		}
		if d := sameValue(reflect.ValueOf(src).Elem(), reflect.ValueOf(dst2).Elem(), e.name); d != "" {
			c.Fail(sig("roundtrip-wire"), wire, fmt.Sprintf("%+v", src), "Marshal -> wire -> Unmarshal does not reproduce the value: %s", d)
			return
		}
		c.Event("roundtrips", 2)
		c.Event("avps_compared", len(want))
		if c.WantSample() && len(want) > 3 && len(wire) < 400 {
			c.Sample(map[string]any{"shape": e.name, "value": fmt.Sprintf("%+v", src), "avps": refcodec.Describe(want), "wire": ev.Hex(wire)})
		}
	}
	if rec.Race() {
		// race build: several goroutines marshal and unmarshal values of the same struct types,
		// with the same parsers, at the same moment (every connection's handler does); each value
		// goes through the whole oracle above, the race detector watches what they share
		rec.Suite("concurrent-values", rec.N(60, 6000), func(c *ev.Case) {
			const G = 4
			var wg sync.WaitGroup
			start := make(chan struct{})
			c.Class("concurrent-values/%s", family[c.I%len(family)].name)
			for g := 0; g < G; g++ {
				gc := rec.OneCase("concurrent-values", c.I*G+g)
				e := family[(c.I+g/2)%len(family)] // pairs of goroutines share a struct type
				wg.Add(1)
				go func() {
					defer wg.Done()
					<-start
					for k := 0; k < 12 && !gc.Failed(); k++ {
						runValue(gc, e)
					}
				}()
			}
			close(start)
			wg.Wait()
			c.Event("concurrent_value_groups", 1)
		})
		// the first use of a struct type, from several goroutines at once: a struct type made for
		// this case (reflect.StructOf: a subset of the generated dictionary's scalar AVPs in a
		// random order, with untagged fields in between) is marshalled and unmarshalled by four
		// goroutines that start together
		rec.Suite("concurrent-first-use", rec.N(150, 20000), func(c *ev.Case) {
			freshTypeRound(c, rec, g)
		})
		return
	}
	// the same struct type used with messages bound to two dictionaries in which the tagged
	// names mean different codes and data types (GenXML / GenXML2), in both orders
	gf2, err := refdict.Parse("gen2", lib.GenXML2)
	if err != nil {
		t.Fatal(err)
	}
	g2, err := lib.Load("gen2", gf2)
	if err != nil {
		t.Fatal(err)
	}
	rec.Suite("same-type-two-dictionaries", rec.N(200, 20000), func(c *ev.Case) {
		type inner struct {
			O []byte `avp:"G-Octets"`
			A uint64 `avp:"G-U32"`
		}
		type shape struct {
			O []byte `avp:"G-Octets"`
			S []byte `avp:"G-UTF8"`
			A uint64 `avp:"G-U32"`
			B uint64 `avp:"G-U64"`
			G inner  `avp:"G-Group"`
		}
		r := c.R
		ctxs2 := []*lib.Ctx{g, g2}
		first := c.I % 2
		c.Class("two-dictionaries/first=%d", first)
		for round := 0; round < 4; round++ {
			cx := ctxs2[(first+round)%2]
			src := shape{O: randASCII(r, 1+r.IntN(9)), S: randASCII(r, 1+r.IntN(9)), A: uint64(r.Uint32()), B: uint64(r.Uint32()),
				G: inner{O: randASCII(r, 1+r.IntN(5)), A: uint64(r.Uint32())}}
			sig := func(op string) ev.Sig { return ev.Sig{"op": op, "shape": "same-type-two-dictionaries"} }
			m := diam.NewMessage(8388000, diam.RequestFlag, 0, 1, 2, cx.Parser)
			var err error
			if p, bad := guard(func() { err = m.Marshal(&src) }); bad || err != nil {
				c.Fail(sig("marshal-error"), nil, nil, "round %d, dictionary %s: Marshal: err=%v %s", round, cx.Name, err, p)
				return
			}
			// the codes the tags mean in the dictionary of this message
			code := func(name string) uint32 {
				d, ok := cx.Ix.FindAVPByName(0, name, refdict.AnyVendor)
				if !ok {
					t.Fatalf("reference: %s not defined in %s", name, cx.Name)
				}
				return d.Code
			}
			want := []uint32{code("G-Octets"), code("G-UTF8"), code("G-U32"), code("G-U64"), code("G-Group")}
			var got []uint32
			for _, a := range m.AVP {
				got = append(got, a.Code)
			}
			if fmt.Sprint(got) != fmt.Sprint(want) {
				c.Fail(sig("marshal-avps"), nil, nil, "round %d: the message is bound to dictionary %s, where the tags G-Octets, G-UTF8, G-U32, G-U64, G-Group mean codes %v; Marshal produced codes %v (the same struct type was used with the other dictionary before: %v)", round, cx.Name, want, got, round > 0)
				return
			}
			if ga, ok := m.AVP[4].Data.(*diam.GroupedAVP); !ok || len(ga.AVP) != 2 || ga.AVP[0].Code != want[0] || ga.AVP[1].Code != want[2] {
				c.Fail(sig("marshal-avps"), nil, nil, "round %d, dictionary %s: the nested group does not hold codes %d and %d", round, cx.Name, want[0], want[2])
				return
			}
			wire, err := m.Serialize()
			if err != nil {
				c.Fail(sig("marshal-length"), nil, nil, "Serialize: %v", err)
				return
			}
			rm, err := diam.ReadMessage(bytes.NewReader(wire), cx.Parser)
			if err != nil {
				c.Fail(sig("read"), wire, nil, "round %d, dictionary %s: ReadMessage of the marshalled message: %v", round, cx.Name, err)
				return
			}
			var dst shape
			if p, bad := guard(func() { err = rm.Unmarshal(&dst) }); bad || err != nil {
				c.Fail(sig("unmarshal-wire"), wire, nil, "round %d, dictionary %s: Unmarshal: err=%v %s", round, cx.Name, err, p)
				return
			}
			if !reflect.DeepEqual(src, dst) {
				c.Fail(sig("roundtrip-wire"), wire, nil, "round %d, dictionary %s: Marshal -> wire -> Unmarshal gives %+v for %+v", round, cx.Name, dst, src)
				return
			}
			c.Event("roundtrips", 1)
		}
	})
	rec.Suite("values", n, func(c *ev.Case) { runValue(c, family[c.I%len(family)]) })
	rec.Suite("fan-out", rec.N(400, 40000), func(c *ev.Case) { fanOutRound(c, g) })
	rec.Suite("inherited-group-overridden-member", rec.N(8, 200), func(c *ev.Case) { inheritedGroupRound(c) })
	rec.Suite("repeated-after-gap", rec.N(300, 30000), func(c *ev.Case) { gapRound(c, g) })
	rec.Suite("marshal-after-load", rec.N(16, 800), func(c *ev.Case) { marshalAfterLoad(c, c.I%2) })
	// a dictionary load that fails part-way must not take away what worked before: the same
	// shapes against a private parser, before and after a load that restates the whole
	// generated dictionary and then hits a data type with a typo
	// (the commands are left out: restating a command is refused before any AVP is looked at)
	broken := regexp.MustCompile(`(?s)<command.*?</command>`).ReplaceAllString(lib.GenXML, "")
	broken = strings.Replace(broken, "</application>", `<avp name="Broken-Type" code="29999" must="M" may="P" must-not="V" may-encrypt="-"><data type="Unsigned23"/></avp></application>`, 1)
	// a grouped AVP kept by the application as the bytes of its members (datatype.Grouped, or a
	// plain []byte: what Marshal documents for AVPs like Failed-AVP): the field comes back as it
	// was, directly and after the wire
	type rawGroup struct {
		U   uint32           `avp:"G-U32"`
		Raw datatype.Grouped `avp:"G-Group"`
		B   []byte           `avp:"G-Group2"`
	}
	rec.Suite("group-kept-as-bytes", rec.N(200, 20000), func(c *ev.Case) {
		r := c.R
		mk := func() ([]byte, []*refcodec.Node) {
			var kids []*refcodec.Node
			var raw []byte
			for k := r.IntN(4); k > 0; k-- {
				var n *refcodec.Node
				if r.IntN(2) == 0 {
					n = nStr(9001, fM, refcodec.OctetString, []byte(rStr(r, true)))
				} else {
					n = nU(9009, fM, refcodec.Unsigned32, uint64(r.Uint32()))
				}
				kids = append(kids, n)
				raw = append(raw, n.Encode()...)
			}
			return raw, kids
		}
		src := &rawGroup{U: r.Uint32()}
		var k1, k2 []*refcodec.Node
		src.Raw, k1 = mk()
		src.B, k2 = mk()
		if src.Raw == nil {
			src.Raw = datatype.Grouped{}
		}
		if src.B == nil {
			src.B = []byte{}
		}
		c.Class("group-kept-as-bytes/members=%d+%d", len(k1), len(k2))
		sig := func(op string) ev.Sig { return ev.Sig{"op": op, "shape": "group-kept-as-bytes"} }
		m := diam.NewRequest(8388000, 0, g.Parser)
		var wire []byte
		var err error
		if p, bad := guard(func() {
			if err = m.Marshal(src); err == nil {
				wire, err = m.Serialize()
			}
		}); bad || err != nil {
			c.Fail(sig("marshal-error"), nil, nil, "Marshal of a struct that keeps two groups as the bytes of their members: err=%v %s", err, p)
			return
		}
		want := refcodec.EncodeMessage(refcodec.Header{Version: 1, Flags: 0x80, Code: 8388000, HopByHop: m.Header.HopByHopID, EndToEnd: m.Header.EndToEndID},
			[]*refcodec.Node{nU(9009, fM, refcodec.Unsigned32, uint64(src.U)), nG(9018, fM, k1...), nG(9019, fM, k2...)})
		if !bytes.Equal(wire, want) {
			c.Fail(sig("marshal-avps"), want, map[string]any{"lib": ev.Hex(wire)}, "the message marshalled from groups kept as bytes differs from the hand-built one at byte %d", firstDiff(wire, want))
			return
		}
		for _, via := range []string{"direct", "wire"} {
			mm := m
			if via == "wire" {
				if mm, err = diam.ReadMessage(bytes.NewReader(wire), g.Parser); err != nil {
					c.Fail(sig("roundtrip-wire"), wire, nil, "ReadMessage: %v", err)
					return
				}
			}
			var dst rawGroup
			if p, bad := guard(func() { err = mm.Unmarshal(&dst) }); bad || err != nil {
				c.Fail(sig("roundtrip-"+via), wire, nil, "Unmarshal (%s): err=%v %s", via, err, p)
				return
			}
			if dst.U != src.U || !bytes.Equal(dst.Raw, src.Raw) || !bytes.Equal(dst.B, src.B) {
				c.Fail(sig("roundtrip-"+via), wire, nil, "a struct that keeps grouped AVPs as the bytes of their members, marshalled and unmarshalled (%s): datatype.Grouped field %x -> %x, []byte field %x -> %x", via, []byte(src.Raw), []byte(dst.Raw), src.B, dst.B)
				return
			}
		}
		c.Event("roundtrips", 2)
	})
	rec.Suite("after-failed-load", rec.N(40, 4000), func(c *ev.Case) {
		gf, err := refdict.Parse("gen", lib.GenXML)
		if err != nil {
			t.Fatal(err)
		}
		priv, err := lib.Load("gen-private", gf)
		if err != nil {
			t.Fatal(err)
		}
		e := family[c.I%len(family)]
		if e.ctx != g {
			return
		}
		e.ctx = priv
		c.Class("after-failed-load/%s", e.name)
		runValue(c, e)
		if c.Failed() {
			return
		}
		if err := priv.Parser.Load(strings.NewReader(broken)); err == nil {
			c.Fail(ev.Sig{"op": "setup", "shape": e.name}, nil, nil, "the dictionary with an unknown data type was loaded without an error")
			return
		}
		e.name += "/after-failed-load"
		runValue(c, e)
		c.Event("values_after_failed_load", 1)
	})
}

// goTypeFor: the native Go field type used for a dictionary data type.
func goTypeFor(k refcodec.Kind) (reflect.Type, bool) {
	switch k {
	case refcodec.Unsigned32:
		return reflect.TypeOf(uint32(0)), true
	case refcodec.Unsigned64:
		return reflect.TypeOf(uint64(0)), true
	case refcodec.Integer32, refcodec.Enumerated:
		return reflect.TypeOf(int32(0)), true
	case refcodec.Integer64:
		return reflect.TypeOf(int64(0)), true
	case refcodec.UTF8String, refcodec.DiameterIdentity, refcodec.DiameterURI, refcodec.IPFilterRule:
		return reflect.TypeOf(""), true
	case refcodec.OctetString:
		return reflect.TypeOf([]byte(nil)), true
	}
	return nil, false
}

// TestC18Apps: struct types generated from the dictionary (reflect.StructOf)
// and used for messages of several applications in turn: the AVP a tag name
// produces must be the one the dictionary resolves for the message's own
// application, whatever the type was used with before.
// marshalAfterLoad: a struct type is marshalled, then a later Load gives one of its tagged names
// another meaning for the message's application, then it is marshalled again: the AVPs are the
// ones a caller would build by hand from the dictionary as it is now.
func marshalAfterLoad(c *ev.Case, variant int) {
	sig := func(op string) ev.Sig { return ev.Sig{"op": op, "shape": "marshal-after-load"} }
	baseXML := strings.Replace(lib.GenXML, `    <avp name="G-Ident" code="9102" must="M"><data type="OctetString"/></avp>`+"\n", "", 1)
	gf, err := refdict.Parse("gen-base", baseXML)
	if err != nil || baseXML == lib.GenXML {
		c.Fail(sig("setup"), nil, nil, "generated dictionary without the application-level G-Ident: %v", err)
		return
	}
	cx, err := lib.Load("gen-base", gf)
	if err != nil {
		c.Fail(sig("setup"), nil, nil, "%v", err)
		return
	}
	type inner struct {
		I string `avp:"G-Ident"`
	}
	type shape struct {
		U uint32 `avp:"G-U32"`
		I string `avp:"G-Ident"`
		G inner  `avp:"G-Group"`
	}
	app := uint32(8388001)
	ext := `<?xml version="1.0" encoding="UTF-8"?><diameter><application id="8388001" type="auth" name="Gen-App"><avp name="G-Ident" code="9102" must="M"><data type="OctetString"/></avp></application></diameter>`
	newCode := uint32(9102)
	if variant%2 == 1 {
		ext = `<?xml version="1.0" encoding="UTF-8"?><diameter><application id="0" name="Base"><avp name="G-Ident" code="9103" must="M"><data type="OctetString"/></avp></application></diameter>`
		newCode = 9103
	}
	c.Class("marshal-after-load/variant=%d", variant)
	check := func(when string, code uint32) bool {
		m := diam.NewMessage(8388002, diam.RequestFlag, app, 1, 2, cx.Parser)
		src := shape{U: 7, I: "a.b", G: inner{I: "c.d"}}
		if err := m.Marshal(&src); err != nil {
			c.Fail(sig("marshal-error"), nil, nil, "%s the later Load: Marshal: %v", when, err)
			return false
		}
		if len(m.AVP) != 3 || m.AVP[1].Code != code {
			c.Fail(sig("marshal-avps"), nil, nil, "%s the later Load the dictionary resolves G-Ident to code %d for application %d: Marshal produced %d AVPs, the second with code %d", when, code, app, len(m.AVP), m.AVP[min(1, len(m.AVP)-1)].Code)
			return false
		}
		if g, ok := m.AVP[2].Data.(*diam.GroupedAVP); !ok || len(g.AVP) != 1 || g.AVP[0].Code != code {
			c.Fail(sig("marshal-avps"), nil, nil, "%s the later Load: the grouped field's member does not have code %d", when, code)
			return false
		}
		var dst shape
		if err := m.Unmarshal(&dst); err != nil || dst != src {
			c.Fail(sig("roundtrip-direct"), nil, nil, "%s the later Load: Marshal -> Unmarshal gives %+v (err=%v) for %+v", when, dst, err, src)
			return false
		}
		return true
	}
	if !check("before", 9003) {
		return
	}
	if err := cx.Parser.Load(strings.NewReader(ext)); err != nil {
		c.Fail(sig("setup"), nil, nil, "Load of the extension: %v", err)
		return
	}
	if !check("after", newCode) {
		return
	}
	c.Event("roundtrips", 2)
}

// gapRound: the same AVP code in two places of a message with other AVPs in between (a struct
// was marshalled and a relay appended more occurrences).  Unmarshal collects every occurrence into the slice field, leaves the
// fields in between alone and does not touch the message.
func gapRound(c *ev.Case, ctx *lib.Ctx) {
	type shape struct {
		U []uint32 `avp:"G-U32"`
		S string   `avp:"G-UTF8"`
		I int64    `avp:"G-I64"`
	}
	r := c.R
	sig := func(op string) ev.Sig { return ev.Sig{"op": op, "shape": "repeated-after-gap"} }
	src := shape{S: fmt.Sprintf("s%d", c.I), I: int64(-c.I)}
	for i := 0; i < 1+r.IntN(3); i++ {
		src.U = append(src.U, uint32(100+i))
	}
	m := diam.NewMessage(8388000, diam.RequestFlag, 0, 1, 2, ctx.Parser)
	if err := m.Marshal(&src); err != nil {
		c.Fail(sig("marshal-error"), nil, nil, "Marshal: %v", err)
		return
	}
	extra := 1 + r.IntN(3)
	want := src
	want.U = append([]uint32(nil), src.U...)
	for i := 0; i < extra; i++ {
		m.NewAVP(9009, 0x40, 0, datatype.Unsigned32(uint32(900+i)))
		want.U = append(want.U, uint32(900+i))
	}
	c.Class("repeated-after-gap/first-run=%d/appended=%d", len(src.U), extra)
	for round, how := range []string{"direct", "wire"} {
		mm := m
		if round == 1 {
			wire, err := m.Serialize()
			if err != nil {
				c.Fail(sig("marshal-length"), nil, nil, "Serialize: %v", err)
				return
			}
			if mm, err = diam.ReadMessage(bytes.NewReader(wire), ctx.Parser); err != nil {
				c.Fail(sig("read"), wire, nil, "ReadMessage: %v", err)
				return
			}
		}
		before := append([]*diam.AVP(nil), mm.AVP...)
		var dst shape
		if err := mm.Unmarshal(&dst); err != nil {
			c.Fail(sig("unmarshal-"+how), nil, nil, "Unmarshal: %v", err)
			return
		}
		if !reflect.DeepEqual(dst, want) {
			c.Fail(sig("roundtrip-"+how), nil, nil, "a message that carries G-U32 %d times, other AVPs, then %d more times (%s): Unmarshal gives %+v, expected %+v", len(src.U), extra, how, dst, want)
			return
		}
		for i := range before {
			if i >= len(mm.AVP) || mm.AVP[i] != before[i] {
				c.Fail(sig("unmarshal-modified-the-message"), nil, nil, "Unmarshal (%s) changed the message's AVP list at position %d", how, i)
				return
			}
		}
	}
	c.Event("roundtrips", 2)
}

// inheritedGroupRound: the message's application (Gx, 16777238) inherits a grouped AVP from its
// parent (credit control, 4) and defines one of the group's member names itself, with another
// code and type.  A nested struct is marshalled the way a caller would build the AVPs by hand:
// every name resolves through the message's application.
func inheritedGroupRound(c *ev.Case) {
	sig := func(op string) ev.Sig { return ev.Sig{"op": op, "shape": "inherited-group-overridden-member"} }
	fs, err := lib.Embedded()
	if err != nil {
		c.Fail(sig("setup"), nil, nil, "%v", err)
		return
	}
	x4, _ := refdict.Parse("x4", `<?xml version="1.0" encoding="UTF-8"?><diameter><application id="4" type="auth" name="X-CC">
<avp name="X-Group" code="9501" must="M"><data type="Grouped"><rule avp="X-Member" required="false"/><rule avp="X-Other" required="false"/></data></avp>
<avp name="X-Member" code="9502" must="M"><data type="Unsigned32"/></avp>
<avp name="X-Other" code="9504" must="M"><data type="UTF8String"/></avp></application></diameter>`)
	xg, _ := refdict.Parse("xgx", `<?xml version="1.0" encoding="UTF-8"?><diameter><application id="16777238" type="auth" name="X-Gx">
<avp name="X-Member" code="9503" must="M,V" vendor-id="10415"><data type="Unsigned64"/></avp></application></diameter>`)
	cx, err := lib.Load("base+x", fs[0], x4, xg)
	if err != nil || x4 == nil || xg == nil {
		c.Fail(sig("setup"), nil, nil, "loading the test dictionaries: %v", err)
		return
	}
	type inner struct {
		M uint64 `avp:"X-Member"`
		O string `avp:"X-Other"`
	}
	type shape struct {
		G inner `avp:"X-Group"`
	}
	for _, app := range []uint32{16777238, 4} {
		wantCode, wantVendor := uint32(9503), uint32(10415)
		val := uint64(1)<<40 + uint64(c.I)
		if app == 4 {
			wantCode, wantVendor, val = 9502, 0, uint64(c.I)
		}
		c.Class("inherited-group/app=%d", app)
		m := diam.NewMessage(272, diam.RequestFlag, app, 1, 2, cx.Parser)
		src := shape{G: inner{M: val, O: "o"}}
		if err := m.Marshal(&src); err != nil {
			c.Fail(sig("marshal-error"), nil, nil, "application %d: Marshal: %v", app, err)
			return
		}
		g, ok := m.AVP[0].Data.(*diam.GroupedAVP)
		if len(m.AVP) != 1 || !ok || len(g.AVP) != 2 || g.AVP[0].Code != wantCode || g.AVP[0].VendorID != wantVendor {
			c.Fail(sig("marshal-avps"), nil, nil, "application %d: for a message of this application the dictionary resolves X-Member to code %d vendor %d; the group produced by Marshal holds %v", app, wantCode, wantVendor, m.AVP[0])
			return
		}
		var dst shape
		if err := m.Unmarshal(&dst); err != nil || dst != src {
			c.Fail(sig("roundtrip-direct"), nil, nil, "application %d: Marshal -> Unmarshal gives %+v (err=%v) for %+v", app, dst, err, src)
			return
		}
	}
	c.Event("roundtrips", 2)
}

// fanOutRound: one struct value marshalled into two messages (a relay fanning a request out to
// two next hops), each of which then gets AVPs of its own.  The struct's first field that yields
// AVPs is a []*diam.AVP with spare capacity, the layout in which a Marshal that adopts the
// caller's slice instead of copying it would let the two messages share a backing array.
func fanOutRound(c *ev.Case, ctx *lib.Ctx) {
	type fan struct {
		A []*diam.AVP `avp:"G-U32"`
		S string      `avp:"G-UTF8"`
		B []*diam.AVP `avp:"G-U64"`
	}
	r := c.R
	sig := func(op string) ev.Sig { return ev.Sig{"op": op, "shape": "fan-out"} }
	na := 1 + r.IntN(3)
	src := fan{A: make([]*diam.AVP, 0, na+1+r.IntN(4)), S: fmt.Sprintf("s%d", c.I)}
	for i := 0; i < na; i++ {
		src.A = append(src.A, diam.NewAVP(9009, 0x40, 0, datatype.Unsigned32(uint32(100+i))))
	}
	if r.IntN(2) == 0 {
		src.S = "" // nothing but the slice
		src.B = append(make([]*diam.AVP, 0, 4), diam.NewAVP(9010, 0x40, 0, datatype.Unsigned64(7)))
	}
	c.Class("fan-out/slice-len=%d/other-fields=%v", na, src.S != "")
	var ms [2]*diam.Message
	for k := range ms {
		ms[k] = diam.NewMessage(8388000, diam.RequestFlag, 0, uint32(k+1), 2, ctx.Parser)
		if err := ms[k].Marshal(&src); err != nil {
			c.Fail(sig("marshal-error"), nil, nil, "Marshal: %v", err)
			return
		}
	}
	base := len(ms[0].AVP)
	for k := range ms {
		ms[k].NewAVP(9001, 0x40, 0, datatype.OctetString(fmt.Sprintf("hop-%d", k)))
		ms[k].NewAVP(9007, 0x40, 0, datatype.Integer32(int32(k)))
	}
	for k := range ms {
		wire, err := ms[k].Serialize()
		if err != nil || int(ms[k].Header.MessageLength) != len(wire) {
			c.Fail(sig("marshal-length"), nil, nil, "copy %d of a struct marshalled into two messages: Serialize err=%v, Header.MessageLength=%d, %d bytes", k, err, ms[k].Header.MessageLength, len(wire))
			return
		}
		rm, err := diam.ReadMessage(bytes.NewReader(wire), ctx.Parser)
		if err != nil {
			c.Fail(sig("read"), wire, nil, "copy %d: ReadMessage: %v", k, err)
			return
		}
		if len(rm.AVP) != base+2 {
			c.Fail(sig("marshal-avps"), wire, nil, "copy %d has %d AVPs, the struct yields %d and two were added", k, len(rm.AVP), base)
			return
		}
		hop, _ := rm.AVP[base].Data.(datatype.OctetString)
		idx, _ := rm.AVP[base+1].Data.(datatype.Integer32)
		if string(hop) != fmt.Sprintf("hop-%d", k) || int(idx) != k {
			c.Fail(sig("marshal-avps"), wire, nil, "a struct was marshalled into two messages and each got AVPs of its own: copy %d carries %q / %d (the other copy's AVPs?)", k, hop, idx)
			return
		}
		for i := 0; i < na; i++ {
			if v, _ := rm.AVP[i].Data.(datatype.Unsigned32); rm.AVP[i].Code != 9009 || uint32(v) != uint32(100+i) {
				c.Fail(sig("marshal-avps"), wire, nil, "copy %d: AVP %d is code %d value %v, the struct's slice holds G-U32 %d", k, i, rm.AVP[i].Code, rm.AVP[i].Data, 100+i)
				return
			}
		}
	}
	c.Event("roundtrips", 2)
}

// freshTypeRound: see suite concurrent-first-use.
func freshTypeRound(c *ev.Case, rec *ev.Rec, ctx *lib.Ctx) {
	r := c.R
	type fld struct {
		name string
		typ  reflect.Type
		code uint32
	}
	pool := []fld{{"G-Octets", reflect.TypeOf([]byte(nil)), 9001}, {"G-UTF8", reflect.TypeOf(""), 9002}, {"G-I32", reflect.TypeOf(int32(0)), 9007},
		{"G-I64", reflect.TypeOf(int64(0)), 9008}, {"G-U32", reflect.TypeOf(uint32(0)), 9009}, {"G-U64", reflect.TypeOf(uint64(0)), 9010}, {"G-F64", reflect.TypeOf(float64(0)), 9012}}
	r.Shuffle(len(pool), func(i, j int) { pool[i], pool[j] = pool[j], pool[i] })
	pool = pool[:2+r.IntN(len(pool)-1)]
	var sf []reflect.StructField
	var tagged []int
	for _, f := range pool {
		for k := r.IntN(6); k > 0; k-- { // untagged fields in between
			sf = append(sf, reflect.StructField{Name: fmt.Sprintf("X%d", len(sf)), Type: reflect.TypeOf(0)})
		}
		tagged = append(tagged, len(sf))
		sf = append(sf, reflect.StructField{Name: fmt.Sprintf("F%d", len(sf)), Type: f.typ, Tag: reflect.StructTag(fmt.Sprintf(`avp:"%s"`, f.name))})
	}
	typ := reflect.StructOf(sf)
	c.Class("concurrent-first-use/fields=%d", len(pool))
	const G = 4
	var wg sync.WaitGroup
	start := make(chan struct{})
	for g := 0; g < G; g++ {
		gc := rec.OneCase(c.Suite, c.I*G+g)
		wg.Add(1)
		go func(g int) {
			defer wg.Done()
			src := reflect.New(typ)
			for k, i := range tagged {
				f := src.Elem().Field(i)
				switch f.Kind() {
				case reflect.Slice:
					f.SetBytes([]byte(fmt.Sprintf("o%d-%d", g, k)))
				case reflect.String:
					f.SetString(fmt.Sprintf("s%d-%d", g, k))
				case reflect.Int32, reflect.Int64:
					f.SetInt(int64(-1 - g - 10*k))
				case reflect.Uint32, reflect.Uint64:
					f.SetUint(uint64(1 + g + 10*k))
				case reflect.Float64:
					f.SetFloat(float64(g) + 0.5)
				}
			}
			m := diam.NewMessage(8388000, diam.RequestFlag, 0, 1, 2, ctx.Parser)
			<-start
			sig := func(op string) ev.Sig { return ev.Sig{"op": op, "shape": "fresh-struct-type"} }
			if err := m.Marshal(src.Interface()); err != nil {
				gc.Fail(sig("marshal-error"), nil, nil, "Marshal of a struct type used for the first time (by %d goroutines at once): %v", G, err)
				return
			}
			if len(m.AVP) != len(pool) {
				gc.Fail(sig("marshal-avps"), nil, nil, "Marshal of a struct type used for the first time by %d goroutines at once produced %d AVPs for %d tagged fields", G, len(m.AVP), len(pool))
				return
			}
			for k, a := range m.AVP {
				if a.Code != pool[k].code {
					gc.Fail(sig("marshal-avps"), nil, nil, "AVP %d has code %d, the field is tagged %s (%d)", k, a.Code, pool[k].name, pool[k].code)
					return
				}
			}
			wire, err := m.Serialize()
			if err != nil || int(m.Header.MessageLength) != len(wire) {
				gc.Fail(sig("marshal-length"), nil, nil, "Serialize err=%v, Header.MessageLength=%d, %d bytes", err, m.Header.MessageLength, len(wire))
				return
			}
			rm, err := diam.ReadMessage(bytes.NewReader(wire), ctx.Parser)
			if err != nil {
				gc.Fail(sig("read"), wire, nil, "ReadMessage of the marshalled message: %v", err)
				return
			}
			dst := reflect.New(typ)
			if err := rm.Unmarshal(dst.Interface()); err != nil {
				gc.Fail(sig("unmarshal-wire"), wire, nil, "Unmarshal: %v", err)
				return
			}
			if !reflect.DeepEqual(src.Elem().Interface(), dst.Elem().Interface()) {
				gc.Fail(sig("roundtrip-wire"), wire, nil, "Marshal -> wire -> Unmarshal of a fresh struct type gives %+v for %+v", dst.Elem().Interface(), src.Elem().Interface())
				return
			}
			gc.Event("roundtrips", 1)
		}(g)
	}
	close(start)
	wg.Wait()
}

func TestC18Apps(t *testing.T) {
	rec := ev.Open(t, "C18")
	defer rec.Close()
	ctx := defCtx(t)
	// names that resolve differently (code, vendor id or M flag) for two applications
	apps := []uint32{0, 1, 4, 16777238, 16777251, 16777265, 16777236}
	type variant struct {
		app uint32
		def *refdictAVP
	}
	names := map[string]bool{}
	for _, d := range ctx.Set.AVPs() {
		names[d.Name] = true
	}
	type entry struct {
		name string
		apps []uint32
	}
	var entries []entry
	for n := range names {
		seen := map[string]bool{}
		var as []uint32
		for _, a := range apps {
			d, ok := ctx.Ix.FindAVPByName(a, n, 0xFFFFFFFF)
			if !ok {
				continue
			}
			if _, ok := goTypeFor(kindOf(d.Type)); !ok {
				continue
			}
			key := fmt.Sprintf("%d/%d/%v/%s", d.Code, d.Vendor, strings.Contains(d.Must, "M"), d.Type)
			if !seen[key] {
				seen[key] = true
				as = append(as, a)
			}
		}
		if len(as) >= 2 {
			entries = append(entries, entry{n, as})
		}
	}
	sort.Slice(entries, func(i, j int) bool { return entries[i].name < entries[j].name })
	if len(entries) == 0 {
		t.Fatalf("harness self-check: no AVP name resolves differently for two applications of the default dictionary")
	}
	rec.Note(fmt.Sprintf("%d AVP names resolve differently for at least two applications", len(entries)))
	rec.Suite("same-type-several-applications", len(entries)*2*rec.N(2, 100), func(c *ev.Case) {
		e := entries[c.I%len(entries)]
		order := append([]uint32(nil), e.apps...)
		if (c.I/len(entries))%2 == 1 {
			for i, j := 0, len(order)-1; i < j; i, j = i+1, j-1 {
				order[i], order[j] = order[j], order[i]
			}
		}
		d0, _ := ctx.Ix.FindAVPByName(order[0], e.name, 0xFFFFFFFF)
		ft, _ := goTypeFor(kindOf(d0.Type))
		// a fresh struct type for this case, with a second field to keep it company
		typ := reflect.StructOf([]reflect.StructField{
			{Name: "F", Type: ft, Tag: reflect.StructTag(fmt.Sprintf(`avp:"%s"`, e.name))},
			{Name: "Host", Type: reflect.TypeOf(""), Tag: `avp:"Origin-Host"`},
			{Name: fmt.Sprintf("Pad%d", c.I), Type: reflect.TypeOf(int8(0))},
		})
		c.Class("apps/%s", e.name)
		for round := 0; round < 2; round++ {
			for _, app := range order {
				d, _ := ctx.Ix.FindAVPByName(app, e.name, 0xFFFFFFFF)
				if k2, _ := goTypeFor(kindOf(d.Type)); k2 != ft {
					continue // another data type for this application: another Go type would be needed
				}
				src := reflect.New(typ)
				var val any
				switch ft.Kind() {
				case reflect.Uint32:
					v := c.R.Uint32()
					src.Elem().Field(0).SetUint(uint64(v))
					val = uint64(v)
				case reflect.Uint64:
					v := c.R.Uint64()
					src.Elem().Field(0).SetUint(v)
					val = v
				case reflect.Int32:
					v := int32(c.R.Uint32())
					src.Elem().Field(0).SetInt(int64(v))
					val = int64(v)
				case reflect.Int64:
					v := int64(c.R.Uint64())
					src.Elem().Field(0).SetInt(v)
					val = v
				case reflect.String:
					v := rStr(c.R, true)
					src.Elem().Field(0).SetString(v)
					val = []byte(v)
				case reflect.Slice:
					v := []byte(rStr(c.R, true))
					src.Elem().Field(0).SetBytes(v)
					val = v
				}
				src.Elem().Field(1).SetString("h.example")
				want := &refcodec.Node{Code: d.Code, Vendor: d.Vendor, Kind: kindOf(d.Type)}
				if strings.Contains(d.Must, "M") {
					want.Flags |= fM
				}
				if d.Vendor != 0 {
					want.Flags |= fV
				}
				switch v := val.(type) {
				case uint64:
					want.U = v
				case int64:
					want.I = v
				case []byte:
					want.B = v
				}
				m := diam.NewMessage(257, diam.RequestFlag, app, 1, 2, ctx.Parser)
				var err error
				if p, bad := guard(func() { err = m.Marshal(src.Interface()) }); bad || err != nil {
					c.Fail(ev.Sig{"op": "marshal-error", "shape": "generated"}, nil, nil, "Marshal of {%s %s} for application %d: err=%v %s", e.name, ft, app, err, p)
					return
				}
				got, terr := lib.ToNodes(m.AVP)
				if terr != nil || len(got) != 2 {
					c.Fail(ev.Sig{"op": "marshal-avps", "shape": "generated"}, nil, nil, "Marshal produced %d AVPs (%v)", len(got), terr)
					return
				}
				if dd := refcodec.Equal([]*refcodec.Node{want}, got[:1], ""); dd != "" {
					c.Fail(ev.Sig{"op": "marshal-avps", "shape": "generated-several-applications"}, nil, nil,
						"tag %q marshalled for application %d (applications used with this struct type so far, in order: %v, round %d): %s; the dictionary resolves it to code %d vendor %d must=%q", e.name, app, order, round, dd, d.Code, d.Vendor, d.Must)
					return
				}
				dst := reflect.New(typ)
				if p, bad := guard(func() { err = m.Unmarshal(dst.Interface()) }); bad || err != nil {
					c.Fail(ev.Sig{"op": "unmarshal-direct", "shape": "generated"}, nil, nil, "Unmarshal: err=%v %s", err, p)
					return
				}
				if dd := sameValue(src.Elem().Field(0), dst.Elem().Field(0), e.name); dd != "" {
					c.Fail(ev.Sig{"op": "roundtrip-direct", "shape": "generated-several-applications"}, nil, nil, "tag %q for application %d: %s", e.name, app, dd)
					return
				}
				c.Event("app_marshals", 1)
			}
		}
	})
}

type refdictAVP = struct{}

func kindOf(typeName string) refcodec.Kind {
	k, _ := refcodec.KindOf(typeName)
	return k
}

// f32bits returns the bit pattern of a value of kind Float32 as it is stored.
func f32bits(v reflect.Value) uint32 {
	p := reflect.New(v.Type())
	p.Elem().Set(v)
	return *(*uint32)(p.UnsafePointer())
}
