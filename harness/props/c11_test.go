package props

import (
	"bytes"
	"crypto/tls"
	"encoding/binary"
	"fmt"
	"io"
	"net"
	"sort"
	"strings"
	"sync"
	"testing"
	"testing/synctest"
	"time"

	"github.com/fiorix/go-diameter/v4/diam"
	"github.com/fiorix/go-diameter/v4/diam/datatype"
	"github.com/fiorix/go-diameter/v4/diam/dict"
	"github.com/fiorix/go-diameter/v4/diam/sm"
	"github.com/fiorix/go-diameter/v4/diam/sm/smpeer"

	"verifharness/ev"
	"verifharness/gen"
	"verifharness/lib"
	"verifharness/memnet"
	"verifharness/peer"
	"verifharness/refcodec"
	"verifharness/refdict"
)

const relayApp = 0xffffffff

// the 13 application AVPs of the alphabet
type appAVP struct {
	name string
	node func() *refcodec.Node
	ids  []struct {
		id  uint32
		typ string
	}
}

func ids(p ...any) []struct {
	id  uint32
	typ string
} {
	var out []struct {
		id  uint32
		typ string
	}
	for i := 0; i+1 < len(p); i += 2 {
		out = append(out, struct {
			id  uint32
			typ string
		}{uint32(p[i].(int)), p[i+1].(string)})
	}
	return out
}

func c11Alphabet() []appAVP {
	acct := func(id uint32) func() *refcodec.Node {
		return func() *refcodec.Node { return peer.U32(peer.AcctApp, id) }
	}
	auth := func(id uint32) func() *refcodec.Node {
		return func() *refcodec.Node { return peer.U32(peer.AuthApp, id) }
	}
	vs := func(kids ...func() *refcodec.Node) func() *refcodec.Node {
		return func() *refcodec.Node {
			var k []*refcodec.Node
			for _, f := range kids {
				k = append(k, f())
			}
			return peer.Group(peer.VSApp, k...)
		}
	}
	vendor := func() *refcodec.Node { return peer.U32(peer.VendorID, 10415) }
	return []appAVP{
		{"Acct3", acct(3), ids(3, "acct")},
		{"Acct4-wrongtype", acct(4), ids(4, "acct")},
		{"Acct999", acct(999), ids(999, "acct")},
		{"AcctRelay", acct(relayApp), ids(-1, "acct")},
		{"Auth4", auth(4), ids(4, "auth")},
		{"Auth3-wrongtype", auth(3), ids(3, "auth")},
		{"Auth999", auth(999), ids(999, "auth")},
		{"AuthRelay", auth(relayApp), ids(-1, "auth")},
		{"VS{v,Auth4}", vs(vendor, auth(4)), ids(4, "auth")},
		{"VS{v,Auth999}", vs(vendor, auth(999)), ids(999, "auth")},
		{"VS{v,Acct3}", vs(vendor, acct(3)), ids(3, "acct")},
		{"VS{v}", vs(vendor), nil},
		{"VS{Auth999,Auth4}", vs(auth(999), auth(4)), ids(999, "auth", 4, "auth")},
	}
}

type c11Case struct {
	host, realm bool
	inband      int  // -1 absent, else value
	inband2     int  // -1 absent, else the value of a second Inband-Security-Id AVP following the first
	dress       int  // optional AVPs and AVP order of the CER (c11Dress)
	inbandVS    bool // the AVP with code 299 carries the V bit and a vendor id (not the base Inband-Security-Id)
	apps        []int
	nAddrs      int  // configured Host-IP-Address values
	ipv6        bool // local endpoint
	zeroIDs     bool
}

func (cc c11Case) String(al []appAVP) string {
	s := fmt.Sprintf("host=%v realm=%v inband=%d apps=[", cc.host, cc.realm, cc.inband)
	for i, a := range cc.apps {
		if i > 0 {
			s += " "
		}
		s += al[a].name
	}
	s += fmt.Sprintf("] second-inband=%d cer-shape=%d", cc.inband2, cc.dress)
	return s + fmt.Sprintf(" configured-addresses=%d ipv6-endpoint=%v zero-ids=%v inband-with-vendor-id=%v", cc.nAddrs, cc.ipv6, cc.zeroIDs, cc.inbandVS)
}

// runC11 executes one CER end to end inside a bubble and applies the oracle.
func runC11(c *ev.Case, ctx *lib.Ctx, al []appAVP, cc c11Case) {
	sig := func(op string) ev.Sig {
		return ev.Sig{"op": op, "ipv6_endpoint": cc.ipv6, "configured_addresses": cc.nAddrs}
	}
	logBefore := 0
	if c11Log != nil {
		logBefore = len(c11Log.String())
	}
	settings := &sm.Settings{OriginHost: "srv.local", OriginRealm: "realm.local", VendorID: 13, ProductName: "verif"}
	conf := []datatype.Address{datatype.Address(net.IP{192, 0, 2, 1}), datatype.Address(net.ParseIP("2001:db8::7"))}
	settings.HostIPAddresses = conf[:cc.nAddrs]
	if cc.nAddrs == 1 && (c.I/5)%2 == 1 {
		// the same configuration through the deprecated singular field
		settings.HostIPAddresses, settings.HostIPAddress = nil, conf[0]
		c.Class("configured-through-deprecated-HostIPAddress")
	}
	machine := sm.New(settings)
	var mu sync.Mutex
	var probeMeta []*smpeer.Metadata
	probeCalls := 0
	machine.HandleIdx(diam.CommandIndex{AppID: 4, Code: 272, Request: true}, diam.HandlerFunc(func(dc diam.Conn, m *diam.Message) {
		mu.Lock()
		defer mu.Unlock()
		probeCalls++
		if meta, ok := smpeer.FromContext(dc.Context()); ok {
			probeMeta = append(probeMeta, meta)
		}
	}))
	mc := memnet.NewConn()
	if cc.ipv6 {
		mc.Local = memnet.Addr{Net: "tcp", Str: "[2001:db8::1]:3868"}
	} else {
		mc.Local = memnet.Addr{Net: "tcp", Str: "198.51.100.7:3868"}
	}
	ln := memnet.NewListener()
	srv := &diam.Server{Handler: machine, Dict: ctx.Parser}
	go srv.Serve(ln)
	ln.Offer(mc)

	// the CER
	var avps []*refcodec.Node
	if cc.host {
		avps = append(avps, peer.Str(peer.OriginHost, refcodec.DiameterIdentity, "client.example"))
	}
	if cc.realm {
		avps = append(avps, peer.Str(peer.OriginRealm, refcodec.DiameterIdentity, "example"))
	}
	avps = append(avps, peer.Addr4(peer.HostIP, 10, 9, 8, 7), peer.U32(peer.VendorID, 99), peer.Str(peer.ProductName, refcodec.UTF8String, "peer"))
	// the shapes RFC 6733 5.3.1 allows besides the minimum: 1 Origin-State-Id, Supported-Vendor-Ids,
	// Firmware-Revision; 2 several Host-IP-Addresses, IPv6 first; 3 undefined AVPs (plain and
	// vendor-specific) around the others; 4 the identity after everything else (see below)
	var trailer []*refcodec.Node
	switch cc.dress {
	case 1:
		avps = append(avps, peer.U32(peer.OriginState, 0xFFFFFFFF), peer.U32(peer.SupportedVnd, 10415), peer.U32(peer.SupportedVnd, 13019), peer.U32(peer.Firmware, 1))
	case 2:
		v6 := &refcodec.Node{Code: peer.HostIP, Flags: 0x40, Kind: refcodec.Address, Fam: 2, B: net.ParseIP("2001:db8::99")}
		avps = append([]*refcodec.Node{v6}, append(avps, peer.Addr4(peer.HostIP, 10, 9, 8, 8))...)
	case 3:
		u := &refcodec.Node{Code: 0x00E00123, Flags: 0, Kind: refcodec.Unknown, B: []byte{1, 2, 3, 4, 5}}
		avps = append([]*refcodec.Node{u}, avps...)
		trailer = []*refcodec.Node{{Code: 0x00E00124, Flags: 0x80, Vendor: 4242, Kind: refcodec.Unknown, B: []byte("vendor")}}
	case 4:
		k := 0
		if cc.host {
			k++
		}
		if cc.realm {
			k++
		}
		trailer = append(trailer, avps[:k]...)
		avps = avps[k:]
	}
	// application AVPs, the in-band security AVP somewhere in between
	inbandPos := 0
	if len(cc.apps) > 0 {
		inbandPos = c.I % (len(cc.apps) + 1)
	}
	inbandNodes := func() []*refcodec.Node {
		n := peer.U32(peer.InbandSec, uint32(cc.inband))
		if cc.inbandVS {
			n.Flags, n.Vendor = n.Flags|refcodec.AVPFlagV, 99
		}
		if cc.inband2 >= 0 {
			return []*refcodec.Node{n, peer.U32(peer.InbandSec, uint32(cc.inband2))}
		}
		return []*refcodec.Node{n}
	}
	for i, a := range cc.apps {
		if i == inbandPos && cc.inband >= 0 {
			avps = append(avps, inbandNodes()...)
		}
		n := al[a].node()
		if cc.dress == 5 && n.Kind == refcodec.Grouped {
			// shape 5: AVPs that mean something at the top level of a CER placed where they
			// mean nothing - an Inband-Security-Id of 0 inside the Vendor-Specific-Application-Id
			// groups, and (below) security and application ids inside an unrelated group
			n.Kids = append(n.Kids, peer.U32(peer.InbandSec, 0))
		}
		avps = append(avps, n)
	}
	if cc.dress == 5 {
		stray := peer.Group(284, peer.U32(peer.InbandSec, 0), peer.U32(peer.AuthApp, 4), peer.U32(peer.AcctApp, 3)) // Proxy-Info
		if c.I%2 == 0 {
			avps = append([]*refcodec.Node{stray}, avps...)
		} else {
			avps = append(avps, stray)
		}
	}
	if inbandPos >= len(cc.apps) && cc.inband >= 0 {
		avps = append(avps, inbandNodes()...)
	}
	avps = append(avps, trailer...)
	hbh, e2e := uint32(0x11223344), uint32(0x55667788)
	if cc.zeroIDs {
		hbh, e2e = 0, 0
	}
	cerFlags := uint8(0x80)
	if (c.I/5)%2 == 1 {
		cerFlags |= 0x40 // proxiable bit set: must come back unchanged
	}
	if (c.I/10)%3 == 2 {
		cerFlags |= 0x10 // potentially retransmitted (T): a first CER like any other to the receiver
	}
	cer := peer.Msg(cerFlags, peer.CodeCE, 0, hbh, e2e, avps...)
	probe := peer.Msg(0xC0, 272, 4, 77, 78, peer.Str(peer.SessionID, refcodec.UTF8String, "s;1"))
	// half of the cases deliver the CER and an application request in the same
	// segment, so that the request is already buffered when the CER is decided
	together := (c.I/2)%2 == 0
	if together {
		mc.Feed(append(append([]byte{}, cer...), probe...))
	} else {
		mc.Feed(cer)
	}
	synctest.Wait()

	// reference predicate
	shared := map[uint32]bool{}
	sharedTyped := map[string]bool{} // "auth 4": what a success CEA must advertise
	for _, a := range cc.apps {
		for _, it := range al[a].ids {
			if it.id == relayApp || ctx.Set.SupportsApp(it.id, it.typ) {
				shared[it.id] = true
				if it.id != relayApp && ctx.Set.HasTypedApp(it.id, it.typ) {
					sharedTyped[fmt.Sprintf("%s %d", it.typ, it.id)] = true
				}
			}
		}
	}
	common := len(shared) > 0
	// in-band security is required when the CER lists security mechanisms and NO_INBAND_SECURITY (0) is
	// not among them
	requiresSec := cc.inband > 0 && (cc.inband2 < 0 || cc.inband2 > 0)
	accept := cc.host && cc.realm && !requiresSec && common
	causes := map[uint32]bool{}
	if requiresSec {
		causes[5017] = true
	}
	if !common {
		causes[5010] = true
	}
	if !cc.host || !cc.realm {
		causes[5012] = true
	}

	teardown := func() {
		mc.FeedEOF()
		ln.Close()
		synctest.Wait()
	}
	defer teardown()
	desc := cc.String(al)
	msgs, rest := peer.SplitMessages(mc.Written())
	if len(rest) != 0 || len(msgs) != 1 {
		logged := ""
		if c11Log != nil {
			if l := c11Log.String()[logBefore:]; strings.Contains(l, "panic serving") {
				logged = "; the library logged: " + l[:min(len(l), 400)]
			}
		}
		c.Fail(sig("cea-count"), cer, nil, "%d messages (+%d stray bytes) were written in reply to one CER; %s%s", len(msgs), len(rest), desc, logged)
		return
	}
	cea := msgs[0]
	h := peer.Header(cea)
	if h.Code != 257 || h.Flags&0x80 != 0 || h.App != 0 {
		c.Fail(sig("cea-header"), cea, nil, "reply is not a CEA: %+v; %s", h, desc)
		return
	}
	if h.Flags&0x40 != cerFlags&0x40 {
		c.Fail(sig("cea-pbit"), cea, nil, "CEA flags %#x: the proxiable bit of the CER (flags %#x) was not kept; %s", h.Flags, cerFlags, desc)
		return
	}
	if h.HopByHop != hbh || h.EndToEnd != e2e {
		c.Fail(sig("cea-ids"), cea, nil, "CEA identifiers %#x/%#x, the CER had %#x/%#x; %s", h.HopByHop, h.EndToEnd, hbh, e2e, desc)
		return
	}
	rcs := peer.FindU32(cea, peer.ResultCode)
	if len(rcs) != 1 {
		c.Fail(sig("cea-result-code"), cea, nil, "CEA has %d Result-Code AVPs; %s", len(rcs), desc)
		return
	}
	rc := rcs[0]
	if oh := peer.Find(cea, peer.OriginHost); len(oh) != 1 || string(oh[0]) != "srv.local" {
		c.Fail(sig("cea-identity"), cea, nil, "CEA Origin-Host %q, settings say srv.local; %s", oh, desc)
		return
	}
	if or := peer.Find(cea, peer.OriginRealm); len(or) != 1 || string(or[0]) != "realm.local" {
		c.Fail(sig("cea-identity"), cea, nil, "CEA Origin-Realm %q, settings say realm.local; %s", or, desc)
		return
	}
	// Host-IP-Address
	var wantAddrs [][]byte
	if cc.nAddrs > 0 {
		wantAddrs = [][]byte{{0, 1, 192, 0, 2, 1}}
		if cc.nAddrs > 1 {
			wantAddrs = append(wantAddrs, append([]byte{0, 2}, net.ParseIP("2001:db8::7")...))
		}
	} else if cc.ipv6 {
		wantAddrs = [][]byte{append([]byte{0, 2}, net.ParseIP("2001:db8::1")...)}
	} else {
		wantAddrs = [][]byte{{0, 1, 198, 51, 100, 7}}
	}
	gotAddrs := peer.Find(cea, peer.HostIP)
	if len(gotAddrs) != len(wantAddrs) {
		c.Fail(sig("cea-host-ip"), cea, nil, "CEA carries %d Host-IP-Address AVPs %x, expected %x (configured list, or the local endpoint's address); %s", len(gotAddrs), gotAddrs, wantAddrs, desc)
		return
	}
	for i := range wantAddrs {
		if !bytes.Equal(gotAddrs[i], wantAddrs[i]) {
			c.Fail(sig("cea-host-ip"), cea, nil, "CEA Host-IP-Address %x, expected %x; %s", gotAddrs, wantAddrs, desc)
			return
		}
	}
	if cc.inbandVS && cc.inband >= 0 {
		// code 299 under a vendor id is not the base Inband-Security-Id: the state machine may
		// ignore it or refuse the CER, but it has to answer
		if rc == 2001 {
			accept = cc.host && cc.realm && common
		} else {
			accept = false
			causes[5017], causes[5012] = true, true
		}
	}
	closed := mc.CloseCount() > 0
	if accept {
		if rc != 2001 {
			c.Fail(sig("rejected-acceptable-cer"), cea, nil, "an acceptable CER (shared applications %v) was answered with Result-Code %d; %s", keysU32(shared), rc, desc)
			return
		}
		if closed {
			c.Fail(sig("closed-after-success"), cea, nil, "the connection was closed after a success CEA; %s", desc)
			return
		}
		// the success CEA advertises at least the shared dictionary applications
		adv := map[string]bool{}
		for _, v := range peer.FindU32(cea, peer.AuthApp) {
			adv[fmt.Sprintf("auth %d", v)] = true
		}
		for _, v := range peer.FindU32(cea, peer.AcctApp) {
			adv[fmt.Sprintf("acct %d", v)] = true
		}
		for _, g := range peer.Find(cea, peer.VSApp) {
			recs, _, _ := refcodec.Frame(g)
			for _, r := range recs {
				if (r.Code == peer.AuthApp || r.Code == peer.AcctApp) && len(r.Payload) == 4 {
					typ := map[uint32]string{peer.AuthApp: "auth", peer.AcctApp: "acct"}[r.Code]
					adv[fmt.Sprintf("%s %d", typ, uint32(r.Payload[0])<<24|uint32(r.Payload[1])<<16|uint32(r.Payload[2])<<8|uint32(r.Payload[3]))] = true
				}
			}
		}
		for k := range sharedTyped {
			if !adv[k] {
				c.Fail(sig("cea-missing-shared-app"), cea, nil, "success CEA does not advertise the shared application '%s' (advertised %v); %s", k, adv, desc)
				return
			}
		}
		// metadata as seen by a gated application handler
		if !together {
			mc.Feed(probe)
			synctest.Wait()
		}
		mu.Lock()
		calls, metas := probeCalls, probeMeta
		mu.Unlock()
		if calls != 1 || len(metas) != 1 {
			c.Fail(sig("no-metadata-after-success"), cea, nil, "after a success CEA the application handler ran %d times and saw metadata %d times; %s", calls, len(metas), desc)
			return
		}
		meta := metas[0]
		gotApps := map[uint32]bool{}
		for _, a := range meta.Applications {
			gotApps[a] = true
		}
		if string(meta.OriginHost) != "client.example" || string(meta.OriginRealm) != "example" || fmt.Sprint(keysU32(gotApps)) != fmt.Sprint(keysU32(shared)) {
			c.Fail(sig("metadata"), cea, nil, "metadata host %q realm %q applications %v, expected client.example / example / %v; %s", meta.OriginHost, meta.OriginRealm, keysU32(gotApps), keysU32(shared), desc)
			return
		}
		c.Event("accepted", 1)
	} else {
		if rc == 2001 {
			c.Fail(sig("accepted-unacceptable-cer"), cea, nil, "a CER that must be refused (applicable causes %v) was answered with success; %s", keysU32(causes), desc)
			return
		}
		if !causes[rc] {
			c.Fail(sig("wrong-failure-code"), cea, nil, "refused with Result-Code %d, but the causes that apply are %v; %s", rc, keysU32(causes), desc)
			return
		}
		if !closed {
			c.Fail(sig("not-closed-after-failure"), cea, nil, "the connection was not closed after a failure CEA (Result-Code %d); %s", rc, desc)
			return
		}
		mu.Lock()
		calls := probeCalls
		mu.Unlock()
		if calls != 0 {
			c.Fail(sig("metadata-after-failure"), cea, nil, "application handler ran after a refused CER; %s", desc)
			return
		}
		c.Event("rejected", 1)
	}
	c.Event("cers", 1)
	if c.WantSample() && len(cc.apps) == 2 {
		c.Sample(map[string]any{"cer": desc, "accept": accept, "result_code": rc, "cea": ev.Hex(cea)})
	}
}

// runC11TLS: the same decision when the peer connected over TLS (the connection handed to the
// state machine reports a TLS state): what the transport is does not change which CERs are
// acceptable - a CER that requires in-band security is still refused with 5017.
func runC11TLS(c *ev.Case, ctx *lib.Ctx, inband []uint32, app uint32) {
	sig := func(op string) ev.Sig {
		return ev.Sig{"op": op, "ipv6_endpoint": false, "configured_addresses": 1, "transport": "tls"}
	}
	cfg, err := c15TLSConfig()
	if err != nil {
		c.Fail(sig("setup"), nil, nil, "certificate: %v", err)
		return
	}
	settings := &sm.Settings{OriginHost: "srv.local", OriginRealm: "realm.local", VendorID: 13, ProductName: "verif",
		HostIPAddresses: []datatype.Address{datatype.Address(net.IP{192, 0, 2, 1})}}
	machine := sm.New(settings)
	ln := memnet.NewListener()
	srv := &diam.Server{Handler: machine, Dict: ctx.Parser}
	go srv.Serve(ln)
	defer ln.Close()
	sc, cc := net.Pipe()
	ln.Offer(tls.Server(sc, cfg))
	cli := tls.Client(cc, &tls.Config{InsecureSkipVerify: true})
	defer cli.Close()
	avps := append(peer.Identity("client.example", "example"), peer.Addr4(peer.HostIP, 10, 9, 8, 7), peer.U32(peer.VendorID, 99), peer.Str(peer.ProductName, refcodec.UTF8String, "peer"))
	for _, v := range inband {
		avps = append(avps, peer.U32(peer.InbandSec, v))
	}
	avps = append(avps, peer.U32(peer.AuthApp, app))
	cer := peer.Msg(0x80, peer.CodeCE, 0, 5, 6, avps...)
	type res struct {
		cea []byte
		err error
	}
	done := make(chan res, 1)
	go func() {
		if _, err := cli.Write(cer); err != nil {
			done <- res{nil, err}
			return
		}
		hdr := make([]byte, 20)
		if _, err := io.ReadFull(cli, hdr); err != nil {
			done <- res{nil, err}
			return
		}
		body := make([]byte, int(hdr[1])<<16|int(hdr[2])<<8|int(hdr[3])-20)
		_, err := io.ReadFull(cli, body)
		done <- res{append(hdr, body...), err}
	}()
	r := <-done
	synctest.Wait()
	requires := len(inband) > 0
	for _, v := range inband {
		if v == 0 {
			requires = false
		}
	}
	accept := !requires && ctx.Set.SupportsApp(app, "auth")
	desc := fmt.Sprintf("CER over TLS, Inband-Security-Id %v, Auth-Application-Id %d", inband, app)
	if r.err != nil || r.cea == nil {
		c.Fail(sig("cea-count"), cer, nil, "no CEA was read back (%v); %s", r.err, desc)
		return
	}
	rcs := peer.FindU32(r.cea, peer.ResultCode)
	if len(rcs) != 1 {
		c.Fail(sig("cea-result-code"), r.cea, nil, "CEA has %d Result-Code AVPs; %s", len(rcs), desc)
		return
	}
	switch {
	case accept && rcs[0] != 2001:
		c.Fail(sig("rejected-acceptable-cer"), r.cea, nil, "an acceptable CER was answered with Result-Code %d; %s", rcs[0], desc)
	case !accept && rcs[0] == 2001:
		c.Fail(sig("accepted-unacceptable-cer"), r.cea, nil, "a CER that must be refused (requires in-band security: %v) was answered with success; %s", requires, desc)
	case !accept && requires && rcs[0] != 5017 && rcs[0] != 5010:
		c.Fail(sig("wrong-failure-code"), r.cea, nil, "refused with Result-Code %d; %s", rcs[0], desc)
	case accept:
		c.Event("accepted", 1)
	default:
		c.Event("rejected", 1)
	}
	c.Event("cers", 1)
}

func keysU32(m map[uint32]bool) []uint32 {
	var k []uint32
	for x := range m {
		k = append(k, x)
	}
	sort.Slice(k, func(i, j int) bool { return k[i] < k[j] })
	return k
}

// runC11Multi: several peers on one state machine, each from another local
// endpoint and with other applications; every CEA must carry that connection's
// local address, and a connection's metadata must stay what its own CER said
// after other peers have shaken hands.
func runC11Multi(c *ev.Case, ctx *lib.Ctx, order []int) {
	sig := func(op string) ev.Sig { return ev.Sig{"op": op, "suite": "several-connections"} }
	settings := &sm.Settings{OriginHost: "srv.local", OriginRealm: "realm.local", VendorID: 13, ProductName: "verif"}
	machine := sm.New(settings)
	type seen struct {
		host string
		apps []uint32
	}
	var mu sync.Mutex
	probes := map[string][]seen{}
	machine.HandleIdx(diam.CommandIndex{AppID: 4, Code: 272, Request: true}, diam.HandlerFunc(func(dc diam.Conn, m *diam.Message) {
		meta, ok := smpeer.FromContext(dc.Context())
		mu.Lock()
		defer mu.Unlock()
		if ok {
			probes[dc.RemoteAddr().String()] = append(probes[dc.RemoteAddr().String()], seen{string(meta.OriginHost), append([]uint32(nil), meta.Applications...)})
		}
	}))
	ln := memnet.NewListener()
	srv := &diam.Server{Handler: machine, Dict: ctx.Parser}
	go srv.Serve(ln)
	type peerT struct {
		local  string
		ip     []byte
		avp    *refcodec.Node
		want   []uint32
		accept bool
	}
	all := []peerT{
		{"198.51.100.7:3868", []byte{0, 1, 198, 51, 100, 7}, peer.U32(peer.AuthApp, 4), []uint32{4}, true},
		{"[2001:db8::1]:3868", append([]byte{0, 2}, net.ParseIP("2001:db8::1")...), peer.U32(peer.AcctApp, 3), []uint32{3}, true},
		{"203.0.113.9:3868", []byte{0, 1, 203, 0, 113, 9}, peer.U32(peer.AuthApp, 999), nil, false},
		{"192.0.2.77:3868", []byte{0, 1, 192, 0, 2, 77}, peer.Group(peer.VSApp, peer.U32(peer.VendorID, 10415), peer.U32(peer.AuthApp, 16777251)), []uint32{16777251}, true},
	}
	conns := map[int]*memnet.Conn{}
	defer func() {
		for _, mc := range conns {
			mc.FeedEOF()
		}
		ln.Close()
		synctest.Wait()
	}()
	probe := peer.Msg(0xC0, 272, 4, 77, 78, peer.Str(peer.SessionID, refcodec.UTF8String, "s;1"))
	check := func(stage string) bool {
		for i, mc := range conns {
			p := all[i]
			if !p.accept {
				continue
			}
			mu.Lock()
			before := len(probes[mc.Remote.String()])
			mu.Unlock()
			mc.Feed(probe)
			synctest.Wait()
			mu.Lock()
			ps := probes[mc.Remote.String()]
			mu.Unlock()
			if len(ps) != before+1 {
				c.Fail(sig("no-metadata-after-success"), nil, nil, "%s: the handler did not see metadata on connection %d", stage, i)
				return false
			}
			last := ps[len(ps)-1]
			got := map[uint32]bool{}
			for _, a := range last.apps {
				got[a] = true
			}
			want := map[uint32]bool{}
			for _, a := range p.want {
				want[a] = true
			}
			if last.host != fmt.Sprintf("client%d.example", i) || fmt.Sprint(keysU32(got)) != fmt.Sprint(keysU32(want)) {
				c.Fail(sig("metadata"), nil, nil, "%s: connection %d (Origin-Host client%d.example, applications %v) now has metadata host %q applications %v (handshake order %v)", stage, i, i, keysU32(want), last.host, keysU32(got), order)
				return false
			}
		}
		return true
	}
	for step, i := range order {
		p := all[i]
		mc := memnet.NewConn()
		mc.Local = memnet.Addr{Net: "tcp", Str: p.local}
		mc.Remote = memnet.Addr{Net: "tcp", Str: fmt.Sprintf("10.9.9.%d:1000", i+1)}
		conns[i] = mc
		ln.Offer(mc)
		avps := []*refcodec.Node{peer.Str(peer.OriginHost, refcodec.DiameterIdentity, fmt.Sprintf("client%d.example", i)), peer.Str(peer.OriginRealm, refcodec.DiameterIdentity, "example"),
			peer.Addr4(peer.HostIP, 10, 9, 9, byte(i+1)), peer.U32(peer.VendorID, 99), peer.Str(peer.ProductName, refcodec.UTF8String, "peer"), p.avp}
		mc.Feed(peer.Msg(0x80, peer.CodeCE, 0, uint32(100+i), uint32(200+i), avps...))
		synctest.Wait()
		msgs, _ := peer.SplitMessages(mc.Written())
		if len(msgs) != 1 {
			c.Fail(sig("cea-count"), nil, nil, "connection %d: %d messages in reply to its CER", i, len(msgs))
			return
		}
		rc := peer.FindU32(msgs[0], peer.ResultCode)
		if len(rc) != 1 || (rc[0] == 2001) != p.accept {
			c.Fail(sig("outcome"), msgs[0], nil, "connection %d: Result-Code %v, expected accept=%v", i, rc, p.accept)
			return
		}
		if got := peer.Find(msgs[0], peer.HostIP); len(got) != 1 || !bytes.Equal(got[0], p.ip) {
			c.Fail(sig("cea-host-ip"), msgs[0], nil, "connection %d (local endpoint %s, handshake number %d on this state machine): CEA Host-IP-Address %x, expected %x", i, p.local, step+1, got, p.ip)
			return
		}
		if !check(fmt.Sprintf("after handshake %d (connection %d)", step+1, i)) {
			return
		}
		c.Event("cers", 1)
	}
	c.Event("multi_connection_scenarios", 1)
	c.Event("accepted", 1)
	c.Event("rejected", 1)
}

// runC11Simul: the first K handshakes of a fresh state machine arrive at the same
// moment on K connections; every CEA must be complete (shared applications
// advertised, local identity), whichever handshake the state machine sees first.
func runC11Simul(c *ev.Case, ctx *lib.Ctx, K int) {
	sig := func(op string) ev.Sig { return ev.Sig{"op": op, "suite": "simultaneous-first-handshakes"} }
	settings := &sm.Settings{OriginHost: "srv.local", OriginRealm: "realm.local", VendorID: 13, ProductName: "verif"}
	machine := sm.New(settings)
	ln := memnet.NewListener()
	srv := &diam.Server{Handler: machine, Dict: ctx.Parser}
	go srv.Serve(ln)
	type peerT struct {
		avp  *refcodec.Node
		code uint32
		id   uint32
	}
	all := []peerT{
		{peer.U32(peer.AuthApp, 4), peer.AuthApp, 4},
		{peer.U32(peer.AcctApp, 3), peer.AcctApp, 3},
		{peer.U32(peer.AuthApp, 16777251), peer.AuthApp, 16777251},
		{peer.U32(peer.AuthApp, 1), peer.AuthApp, 1},
	}
	conns := make([]*memnet.Conn, K)
	defer func() {
		for _, mc := range conns {
			mc.FeedEOF()
		}
		ln.Close()
		synctest.Wait()
	}()
	for i := range conns {
		mc := memnet.NewConn()
		mc.Local = memnet.Addr{Net: "tcp", Str: "198.51.100.7:3868"}
		mc.Remote = memnet.Addr{Net: "tcp", Str: fmt.Sprintf("10.9.9.%d:1000", i+1)}
		conns[i] = mc
		ln.Offer(mc)
	}
	synctest.Wait()
	for i, mc := range conns {
		p := all[(i+c.I)%len(all)]
		avps := []*refcodec.Node{peer.Str(peer.OriginHost, refcodec.DiameterIdentity, fmt.Sprintf("client%d.example", i)), peer.Str(peer.OriginRealm, refcodec.DiameterIdentity, "example"),
			peer.Addr4(peer.HostIP, 10, 9, 9, byte(i+1)), peer.U32(peer.VendorID, 99), peer.Str(peer.ProductName, refcodec.UTF8String, "peer"), p.avp}
		mc.Feed(peer.Msg(0x80, peer.CodeCE, 0, uint32(100+i), uint32(200+i), avps...))
	}
	synctest.Wait()
	for i, mc := range conns {
		p := all[(i+c.I)%len(all)]
		msgs, _ := peer.SplitMessages(mc.Written())
		if len(msgs) != 1 {
			c.Fail(sig("cea-count"), nil, nil, "connection %d of %d: %d messages in reply to its CER", i, K, len(msgs))
			return
		}
		if rc := peer.FindU32(msgs[0], peer.ResultCode); len(rc) != 1 || rc[0] != 2001 {
			c.Fail(sig("outcome"), msgs[0], nil, "connection %d of %d (application %d): Result-Code %v", i, K, p.id, rc)
			return
		}
		found := false
		for _, id := range peer.FindU32(msgs[0], p.code) {
			found = found || id == p.id
		}
		// (the state machine may also advertise it inside a Vendor-Specific-Application-Id)
		for _, g := range peer.Find(msgs[0], peer.VSApp) {
			if recs, _, err := refcodec.Frame(g); err == nil {
				for _, r := range recs {
					if r.Code == p.code && len(r.Payload) == 4 && binary.BigEndian.Uint32(r.Payload) == p.id {
						found = true
					}
				}
			}
		}
		if !found {
			c.Fail(sig("cea-apps"), msgs[0], nil, "%d first handshakes at the same moment: the success CEA on connection %d does not advertise the shared application %d", K, i, p.id)
			return
		}
		if oh := peer.Find(msgs[0], peer.OriginHost); len(oh) != 1 || string(oh[0]) != "srv.local" {
			c.Fail(sig("cea-identity"), msgs[0], nil, "connection %d: CEA Origin-Host %q", i, oh)
			return
		}
		c.Event("cers", 1)
		c.Event("accepted", 1)
	}
	c.Event("simultaneous_first_handshakes", 1)
}

// what the library logged during the current test (panics recovered while serving)
var c11Log *logCapture

func TestC11(t *testing.T) {
	rec := ev.Open(t, "C11")
	defer rec.Close()
	ctx := defCtx(t)
	al := c11Alphabet()
	var restore func()
	c11Log, restore = captureLog()
	defer restore()
	// every app sequence up to the bound
	maxLen := 3
	if !rec.Quick() {
		// (length 5 is 4.8 million handshakes: some 2.5 h under the race detector on a
		// loaded machine; it is sampled below instead)
		maxLen = 4
	}
	var seqs [][]int
	var build func(cur []int)
	build = func(cur []int) {
		seqs = append(seqs, append([]int(nil), cur...))
		if len(cur) == maxLen {
			return
		}
		for a := range al {
			build(append(cur, a))
		}
	}
	build(nil)
	presence := 12 // host x realm x inband
	rec.Suite("exhaustive", len(seqs)*presence, func(c *ev.Case) {
		si, pi := c.I/presence, c.I%presence
		cc := c11Case{host: pi&1 == 0, realm: pi&2 == 0, inband: pi/4 - 1, inband2: -1, apps: seqs[si]}
		cc.dress = (c.I / 12) % 6
		if cc.inband >= 0 && (c.I/24)%3 != 0 {
			cc.inband2 = (c.I / 72) % 2 // lists {0,0} {0,1} {1,0} {1,1}
		}
		// settings variants rotate with the case index
		cc.nAddrs = c.I % 3
		cc.ipv6 = (c.I/3)%2 == 1
		cc.zeroIDs = (c.I/7)%5 == 0
		c.Class("host=%v/realm=%v/inband=%d/napps=%d", cc.host, cc.realm, cc.inband, len(cc.apps))
		leak := runBubbleWD(t, rec, c, 60*time.Second, func() { runC11(c, ctx, al, cc) })
		if leak != "" && !c.Failed() {
			c.Fail(ev.Sig{"op": "bubble-leak"}, nil, nil, "goroutines left blocked after the scenario: %s; %s", leak, cc.String(al))
		}
	})
	rec.Exhaustive("exhaustive")
	// a fixed sample of the sequences of length 5 (thorough tier)
	n5 := 1
	for range 5 {
		n5 *= len(al)
	}
	rec.Suite("length-5-sample", rec.N(0, 20000)*presence, func(c *ev.Case) {
		k, pi := c.I/presence, c.I%presence
		idx := int((uint64(k)*2654435761 + rec.Seed*97) % uint64(n5))
		apps := make([]int, 5)
		for i := range apps {
			apps[i] = idx % len(al)
			idx /= len(al)
		}
		cc := c11Case{host: pi&1 == 0, realm: pi&2 == 0, inband: pi/4 - 1, inband2: -1, apps: apps}
		cc.dress = (c.I / 12) % 6
		cc.nAddrs = c.I % 3
		cc.ipv6 = (c.I/3)%2 == 1
		c.Class("host=%v/realm=%v/inband=%d/napps=%d", cc.host, cc.realm, cc.inband, len(cc.apps))
		leak := runBubbleWD(t, rec, c, 60*time.Second, func() { runC11(c, ctx, al, cc) })
		if leak != "" && !c.Failed() {
			c.Fail(ev.Sig{"op": "bubble-leak"}, nil, nil, "goroutines left blocked after the scenario: %s; %s", leak, cc.String(al))
		}
	})
	// several connections on one state machine, in every order
	orders := permutations(4)
	rec.Suite("several-connections", len(orders)*rec.N(2, 100), func(c *ev.Case) {
		o := orders[c.I%len(orders)]
		c.Class("several-connections/first=%d", o[0])
		leak := runBubbleWD(t, rec, c, 60*time.Second, func() { runC11Multi(c, ctx, o) })
		if leak != "" && !c.Failed() {
			c.Fail(ev.Sig{"op": "bubble-leak"}, nil, nil, "goroutines left blocked after the scenario: %s", leak)
		}
	})
	// random multisets up to 12
	rec.Suite("simultaneous-first-handshakes", rec.N(400, 40000), func(c *ev.Case) {
		K := 2 + c.I%3
		c.Class("simultaneous/K=%d", K)
		leak := runBubbleWD(t, rec, c, 60*time.Second, func() { runC11Simul(c, ctx, K) })
		if leak != "" && !c.Failed() {
			c.Fail(ev.Sig{"op": "bubble-leak"}, nil, nil, "goroutines left blocked after the scenario: %s", leak)
		}
	})
	// the random multisets also draw application ids far from the dictionary's: supported ids
	// plus multiples of 2^30 / 2^31, the largest non-relay id
	alX := append(append([]appAVP{}, al...),
		appAVP{"Auth(2^30+4)", func() *refcodec.Node { return peer.U32(peer.AuthApp, 1<<30+4) }, ids(1<<30+4, "auth")},
		appAVP{"Auth(2^31+16777251)", func() *refcodec.Node { return peer.U32(peer.AuthApp, 1<<31+16777251) }, ids(1<<31+16777251, "auth")},
		appAVP{"Acct(3*2^30+3)", func() *refcodec.Node { return peer.U32(peer.AcctApp, 3<<30+3) }, ids(3<<30+3, "acct")},
		appAVP{"Auth(2^30)", func() *refcodec.Node { return peer.U32(peer.AuthApp, 1<<30) }, ids(1<<30, "auth")},
		appAVP{"Auth(2^32-2)", func() *refcodec.Node { return peer.U32(peer.AuthApp, 0xFFFFFFFE) }, ids(0xFFFFFFFE, "auth")},
		appAVP{"VS{v,Auth(2^31+4)}", func() *refcodec.Node {
			return peer.Group(peer.VSApp, peer.U32(peer.VendorID, 10415), peer.U32(peer.AuthApp, 1<<31+4))
		}, ids(1<<31+4, "auth")},
	)
	// a server whose dictionary holds only some of the applications (base alone, base plus one
	// embedded file): applications whose own dictionary is missing are not common ones, whatever
	// their parents are (Gx and S6a build on credit control, that on NASREQ)
	alP := append(append([]appAVP{}, al...),
		appAVP{"Auth(Gx)", func() *refcodec.Node { return peer.U32(peer.AuthApp, 16777238) }, ids(16777238, "auth")},
		appAVP{"Auth(S6a)", func() *refcodec.Node { return peer.U32(peer.AuthApp, 16777251) }, ids(16777251, "auth")},
		appAVP{"Auth(NASREQ)", func() *refcodec.Node { return peer.U32(peer.AuthApp, 1) }, ids(1, "auth")},
		appAVP{"VS{v,Auth(Gx)}", func() *refcodec.Node {
			return peer.Group(peer.VSApp, peer.U32(peer.VendorID, 10415), peer.U32(peer.AuthApp, 16777238))
		}, ids(16777238, "auth")},
		appAVP{"Acct(Gx)", func() *refcodec.Node { return peer.U32(peer.AcctApp, 16777238) }, ids(16777238, "acct")},
	)
	var partial []*lib.Ctx
	for _, px := range contexts(t)[1:] {
		if strings.Contains(px.Name, "Credit") { // the probe request (CCR, application 4) must be decodable
			partial = append(partial, px)
		}
	}
	if len(partial) == 0 {
		t.Fatal("no base+credit-control dictionary context")
	}
	rec.Suite("partial-dictionary", len(partial)*len(alP)*2, func(c *ev.Case) {
		px := partial[c.I%len(partial)]
		a := (c.I / len(partial)) % len(alP)
		cc := c11Case{host: true, realm: true, inband: -1, inband2: -1, apps: []int{a}, nAddrs: 1}
		if c.I/(len(partial)*len(alP)) == 1 {
			cc.apps = []int{a, (a + 5) % len(alP)}
		}
		c.Class("partial-dictionary/%s/napps=%d", px.Name, len(cc.apps))
		leak := runBubbleWD(t, rec, c, 60*time.Second, func() { runC11(c, px, alP, cc) })
		if leak != "" && !c.Failed() {
			c.Fail(ev.Sig{"op": "bubble-leak"}, nil, nil, "goroutines left blocked after the scenario: %s; %s", leak, cc.String(alP))
		}
	})
	// a server with a dictionary of its own (Server.Dict) that knows an application the
	// process-wide default dictionary does not: what the local dictionary supports is what
	// counts, for the admission and for the applications the success CEA advertises
	ownXML := `<?xml version="1.0" encoding="UTF-8"?><diameter>
<application id="7777" type="auth" name="Own-Auth"><avp name="Own-A" code="77771" must="M"><data type="Unsigned32"/></avp></application>
<application id="7778" type="acct" name="Own-Acct"><avp name="Own-B" code="77781" must="M"><data type="Unsigned32"/></avp></application></diameter>`
	ownF, err := refdict.Parse("own-applications", ownXML)
	if err != nil {
		t.Fatal(err)
	}
	var ownCtx *lib.Ctx
	{
		fs, _ := lib.Embedded()
		files := []*refdict.File{fs[0]}
		for _, f := range fs[1:] {
			if strings.Contains(f.Name, "Credit") {
				files = append(files, f)
			}
		}
		files = append(files, ownF)
		ownCtx, err = lib.Load("base+credit+own-applications", files...)
		if err != nil {
			t.Fatal(err)
		}
	}
	alOwn := append(append([]appAVP{}, al...),
		appAVP{"Auth(own 7777)", func() *refcodec.Node { return peer.U32(peer.AuthApp, 7777) }, ids(7777, "auth")},
		appAVP{"Acct(own 7778)", func() *refcodec.Node { return peer.U32(peer.AcctApp, 7778) }, ids(7778, "acct")},
		appAVP{"Acct(own 7777, wrong type)", func() *refcodec.Node { return peer.U32(peer.AcctApp, 7777) }, ids(7777, "acct")},
		appAVP{"VS{v,Auth(own 7777)}", func() *refcodec.Node {
			return peer.Group(peer.VSApp, peer.U32(peer.VendorID, 10415), peer.U32(peer.AuthApp, 7777))
		}, ids(7777, "auth")},
	)
	rec.Suite("own-dictionary", len(alOwn)*2, func(c *ev.Case) {
		a := c.I % len(alOwn)
		cc := c11Case{host: true, realm: true, inband: -1, inband2: -1, apps: []int{a}, nAddrs: 1}
		if c.I/len(alOwn) == 1 {
			cc.apps = []int{a, (a + len(al)) % len(alOwn)}
		}
		c.Class("own-dictionary/napps=%d", len(cc.apps))
		leak := runBubbleWD(t, rec, c, 60*time.Second, func() { runC11(c, ownCtx, alOwn, cc) })
		if leak != "" && !c.Failed() {
			c.Fail(ev.Sig{"op": "bubble-leak"}, nil, nil, "goroutines left blocked after the scenario: %s; %s", leak, cc.String(alOwn))
		}
	})
	tlsCases := [][]uint32{nil, {0}, {1}, {1, 0}, {0, 1}, {2}, {1, 1}}
	rec.Suite("over-tls", len(tlsCases)*2, func(c *ev.Case) {
		inband := tlsCases[c.I%len(tlsCases)]
		app := []uint32{4, 999}[c.I/len(tlsCases)]
		c.Class("over-tls/inband=%v/app=%d", inband, app)
		leak := runBubbleWD(t, rec, c, 60*time.Second, func() { runC11TLS(c, ctx, inband, app) })
		if leak != "" && !c.Failed() {
			c.Fail(ev.Sig{"op": "bubble-leak"}, nil, nil, "goroutines left blocked after the scenario: %s", leak)
		}
	})
	al = alX
	rec.Suite("random", rec.N(2000, 1000000), func(c *ev.Case) {
		r := c.R
		cc := c11Case{host: r.IntN(8) != 0, realm: r.IntN(8) != 0, inband: r.IntN(4) - 1, nAddrs: r.IntN(3), ipv6: r.IntN(2) == 0, zeroIDs: r.IntN(4) == 0}
		cc.inbandVS = r.IntN(6) == 0
		cc.inband2, cc.dress = -1, r.IntN(6)
		if cc.inband >= 0 && !cc.inbandVS && r.IntN(3) == 0 {
			cc.inband2 = r.IntN(3)
		}
		for n := r.IntN(13); n > 0; n-- {
			cc.apps = append(cc.apps, r.IntN(len(al)))
		}
		c.Class("random/napps=%d", len(cc.apps))
		leak := runBubbleWD(t, rec, c, 60*time.Second, func() { runC11(c, ctx, al, cc) })
		if leak != "" && !c.Failed() {
			c.Fail(ev.Sig{"op": "bubble-leak"}, nil, nil, "goroutines left blocked after the scenario: %s; %s", leak, cc.String(al))
		}
	})
}

// TestC11Dict: a local dictionary that declares one application id with two
// types (accounting in one file, authentication in a later one). It loads the
// two files into dict.Default, so it runs in a process of its own.
func TestC11Dict(t *testing.T) {
	rec := ev.Open(t, "C11")
	defer rec.Close()
	var restore func()
	c11Log, restore = captureLog()
	defer restore()
	extra := []string{
		`<?xml version="1.0" encoding="UTF-8"?><diameter><application id="9001" type="acct" name="Two-Type-A"></application><application id="9002" type="auth" name="Only-Auth"></application></diameter>`,
		`<?xml version="1.0" encoding="UTF-8"?><diameter><application id="9001" type="auth" name="Two-Type-B"></application><application id="9003" name="Untyped"></application></diameter>`,
	}
	// a state machine created before the dictionary grows (the applications below are loaded
	// afterwards): its decisions follow the local dictionary as it is when the CER arrives
	early := sm.New(&sm.Settings{OriginHost: "srv.local", OriginRealm: "realm.local", VendorID: 13, ProductName: "verif"})
	fs, err := lib.Embedded()
	if err != nil {
		t.Fatal(err)
	}
	files := append([]*refdict.File{}, fs...)
	for i, x := range extra {
		f, err := refdict.Parse(fmt.Sprintf("extra%d", i), x)
		if err != nil {
			t.Fatal(err)
		}
		if err := dict.Default.Load(bytes.NewReader([]byte(x))); err != nil {
			t.Fatal(err)
		}
		files = append(files, f)
	}
	ctx := &lib.Ctx{Dict: gen.NewDict("default+two-type-app", files...), Parser: dict.Default}
	u := func(code, id uint32) func() *refcodec.Node {
		return func() *refcodec.Node { return peer.U32(code, id) }
	}
	al := []appAVP{
		{"Auth9001", u(peer.AuthApp, 9001), ids(9001, "auth")},
		{"Acct9001", u(peer.AcctApp, 9001), ids(9001, "acct")},
		{"Auth9002", u(peer.AuthApp, 9002), ids(9002, "auth")},
		{"Acct9002-wrongtype", u(peer.AcctApp, 9002), ids(9002, "acct")},
		{"Auth9003-untyped", u(peer.AuthApp, 9003), ids(9003, "auth")},
		{"Acct9003-untyped", u(peer.AcctApp, 9003), ids(9003, "acct")},
		{"Auth4", u(peer.AuthApp, 4), ids(4, "auth")},
	}
	var seqs [][]int
	for a := range al {
		seqs = append(seqs, []int{a})
		for b := range al {
			seqs = append(seqs, []int{a, b})
		}
	}
	rec.Suite("application-loaded-after-the-state-machine", 4, func(c *ev.Case) {
		app := []uint32{9002, 9001, 4, 9002}[c.I]
		also4 := c.I == 3
		c.Class("loaded-after-sm-new/app=%d/with-app-4=%v", app, also4)
		leak := runBubbleWD(t, rec, c, 60*time.Second, func() {
			var mu sync.Mutex
			var metas []*smpeer.Metadata
			early.HandleIdx(diam.CommandIndex{AppID: 4, Code: 272, Request: true}, diam.HandlerFunc(func(dc diam.Conn, m *diam.Message) {
				mu.Lock()
				defer mu.Unlock()
				if meta, ok := smpeer.FromContext(dc.Context()); ok {
					metas = append(metas, meta)
				}
			}))
			ln := memnet.NewListener()
			srv := &diam.Server{Handler: early, Dict: dict.Default}
			go srv.Serve(ln)
			mc := memnet.NewConn()
			mc.Local = memnet.Addr{Net: "tcp", Str: "198.51.100.7:3868"}
			ln.Offer(mc)
			defer func() {
				mc.FeedEOF()
				ln.Close()
				synctest.Wait()
			}()
			avps := []*refcodec.Node{peer.Str(peer.OriginHost, refcodec.DiameterIdentity, "client.example"), peer.Str(peer.OriginRealm, refcodec.DiameterIdentity, "example"),
				peer.Addr4(peer.HostIP, 10, 9, 9, 1), peer.U32(peer.VendorID, 99), peer.Str(peer.ProductName, refcodec.UTF8String, "peer"), peer.U32(peer.AuthApp, app)}
			if also4 {
				avps = append(avps, peer.U32(peer.AuthApp, 4))
			}
			mc.Feed(peer.Msg(0x80, peer.CodeCE, 0, 1, 2, avps...))
			mc.Feed(peer.Msg(0xC0, 272, 4, 77, 78, peer.Str(peer.SessionID, refcodec.UTF8String, "s;1")))
			synctest.Wait()
			msgs, _ := peer.SplitMessages(mc.Written())
			sig := func(op string) ev.Sig { return ev.Sig{"op": op, "suite": "loaded-after-sm-new"} }
			if len(msgs) != 1 {
				c.Fail(sig("cea-count"), nil, nil, "%d messages in reply to the CER", len(msgs))
				return
			}
			if rc := peer.FindU32(msgs[0], peer.ResultCode); len(rc) != 1 || rc[0] != 2001 || mc.CloseCount() != 0 {
				c.Fail(sig("rejected-acceptable-cer"), msgs[0], nil, "the local dictionary supports authentication application %d (loaded after sm.New): the CER was answered with Result-Code %v, connection closed %d time(s)", app, rc, mc.CloseCount())
				return
			}
			mu.Lock()
			defer mu.Unlock()
			has := false
			if len(metas) == 1 {
				for _, a := range metas[0].Applications {
					if a == app {
						has = true
					}
				}
			}
			if !has {
				c.Fail(sig("metadata"), msgs[0], nil, "after the success CEA the connection's metadata does not list the shared application %d (metadata seen %d times)", app, len(metas))
				return
			}
			c.Event("accepted", 1)
			c.Event("cers", 1)
		})
		if leak != "" && !c.Failed() {
			c.Fail(ev.Sig{"op": "bubble-leak"}, nil, nil, "goroutines left blocked after the scenario: %s", leak)
		}
	})
	rec.Suite("two-type-application", len(seqs)*2, func(c *ev.Case) {
		cc := c11Case{host: true, realm: true, inband: -1, inband2: -1, apps: seqs[c.I/2], nAddrs: 1, zeroIDs: c.I%2 == 1}
		c.Class("two-type/%s", al[cc.apps[0]].name)
		leak := runBubbleWD(t, rec, c, 60*time.Second, func() { runC11(c, ctx, al, cc) })
		if leak != "" && !c.Failed() {
			c.Fail(ev.Sig{"op": "bubble-leak"}, nil, nil, "goroutines left blocked after the scenario: %s", leak)
		}
	})
	rec.Exhaustive("two-type-application")

	// a dictionary whose load failed part-way (data type with a typo after the application
	// was declared): whatever the state machine makes of that application, its decision
	// must be coherent - if a CER naming only that application is accepted because the
	// application is shared, the success CEA advertises it
	broken := `<?xml version="1.0" encoding="UTF-8"?><diameter><application id="9004" type="auth" name="Broken-Load"><avp name="Broken-First" code="29001" must="M" may="P" must-not="V" may-encrypt="-"><data type="UTF8String"/></avp><avp name="Broken-Second" code="29002" must="M" may="P" must-not="V" may-encrypt="-"><data type="Unsigned23"/></avp></application></diameter>`
	if err := dict.Default.Load(bytes.NewReader([]byte(broken))); err == nil {
		t.Fatal("the broken dictionary was expected to be refused")
	}
	rec.Suite("application-of-failed-load", 4, func(c *ev.Case) {
		withOther := c.I%2 == 1
		c.Class("failed-load/with-supported-app=%v", withOther)
		leak := runBubbleWD(t, rec, c, 60*time.Second, func() {
			machine := sm.New(&sm.Settings{OriginHost: "srv.local", OriginRealm: "realm.local", VendorID: 13, ProductName: "verif"})
			ln := memnet.NewListener()
			srv := &diam.Server{Handler: machine, Dict: dict.Default}
			go srv.Serve(ln)
			mc := memnet.NewConn()
			mc.Local = memnet.Addr{Net: "tcp", Str: "198.51.100.7:3868"}
			ln.Offer(mc)
			defer func() {
				mc.FeedEOF()
				ln.Close()
				synctest.Wait()
			}()
			avps := []*refcodec.Node{peer.Str(peer.OriginHost, refcodec.DiameterIdentity, "client.example"), peer.Str(peer.OriginRealm, refcodec.DiameterIdentity, "example"),
				peer.Addr4(peer.HostIP, 10, 9, 9, 1), peer.U32(peer.VendorID, 99), peer.Str(peer.ProductName, refcodec.UTF8String, "peer"), peer.U32(peer.AuthApp, 9004)}
			if withOther {
				avps = append(avps, peer.U32(peer.AuthApp, 4))
			}
			mc.Feed(peer.Msg(0x80, peer.CodeCE, 0, 1, 2, avps...))
			synctest.Wait()
			msgs, _ := peer.SplitMessages(mc.Written())
			if len(msgs) != 1 {
				c.Fail(ev.Sig{"op": "cea-count", "suite": "failed-load"}, nil, nil, "%d messages in reply to the CER", len(msgs))
				return
			}
			rc := peer.FindU32(msgs[0], peer.ResultCode)
			_, appErr := dict.Default.App(9004, "auth")
			switch {
			case len(rc) == 1 && rc[0] == 5010 && !withOther:
				c.Event("rejected", 1)
			case len(rc) == 1 && rc[0] == 2001:
				adv := map[uint32]bool{}
				for _, id := range peer.FindU32(msgs[0], peer.AuthApp) {
					adv[id] = true
				}
				if withOther && !adv[4] {
					c.Fail(ev.Sig{"op": "cea-apps", "suite": "failed-load"}, msgs[0], nil, "the success CEA does not advertise the shared application 4")
					return
				}
				if appErr == nil && !adv[9004] {
					c.Fail(ev.Sig{"op": "cea-apps", "suite": "failed-load"}, msgs[0], nil, "the dictionary reports application 9004 (auth) as supported after the failed load, the CER named it (alone: %v) and was accepted, but the success CEA advertises only %v", !withOther, keysU32(adv))
					return
				}
				c.Event("accepted", 1)
			default:
				c.Fail(ev.Sig{"op": "outcome", "suite": "failed-load"}, msgs[0], nil, "Result-Code %v for a CER naming the application of a dictionary whose load failed (with application 4: %v)", rc, withOther)
				return
			}
			c.Event("cers", 1)
		})
		if leak != "" && !c.Failed() {
			c.Fail(ev.Sig{"op": "bubble-leak"}, nil, nil, "goroutines left blocked after the scenario: %s", leak)
		}
	})
}
