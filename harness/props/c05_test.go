package props

import (
	"bufio"
	"bytes"
	"errors"
	"fmt"
	"io"
	"net"
	"runtime"
	"sort"
	"sync"
	"testing"
	"testing/iotest"
	"testing/synctest"
	"time"

	"github.com/fiorix/go-diameter/v4/diam"

	"verifharness/ev"
	"verifharness/lib"
	"verifharness/memnet"
	"verifharness/refcodec"
)

var c05Bodies = []int{0, 12, 100, 1000, 1003, 1004, 1005, 1024, 1028, 4076, 4096, 65000}

// seqMsg builds the wire image of message number seq with the given body size
// (a multiple of 4, or 0 / 12); the filler bytes are a function of seq so that
// bytes attributed to a neighbour are visible.
func seqMsg(seq uint32, body int) []byte {
	h := refcodec.Header{Version: 1, Flags: 0x80, Code: 8388000, App: 0, HopByHop: seq, EndToEnd: ^seq}
	var nodes []*refcodec.Node
	switch {
	case body == 0:
	case body < 12:
		panic("body size")
	case body == 12:
		nodes = append(nodes, &refcodec.Node{Code: 9009, Flags: 0x40, Kind: refcodec.Unsigned32, U: uint64(seq)})
	default:
		// one OctetString AVP: 8 + n + pad = body  -> choose n = body-8 minus 0..3
		n := body - 8
		if body%4 != 0 {
			panic("body size must be a multiple of 4")
		}
		n -= int(seq % 4) // exercise every padding
		b := make([]byte, n)
		for i := range b {
			b[i] = byte(seq*31 + uint32(i)*7 + 1)
		}
		nodes = append(nodes, &refcodec.Node{Code: 9001, Flags: 0x40, Kind: refcodec.OctetString, B: b})
	}
	return refcodec.EncodeMessage(h, nodes)
}

// seqMsgMulti: a body of the given size made of OctetString AVPs of 1008 bytes
// (the last one takes what is left).
func seqMsgMulti(seq uint32, body int) []byte {
	h := refcodec.Header{Version: 1, Flags: 0x80, Code: 8388000, App: 0, HopByHop: seq, EndToEnd: ^seq}
	var nodes []*refcodec.Node
	for left, k := body, 0; left > 0; k++ {
		sz := 1008
		if left < 1008+12 {
			sz = left
		}
		b := make([]byte, sz-8)
		for i := range b {
			b[i] = byte(seq*31 + uint32(i)*7 + uint32(k))
		}
		nodes = append(nodes, &refcodec.Node{Code: 9001, Flags: 0x40, Kind: refcodec.OctetString, B: b})
		left -= sz
	}
	return refcodec.EncodeMessage(h, nodes)
}

func bodySize(r interface{ IntN(int) int }, small bool) int {
	if small {
		return []int{0, 12, 16, 20, 24}[r.IntN(5)]
	}
	b := c05Bodies[r.IntN(len(c05Bodies))]
	return (b + 3) &^ 3
}

// readAll reads messages from rd until an error and returns their
// re-serialisations.
func readAll(rd io.Reader, ctx *lib.Ctx, after func(k int)) (out [][]byte, err error, pan string) {
	p, bad := guard(func() {
		for {
			var m *diam.Message
			m, err = diam.ReadMessage(rd, ctx.Parser)
			if err != nil {
				return
			}
			b, e := m.Serialize()
			if e != nil {
				err = fmt.Errorf("re-serialise: %v", e)
				return
			}
			out = append(out, b)
			if after != nil {
				after(len(out))
			}
		}
	})
	if bad {
		pan = p
	}
	return
}

func randCuts(c *ev.Case, n int) []int {
	r := c.R
	switch r.IntN(5) {
	case 0: // all 1-byte reads
		cuts := make([]int, 0, n)
		for i := 1; i < n; i++ {
			cuts = append(cuts, i)
		}
		return cuts
	case 1: // one segment
		return nil
	default:
		k := 1 + r.IntN(12)
		cuts := make([]int, 0, k)
		for i := 0; i < k; i++ {
			// bias towards header boundaries
			if r.IntN(3) == 0 {
				cuts = append(cuts, r.IntN(n+1))
			} else {
				cuts = append(cuts, r.IntN(n+1)&^3+r.IntN(3)-1)
			}
		}
		sort.Ints(cuts)
		return cuts
	}
}

// checkStream offers one (stream, cuts) pair to ReadMessage over a plain
// fragmenting reader and over bufio, and applies the oracle.
func checkStream(c *ev.Case, ctx *lib.Ctx, msgs [][]byte, cuts []int, trunc int, how string) bool {
	var stream []byte
	for _, m := range msgs {
		stream = append(stream, m...)
	}
	full := len(stream)
	if trunc >= 0 {
		stream = stream[:trunc]
	}
	// expected whole messages and whether the end falls on a boundary
	var bounds []int
	off := 0
	for _, m := range msgs {
		off += len(m)
		bounds = append(bounds, off)
	}
	whole := 0
	for _, b := range bounds {
		if b <= len(stream) {
			whole++
		}
	}
	onBoundary := len(stream) == 0 || (whole > 0 && bounds[whole-1] == len(stream))
	sig := func(op string) ev.Sig { return ev.Sig{"op": op, "how": how} }
	desc := func() string {
		return fmt.Sprintf("%d messages (sizes %v), %d of %d bytes delivered, cuts %v", len(msgs), sizes(msgs), len(stream), full, short(cuts))
	}

	// (a) plain reader: byte-exact consumption
	fr := memnet.NewFragReader(stream, cuts)
	consumedOK := true
	var consumedMsg string
	got, err, pan := readAll(fr, ctx, func(k int) {
		if k <= len(bounds) && fr.Delivered != bounds[k-1] && consumedOK {
			consumedOK = false
			consumedMsg = fmt.Sprintf("after message %d the reader had consumed %d bytes, the declared lengths sum to %d", k, fr.Delivered, bounds[k-1])
		}
	})
	if pan != "" {
		c.Fail(ev.Sig{"op": "panic", "site": panicSite(pan)}, stream, nil, "ReadMessage panicked: %s; %s", pan, desc())
		return false
	}
	if !consumedOK {
		c.Fail(sig("consumed-bytes"), stream, nil, "%s; %s", consumedMsg, desc())
		return false
	}
	if d := cmpSeq(got, msgs[:whole]); d != "" {
		c.Fail(sig("sequence"), stream, nil, "plain reader: %s; %s", d, desc())
		return false
	}
	if onBoundary && err != io.EOF {
		c.Fail(sig("eof-between-messages"), stream, nil, "stream ended between messages but the error is %v, not io.EOF; %s", err, desc())
		return false
	}
	if !onBoundary && (err == nil || err == io.EOF) {
		c.Fail(sig("eof-inside-message"), stream, nil, "stream ended inside a message but the error is %v; %s", err, desc())
		return false
	}
	// (b) through bufio, as the connection does
	br := bufio.NewReader(memnet.NewFragReader(stream, cuts))
	got2, err2, pan := readAll(br, ctx, nil)
	if pan != "" {
		c.Fail(ev.Sig{"op": "panic", "site": panicSite(pan)}, stream, nil, "ReadMessage over bufio panicked: %s", pan)
		return false
	}
	if d := cmpSeq(got2, msgs[:whole]); d != "" {
		c.Fail(sig("sequence-bufio"), stream, nil, "bufio reader: %s; %s", d, desc())
		return false
	}
	if onBoundary != (err2 == io.EOF) {
		c.Fail(sig("eof-bufio"), stream, nil, "bufio reader: end on boundary=%v but error %v; %s", onBoundary, err2, desc())
		return false
	}
	// (c) a plain reader that hands over its last bytes together with the end of the stream
	//     (n > 0 with io.EOF in one Read, as the io.Reader contract allows)
	if onBoundary && len(stream) > 0 {
		got3, err3, pan := readAll(iotest.DataErrReader(memnet.NewFragReader(stream, cuts)), ctx, nil)
		if pan != "" {
			c.Fail(ev.Sig{"op": "panic", "site": panicSite(pan)}, stream, nil, "ReadMessage panicked: %s", pan)
			return false
		}
		if d := cmpSeq(got3, msgs[:whole]); d != "" || err3 != io.EOF {
			c.Fail(sig("sequence-data-with-eof"), stream, nil, "a reader that returns its final bytes together with io.EOF: %s (error after the last message: %v); %s", d, err3, desc())
			return false
		}
	}
	c.Event("streams_checked", 1)
	c.Event("messages_delivered", whole*2)
	return true
}

func sizes(msgs [][]byte) []int {
	var s []int
	for _, m := range msgs {
		s = append(s, len(m))
	}
	return s
}

func short(c []int) []int {
	if len(c) > 16 {
		return append(append([]int{}, c[:16]...), -len(c))
	}
	return c
}

// c05Unpad removes the padding of the last AVP of a message image and lowers the declared
// message length accordingly (a length that is not a multiple of four: some peers leave the
// final padding out; the decoder accepts it).  ok is false when there is nothing to remove.
func c05Unpad(m []byte) (out []byte, ok bool) {
	recs, _, err := refcodec.Frame(m[20:])
	if err != nil || len(recs) == 0 {
		return m, false
	}
	pad := (4 - int(recs[len(recs)-1].Length)%4) % 4
	if pad == 0 {
		return m, false
	}
	out = append([]byte(nil), m[:len(m)-pad]...)
	out[1], out[2], out[3] = byte(len(out)>>16), byte(len(out)>>8), byte(len(out))
	return out, true
}

// c05Canon: the image the library emits for a message read from image m (final padding restored)
func c05Canon(m []byte) []byte {
	if len(m)%4 == 0 {
		return m
	}
	out := append([]byte(nil), m...)
	for len(out)%4 != 0 {
		out = append(out, 0)
	}
	out[1], out[2], out[3] = byte(len(out)>>16), byte(len(out)>>8), byte(len(out))
	return out
}

func cmpSeq(got, want [][]byte) string {
	canon := make([][]byte, len(want))
	for i := range want {
		canon[i] = c05Canon(want[i])
		if len(want[i])%4 != 0 && i < len(got) && len(got[i]) == len(canon[i]) {
			// read from an image without its final padding: the header of the message keeps the
			// length that was declared, the emitted body has its padding back; what identifies
			// the message is everything but the length field
			g := append([]byte(nil), got[i]...)
			copy(g[1:4], canon[i][1:4])
			got[i] = g
		}
	}
	want = canon
	if len(got) != len(want) {
		return fmt.Sprintf("%d messages returned, %d were completely delivered", len(got), len(want))
	}
	for i := range got {
		if !bytes.Equal(got[i], want[i]) {
			return fmt.Sprintf("message %d differs from what was sent at byte %d", i, firstDiff(got[i], want[i]))
		}
	}
	return ""
}

func TestC05(t *testing.T) {
	rec := ev.Open(t, "C05")
	defer rec.Close()
	ctx := genCtx(t)

	// 1. short streams: every 1-cut and every 2-cut
	rec.Suite("short-all-cuts", rec.N(24, 400), func(c *ev.Case) {
		r := c.R
		nm := 1 + r.IntN(3)
		var msgs [][]byte
		for i := 0; i < nm; i++ {
			msgs = append(msgs, seqMsg(uint32(c.I*16+i+1), bodySize(r, true)))
		}
		total := 0
		for _, m := range msgs {
			total += len(m)
		}
		c.Class("short/msgs=%d", nm)
		if !checkStream(c, ctx, msgs, nil, -1, "one-segment") {
			return
		}
		for a := 1; a < total; a++ {
			if !checkStream(c, ctx, msgs, []int{a}, -1, "1-cut") {
				return
			}
			if total <= 100 || a%5 == 0 {
				for b := a + 1; b < total; b++ {
					if !checkStream(c, ctx, msgs, []int{a, b}, -1, "2-cut") {
						return
					}
				}
			}
		}
		// truncation at every offset
		for tr := 0; tr <= total; tr++ {
			if !checkStream(c, ctx, msgs, []int{tr / 2}, tr, "truncated") {
				return
			}
		}
	})

	// 2. long streams, random cut sets, random truncation
	rec.Suite("long-random-cuts", rec.N(3000, 300000), func(c *ev.Case) {
		r := c.R
		nm := 1 + r.IntN(8)
		var msgs [][]byte
		cls := ""
		for i := 0; i < nm; i++ {
			b := bodySize(r, false)
			if b > 5000 && r.IntN(3) != 0 {
				b = 1024
			}
			m := seqMsg(uint32(c.I*16+i+1), b)
			if (c.I/8)%3 == 1 && r.IntN(2) == 0 {
				// a declared length that is not a multiple of four (final padding left out)
				if u, ok := c05Unpad(m); ok {
					m = u
					c.Class("long/unpadded-last-avp/len%%4=%d", len(m)%4)
				}
			}
			msgs = append(msgs, m)
			if i < 2 {
				cls += fmt.Sprintf("%d,", b)
			}
		}
		total := 0
		for _, m := range msgs {
			total += len(m)
		}
		c.Class("long/first-bodies=%s", cls)
		cuts := randCuts(c, total)
		trunc := -1
		if r.IntN(3) == 0 {
			trunc = r.IntN(total + 1)
		}
		checkStream(c, ctx, msgs, cuts, trunc, "random")
	})

	// 1c. the message after an undecodable one: messages whose declared length is right but
	//     whose body cannot be decoded (an AVP length beyond the body, below the AVP header,
	//     or a truncated vendor field) sit between well-formed ones; a reader that goes on
	//     after the error finds every following message whole, at its own offset
	rec.Suite("after-an-undecodable-message", rec.N(1500, 100000), func(c *ev.Case) {
		r := c.R
		sig := func(op string) ev.Sig { return ev.Sig{"op": op, "suite": "after-an-undecodable-message"} }
		nm := 2 + r.IntN(7)
		var msgs [][]byte
		var bad []bool
		kinds := ""
		for i := 0; i < nm; i++ {
			m := seqMsg(uint32(c.I*16+i+1), bodySize(r, r.IntN(2) == 0))
			isBad := i < nm-1 && r.IntN(3) == 0 && len(m) >= 32
			if isBad {
				m = append([]byte(nil), m...)
				k := r.IntN(4)
				switch k {
				case 0: // the first AVP claims more than the body holds
					n := len(m) - 20 + 4 + r.IntN(64)&^3
					m[25], m[26], m[27] = byte(n>>16), byte(n>>8), byte(n)
				case 1: // the first AVP claims less than its own header
					m[25], m[26], m[27] = 0, 0, byte(r.IntN(8))
				case 2: // V bit set on a final AVP too short for a vendor field
					m = append(m[:20], 0, 0, 0x23, 0x29, 0x80, 0, 0, 8)
					m[1], m[2], m[3] = 0, 0, byte(len(m))
				case 3: // garbage body of the declared size
					for j := 20; j < len(m); j++ {
						m[j] = byte(r.IntN(256))
					}
				}
				kinds += fmt.Sprintf("%d", k)
			}
			msgs = append(msgs, m)
			bad = append(bad, isBad)
		}
		c.Class("after-undecodable/kinds=%s", kinds)
		var stream []byte
		for _, m := range msgs {
			stream = append(stream, m...)
		}
		cuts := randCuts(c, len(stream))
		for pass, mk := range []func() io.Reader{
			func() io.Reader { return memnet.NewFragReader(stream, cuts) },
			func() io.Reader { return bufio.NewReader(memnet.NewFragReader(stream, cuts)) },
		} {
			rd := mk()
			var got [][]byte
			var last error
			p, pan := guard(func() {
				for k := 0; k < nm+2; k++ {
					m, err := diam.ReadMessage(rd, ctx.Parser)
					last = err
					if err == io.EOF || err == io.ErrUnexpectedEOF {
						return
					}
					if err != nil {
						got = append(got, nil)
						continue
					}
					b, e := m.Serialize()
					if e != nil {
						b = nil
					}
					got = append(got, b)
				}
			})
			if pan {
				c.Fail(ev.Sig{"op": "panic", "site": panicSite(p)}, stream, nil, "ReadMessage panicked: %s", p)
				return
			}
			if len(got) != nm || last != io.EOF {
				c.Fail(sig("count"), stream, nil, "pass %d: %d messages of sizes %v (undecodable: %v) in one stream: %d reads returned before the end, last error %v (want %d and io.EOF)", pass, nm, sizes(msgs), bad, len(got), last, nm)
				return
			}
			for i := range msgs {
				if bad[i] {
					if got[i] == nil {
						c.Event("undecodable_rejected", 1)
					}
					continue
				}
				if !bytes.Equal(got[i], msgs[i]) {
					c.Fail(sig("following-message"), stream, nil, "pass %d: message %d of %v (undecodable: %v) was not returned as sent after an undecodable message earlier in the stream (got %d bytes, first difference at %d)", pass, i, sizes(msgs), bad, len(got[i]), firstDiff(got[i], msgs[i]))
					return
				}
			}
		}
		c.Event("streams_checked", 1)
		c.Event("messages_delivered", nm)
	})

	// 2a. a stream that goes on for long: 70 000 small messages (more than any 16-bit counter
	//     holds) in one piece or cut every 1000 bytes
	rec.Suite("very-long-stream", rec.N(2, 8), func(c *ev.Case) {
		var msgs [][]byte
		for i := uint32(1); i <= 70000; i++ {
			msgs = append(msgs, seqMsg(i+uint32(c.I)<<20, []int{0, 12, 16}[i%3]))
		}
		var cuts []int
		if c.I%2 == 1 {
			total := 0
			for _, m := range msgs {
				total += len(m)
			}
			for k := 1000; k < total; k += 1000 {
				cuts = append(cuts, k)
			}
		}
		c.Class("very-long-stream/cut=%v", cuts != nil)
		checkStream(c, ctx, msgs, cuts, -1, "very-long")
	})

	// 2b. one body above the 64 KiB growth step of the body reader, placed
	//     first, in the middle or last among small messages
	//     (up to the largest message the 24-bit length field allows: 0xFFFFFC bytes)
	bigs := []int{65532, 65536, 65540, 66000, 70000, 100000, 131072, 131076, 200000, 1 << 20, 1<<20 + 4, 4 << 20, 0xFFFFFC - 20}
	rec.Suite("big-bodies", len(bigs)*3*rec.N(4, 80), func(c *ev.Case) {
		big := bigs[c.I%len(bigs)]
		pos := (c.I / len(bigs)) % 3
		if big >= 4<<20 && (c.I/(len(bigs)*3))%4 != 0 {
			return // the largest sizes: a quarter of the repetitions
		}
		var msgs [][]byte
		n := 6 + c.R.IntN(20)
		at := []int{0, n / 2, n - 1}[pos]
		multi := (c.I/(len(bigs)*3))%2 == 1 // the big body is one AVP, or many AVPs of 1008 bytes
		bigStart := 0
		for i := 0; i < n; i++ {
			b := bodySize(c.R, true)
			if i == at {
				b = big
				for _, m := range msgs {
					bigStart += len(m)
				}
				if multi {
					msgs = append(msgs, seqMsgMulti(uint32(c.I*64+i+1), b))
					continue
				}
			}
			msgs = append(msgs, seqMsg(uint32(c.I*64+i+1), b))
		}
		total := 0
		for _, m := range msgs {
			total += len(m)
		}
		c.Class("big-body=%d/pos=%d/multi=%v", big, pos, multi)
		// the stream may end inside the big message: on an AVP boundary of its body
		// (nothing in the bytes delivered so far says that more should follow, only
		// the declared length does) or anywhere else
		if tr := c.R.IntN(4); tr >= 2 {
			trunc := bigStart + 20 + 1008*c.R.IntN(big/1008+1)
			if tr == 3 {
				trunc = bigStart + c.R.IntN(20+big)
			}
			var cuts []int
			if c.R.IntN(2) == 0 {
				if cuts = randCuts(c, trunc); len(cuts) > 4000 {
					cuts = nil
				}
			}
			c.Class("big-body-truncated/multi=%v/avp-boundary=%v", multi, tr == 2)
			checkStream(c, ctx, msgs, cuts, trunc, "big-truncated")
			return
		}
		var cuts []int
		if c.R.IntN(2) == 0 {
			cuts = randCuts(c, total)
			if len(cuts) > 4000 {
				cuts = nil
			}
		}
		checkStream(c, ctx, msgs, cuts, -1, "big")
	})

	// 3. declared lengths 0..19 followed by more data: rejected, nothing read
	//    beyond the 20 header bytes
	rec.Suite("declared-length-below-header", 20*6, func(c *ev.Case) {
		l := c.I % 20
		variant := c.I / 20
		c.Class("declared=%d", l)
		good := seqMsg(uint32(c.I+1), 100)
		bad := append([]byte(nil), seqMsg(7, 24)...)
		bad[1], bad[2], bad[3] = 0, 0, byte(l)
		var stream []byte
		prefix := 0
		if variant%2 == 1 {
			stream = append(stream, good...)
			prefix = 1
		}
		stream = append(stream, bad...)
		stream = append(stream, good...)
		stream = append(stream, good...)
		var cuts []int
		if variant >= 2 {
			cuts = randCuts(c, len(stream))
		}
		fr := memnet.NewFragReader(stream, cuts)
		got, err, pan := readAll(fr, ctx, nil)
		hdrEnd := prefix*len(good) + 20
		switch {
		case pan != "":
			c.Fail(ev.Sig{"op": "panic", "site": panicSite(pan)}, stream, nil, "ReadMessage panicked on declared length %d: %s", l, pan)
		case len(got) != prefix:
			c.Fail(ev.Sig{"op": "short-length-accepted"}, stream, nil, "declared message length %d: %d messages returned, expected %d before the error", l, len(got), prefix)
		case err == nil || err == io.EOF:
			c.Fail(ev.Sig{"op": "short-length-accepted"}, stream, nil, "declared message length %d: error is %v", l, err)
		case fr.Delivered > hdrEnd:
			c.Fail(ev.Sig{"op": "short-length-read-further"}, stream, nil, "declared message length %d: %d bytes were consumed beyond the 20-byte header before rejecting (err: %v)", l, fr.Delivered-hdrEnd, err)
		case requestedAfter(fr, hdrEnd) > 0:
			c.Fail(ev.Sig{"op": "short-length-read-further"}, stream, nil, "declared message length %d: %d more bytes were requested from the source after the header (err: %v)", l, requestedAfter(fr, hdrEnd), err)
		default:
			c.Event("short_lengths_rejected", 1)
		}
	})
	rec.Exhaustive("declared-length-below-header")

	// 4. through a real connection (diam.NewConn over memnet) with a collecting handler
	rec.Suite("conn", rec.N(400, 20000), func(c *ev.Case) {
		r := c.R
		nm := 1 + r.IntN(8)
		var msgs [][]byte
		for i := 0; i < nm; i++ {
			b := bodySize(r, r.IntN(2) == 0)
			if b > 5000 && r.IntN(4) != 0 {
				b = 1028
			}
			msgs = append(msgs, seqMsg(uint32(c.I*16+i+1), b))
		}
		var stream []byte
		for _, m := range msgs {
			stream = append(stream, m...)
		}
		cuts := randCuts(c, len(stream))
		// how the stream ends: 0 the end is signalled after the reader drained the bytes;
		// 1 the Read that returns the final bytes also returns io.EOF (n > 0 with an error, as
		// io.Reader allows and crypto/tls does); 2 the same with a read error; 3 everything is
		// queued before the reader starts, EOF on a Read of its own
		ending := (c.I / 8) % 4
		notify := (c.I/32)%2 == 1 // the first handler invocation arms CloseNotify (reads go through the pipe)
		c.Class("conn/msgs=%d/frags=%d", nm, min(len(cuts)+1, 20))
		c.Class("conn/ending=%d/close-notify=%v", ending, notify)
		mc := memnet.NewConn()
		var mu sync.Mutex
		var got [][]byte
		var cn <-chan struct{}
		h := diam.HandlerFunc(func(dc diam.Conn, m *diam.Message) {
			b, _ := m.Serialize()
			mu.Lock()
			got = append(got, b)
			if notify && cn == nil {
				cn = dc.(diam.CloseNotifier).CloseNotify()
			}
			mu.Unlock()
		})
		if ending != 0 {
			mc.ErrWithData = ending != 3
			mc.FeedSplit(stream, cuts)
			if ending == 2 {
				mc.FeedErr(errors.New("memnet: connection reset"))
			} else {
				mc.FeedEOF()
			}
		}
		_, err := diam.NewConn(mc, "peer", h, ctx.Parser)
		if err != nil {
			c.Fail(ev.Sig{"op": "setup"}, nil, nil, "NewConn: %v", err)
			return
		}
		if ending == 0 {
			mc.FeedSplit(stream, cuts)
			mc.FeedEOF()
		}
		select {
		case <-mc.Closed():
		case <-time.After(60 * time.Second):
			c.Fail(ev.Sig{"op": "watchdog"}, stream, nil, "connection not closed 60 s after EOF")
			return
		}
		mu.Lock()
		defer mu.Unlock()
		if d := cmpSeq(got, msgs); d != "" {
			c.Fail(ev.Sig{"op": "sequence", "how": "conn", "ending": ending}, stream, nil, "through a connection (ending %d, CloseNotify armed %v): %s; cuts %v", ending, notify, d, short(cuts))
			return
		}
		c.Event("conn_streams", 1)
		c.Event("messages_delivered", len(got))
		if c.WantSample() {
			c.Sample(map[string]any{"via": "diam.NewConn over memnet", "message_sizes": sizes(msgs), "cuts": short(cuts)})
		}
	})

	// 4b. several connections reading at the same time, their fragments interleaved:
	//     a message must never contain bytes that arrived on another connection
	rec.Suite("conn-concurrent", rec.N(300, 20000), func(c *ev.Case) {
		r := c.R
		K := 2 + r.IntN(3)
		closeNotify := c.I%2 == 1
		bigFrags := (c.I/2)%2 == 1 // fragments of several KiB: pipelined bursts beyond the 4 KiB bufio buffer
		c.Class("conn-concurrent/K=%d/close-notify=%v/big-fragments=%v", K, closeNotify, bigFrags)
		type side struct {
			mc   *memnet.Conn
			msgs [][]byte
			mu   sync.Mutex
			got  [][]byte
		}
		sides := make([]*side, K)
		var streams [][]byte
		for i := range sides {
			sd := &side{mc: memnet.NewConn()}
			nm := 2 + r.IntN(6)
			if bigFrags {
				nm += 6
			}
			var st []byte
			for k := 0; k < nm; k++ {
				b := []int{12, 100, 1000, 1024, 1028, 4096, 2000}[r.IntN(7)]
				m := seqMsg(uint32(i)<<20|uint32(c.I%1000)<<8|uint32(k+1), b)
				sd.msgs = append(sd.msgs, m)
				st = append(st, m...)
			}
			streams = append(streams, st)
			h := diam.HandlerFunc(func(dc diam.Conn, m *diam.Message) {
				b, _ := m.Serialize()
				sd.mu.Lock()
				first := len(sd.got) == 0
				sd.got = append(sd.got, b)
				sd.mu.Unlock()
				if first && closeNotify {
					// from here on the connection's bytes pass through the CloseNotify pipe
					if cn, ok := dc.(diam.CloseNotifier); ok {
						cn.CloseNotify()
					}
				}
			})
			if _, err := diam.NewConn(sd.mc, "peer", h, ctx.Parser); err != nil {
				c.Fail(ev.Sig{"op": "setup"}, nil, nil, "NewConn: %v", err)
				return
			}
			sides[i] = sd
		}
		// round-robin fragments of a few dozen bytes, so that every body is read in pieces
		off := make([]int, K)
		for more := true; more; {
			more = false
			for i := range sides {
				if off[i] < len(streams[i]) {
					step := 17 + r.IntN(60)
					if bigFrags {
						step = 3000 + r.IntN(9000)
					}
					end := min(off[i]+step, len(streams[i]))
					sides[i].mc.Feed(streams[i][off[i]:end])
					off[i] = end
					more = true
					if r.IntN(3) == 0 {
						runtime.Gosched()
					}
				}
			}
		}
		for _, sd := range sides {
			sd.mc.FeedEOF()
		}
		for i, sd := range sides {
			select {
			case <-sd.mc.Closed():
			case <-time.After(60 * time.Second):
				c.Fail(ev.Sig{"op": "watchdog"}, nil, nil, "connection %d not closed 60 s after EOF", i)
				return
			}
			sd.mu.Lock()
			d := cmpSeq(sd.got, sd.msgs)
			sd.mu.Unlock()
			if d != "" {
				c.Fail(ev.Sig{"op": "sequence", "how": "concurrent-connections"}, streams[i], nil, "connection %d of %d reading at the same time: %s", i, K, d)
				return
			}
			c.Event("messages_delivered", len(sd.msgs))
		}
		c.Event("conn_streams", K)
	})

	// 4c. a server with a read timeout: fragments arrive with pauses, one of them
	//     longer than the timeout, at every kind of position. Whatever the server
	//     does about the timeout, what it hands to the handler must be a prefix
	//     of the messages sent - never a message made of bytes from the middle.
	rec.Suite("read-timeout", rec.N(400, 20000), func(c *ev.Case) {
		r := c.R
		nm := 2 + r.IntN(4)
		var msgs [][]byte
		var stream []byte
		for k := 0; k < nm; k++ {
			m := seqMsg(uint32(c.I*16+k+1), []int{12, 56, 100, 1028}[r.IntN(4)])
			msgs = append(msgs, m)
			stream = append(stream, m...)
		}
		// where the long pause happens: inside a header, inside a body, on a boundary, or nowhere
		where := r.IntN(4)
		victim := r.IntN(nm)
		start := 0
		for k := 0; k < victim; k++ {
			start += len(msgs[k])
		}
		var pauseAt int
		switch where {
		case 0:
			pauseAt = start + 1 + r.IntN(19)
		case 1:
			pauseAt = start + 20 + r.IntN(len(msgs[victim])-20)
		case 2:
			pauseAt = start
		default:
			pauseAt = -1
		}
		// half of the header pauses hit a message built so that its bytes from
		// offset 16 on are themselves a well-formed message (End-to-End id =
		// version 1 + length, first AVP code = flags + command 257): a reader
		// that resumes framing in the middle would deliver it
		trap := false
		if where == 0 && r.IntN(2) == 0 {
			inner := 20 + 8 + 24 // inner header (16 bytes of outer AVP 1 + ...) see below
			_ = inner
			body := append(rawHeader(0x80000101, 0x40, 0, 16), 0, 0, 0, 9, 0, 0, 0, 9)
			body = append(body, rawHeader(9001, 0x40, 0, 8+12)...)
			body = append(body, []byte("trap-payload")...)
			L := 20 + len(body)
			h := refcodec.Header{Version: 1, Length: uint32(L), Flags: 0x80, Code: 8388000, HopByHop: uint32(c.I*16 + victim + 1), EndToEnd: 0x01000000 | uint32(L-16)}
			tm := append(refcodec.EncodeHeader(h), body...)
			msgs[victim] = tm
			stream = nil
			for _, m := range msgs {
				stream = append(stream, m...)
			}
			start = 0
			for k := 0; k < victim; k++ {
				start += len(msgs[k])
			}
			pauseAt = start + 16
			trap = true
		}
		c.Class("read-timeout/where=%d/trap=%v", where, trap)
		var got [][]byte
		var mu sync.Mutex
		leak := runBubbleWD(t, rec, c, 60*time.Second, func() {
			mc := memnet.NewConn()
			ln := memnet.NewListener()
			srv := &diam.Server{Handler: diam.HandlerFunc(func(_ diam.Conn, m *diam.Message) {
				b, _ := m.Serialize()
				mu.Lock()
				got = append(got, b)
				mu.Unlock()
			}), Dict: ctx.Parser, ReadTimeout: 100 * time.Millisecond}
			go srv.Serve(ln)
			ln.Offer(mc)
			off := 0
			for off < len(stream) {
				end := min(off+7+r.IntN(40), len(stream))
				if pauseAt > off && pauseAt < end {
					end = pauseAt
				}
				if off == pauseAt {
					time.Sleep(350 * time.Millisecond) // longer than the read timeout
				} else {
					time.Sleep(time.Duration(r.IntN(1000)) * time.Microsecond)
				}
				mc.Feed(stream[off:end])
				off = end
			}
			time.Sleep(time.Second)
			synctest.Wait()
			mc.FeedEOF()
			ln.Close()
			time.Sleep(time.Second)
			synctest.Wait()
		})
		if leak != "" && !c.Failed() {
			c.Fail(ev.Sig{"op": "bubble-leak"}, nil, nil, "goroutines left blocked: %s", leak)
			return
		}
		mu.Lock()
		defer mu.Unlock()
		if len(got) > len(msgs) {
			c.Fail(ev.Sig{"op": "sequence", "how": "read-timeout"}, stream, nil, "%d messages reached the handler, %d were sent", len(got), len(msgs))
			return
		}
		for i := range got {
			if !bytes.Equal(got[i], msgs[i]) {
				c.Fail(ev.Sig{"op": "sequence", "how": "read-timeout"}, stream, nil, "with a read timeout of 100 ms and a 350 ms pause at byte %d (kind %d): message %d handed to the handler is not message %d that was sent (%d bytes vs %d)", pauseAt, where, i, i, len(got[i]), len(msgs[i]))
				return
			}
		}
		if where == 3 && len(got) != len(msgs) {
			c.Fail(ev.Sig{"op": "sequence", "how": "read-timeout"}, stream, nil, "no pause exceeded the timeout but only %d of %d messages were delivered", len(got), len(msgs))
			return
		}
		c.Event("timeout_scenarios", 1)
	})

	// 4c'. the same server with CloseNotify requested by its handler (reads then go through the
	//     copy routine) and handlers slower than the read timeout: fragments arrive while a
	//     handler runs, and the transport hands some of them over together with a time-out (the
	//     deadline passed while the handler ran; n > 0 with a net.Error that is a timeout, as the
	//     io.Reader contract allows).  A deadline that expires while the handler runs is not an
	//     error of the peer: every message sent is delivered, in order, made of its own bytes.
	rec.Suite("closenotify-data-with-timeout", rec.N(300, 20000), func(c *ev.Case) {
		r := c.R
		nm := 2 + r.IntN(4)
		var msgs [][]byte
		var stream []byte
		for k := 0; k < nm; k++ {
			m := seqMsg(uint32(c.I*16+k+1), []int{12, 56, 100, 1028}[r.IntN(4)])
			msgs = append(msgs, m)
			stream = append(stream, m...)
		}
		marked := 0
		var got [][]byte
		var mu sync.Mutex
		leak := runBubbleWD(t, rec, c, 60*time.Second, func() {
			mc := memnet.NewConn()
			ln := memnet.NewListener()
			started := make(chan struct{}, 16)
			srv := &diam.Server{Handler: diam.HandlerFunc(func(cn diam.Conn, m *diam.Message) {
				cn.(diam.CloseNotifier).CloseNotify()
				b, _ := m.Serialize()
				mu.Lock()
				got = append(got, b)
				mu.Unlock()
				started <- struct{}{}
				time.Sleep(250 * time.Millisecond) // longer than the read timeout
			}), Dict: ctx.Parser, ReadTimeout: 100 * time.Millisecond}
			go srv.Serve(ln)
			ln.Offer(mc)
			mc.Feed(msgs[0])
			<-started
			// the first handler runs (and has asked for CloseNotify): the rest arrives now
			time.Sleep(120 * time.Millisecond)
			for off := len(msgs[0]); off < len(stream); {
				end := min(off+7+r.IntN(200), len(stream))
				if r.IntN(2) == 0 {
					mc.FeedWithTimeout(stream[off:end])
					marked++
				} else {
					mc.Feed(stream[off:end])
				}
				off = end
			}
			time.Sleep(time.Duration(nm) * 300 * time.Millisecond)
			synctest.Wait()
			mc.FeedEOF()
			ln.Close()
			time.Sleep(time.Second)
			synctest.Wait()
		})
		if leak != "" && !c.Failed() {
			c.Fail(ev.Sig{"op": "bubble-leak"}, nil, nil, "goroutines left blocked: %s", leak)
			return
		}
		c.Class("closenotify-data-with-timeout/marked=%d", min(marked, 6))
		mu.Lock()
		defer mu.Unlock()
		if d := cmpSeq(got, msgs); d != "" {
			c.Fail(ev.Sig{"op": "sequence", "how": "closenotify-data-with-timeout"}, stream, nil, "read timeout 100 ms, handlers of 250 ms that asked for CloseNotify, %d of the fragments handed over together with a time-out while a handler ran: %s (sizes %v)", marked, d, sizes(msgs))
			return
		}
		c.Event("timeout_scenarios", 1)
		c.Event("messages_delivered", len(msgs))
	})

	// 4c'. Server.ReadTimeout bounds how long the server waits for one message. A peer that
	//     pauses between fragments - never as long as ReadTimeout within the wait for any one
	//     message - gets every message delivered, wherever the fragment boundaries fall: on a
	//     message boundary, or a few bytes into the next message (no CloseNotify here)
	rec.Suite("read-timeout-with-pauses-between-fragments", rec.N(400, 40000), func(c *ev.Case) {
		r := c.R
		const rt = time.Second
		nm := 2 + r.IntN(5)
		var msgs [][]byte
		var stream []byte
		var ends []int
		for k := 0; k < nm; k++ {
			m := seqMsg(uint32(c.I*16+k+1), []int{0, 12, 56, 100, 1028}[r.IntN(5)])
			msgs = append(msgs, m)
			stream = append(stream, m...)
			ends = append(ends, len(stream))
		}
		// fragment boundaries: message boundaries, or shortly after / before one, or anywhere
		var cuts []int
		for _, e := range ends[:len(ends)-1] {
			switch r.IntN(4) {
			case 0:
				cuts = append(cuts, e)
			case 1:
				cuts = append(cuts, e+1+r.IntN(19)) // inside the next header
			case 2:
				cuts = append(cuts, e-1-r.IntN(8))
			case 3:
				cuts = append(cuts, e+20+r.IntN(8))
			}
		}
		for k := r.IntN(3); k > 0; k-- {
			cuts = append(cuts, 1+r.IntN(len(stream)-1))
		}
		sort.Ints(cuts)
		var frags [][2]int
		prev := 0
		for _, cut := range append(cuts, len(stream)) {
			if cut > prev && cut <= len(stream) {
				frags = append(frags, [2]int{prev, cut})
				prev = cut
			}
		}
		var got [][]byte
		var mu sync.Mutex
		var plan []string
		leak := runBubbleWD(t, rec, c, 60*time.Second, func() {
			mc := memnet.NewConn()
			ln := memnet.NewListener()
			srv := &diam.Server{Handler: diam.HandlerFunc(func(cn diam.Conn, m *diam.Message) {
				b, _ := m.Serialize()
				mu.Lock()
				got = append(got, b)
				mu.Unlock()
			}), Dict: ctx.Parser, ReadTimeout: rt}
			go srv.Serve(ln)
			ln.Offer(mc)
			synctest.Wait()
			var now, winStart time.Duration // the wait for the current message began at winStart
			for _, f := range frags {
				p := []time.Duration{0, 0, 3 * rt / 10, 6 * rt / 10}[r.IntN(4)]
				if now+p-winStart >= 95*rt/100 {
					p = 0
				}
				if p > 0 {
					time.Sleep(p)
					now += p
				}
				plan = append(plan, fmt.Sprintf("+%dms:[%d,%d)", p/time.Millisecond, f[0], f[1]))
				mc.Feed(stream[f[0]:f[1]])
				synctest.Wait()
				for _, e := range ends {
					if e > f[0] && e <= f[1] {
						winStart = now
					}
				}
			}
			synctest.Wait()
			mc.FeedEOF()
			ln.Close()
			time.Sleep(2 * rt)
			synctest.Wait()
		})
		if leak != "" && !c.Failed() {
			c.Fail(ev.Sig{"op": "bubble-leak"}, nil, nil, "goroutines left blocked: %s", leak)
			return
		}
		c.Class("read-timeout-with-pauses/msgs=%d/frags=%d", nm, min(len(frags), 6))
		mu.Lock()
		defer mu.Unlock()
		if d := cmpSeq(got, msgs); d != "" {
			c.Fail(ev.Sig{"op": "sequence", "how": "read-timeout-with-pauses"}, stream, plan, "Server.ReadTimeout 1 s, no pause as long as that within the wait for any one message (fragments %v; message ends %v): %s (sizes %v)", plan, ends, d, sizes(msgs))
			return
		}
		c.Event("timeout_scenarios", 1)
		c.Event("messages_delivered", len(msgs))
	})

	// 4d. the transport is a multi-stream association (in-memory backend behind diam.SCTPConn):
	//     three or more streams carry message sequences whose chunks interleave; per stream the
	//     same sequence of messages comes out, whatever the interleaving (the oracle of C19)
	big := []int{0, 12, 100, 1000, 1024, 1028, 5000}
	rec.Suite("sctp-association", rec.N(60, 6000), func(c *ev.Case) {
		ns := 3 + c.R.IntN(4)
		cc := c19Build(c, ns, 4, 5, big)
		c.Class("sctp-association/streams=%d", ns)
		m := cc.randomMerge(c)
		good := true
		leak := runBubbleWD(t, rec, c, 60*time.Second, func() { good = runC19(c, ctx, cc, m, c.I%2 == 0, false, 0) })
		if leak != "" && !c.Failed() {
			c.Fail(ev.Sig{"op": "bubble-leak"}, nil, nil, "goroutines left blocked: %s", leak)
		}
		if good {
			c.Event("conn_streams", 1)
			c.Event("sctp_associations", 1)
		}
	})

	// 5. thorough: loopback TCP with TCP_NODELAY writes of the fragments
	if !rec.Quick() {
		rec.Suite("tcp", 300, func(c *ev.Case) { tcpStream(c, ctx) })
	}
}

func requestedAfter(fr *memnet.FragReader, off int) int {
	// bytes requested by Read calls that started at or after offset off
	n := 0
	for i, at := range fr.CallsAt {
		if at >= off {
			_ = i
			n++
		}
	}
	return n
}

func tcpStream(c *ev.Case, ctx *lib.Ctx) {
	r := c.R
	ln, err := net.Listen("tcp", "127.0.0.1:0")
	if err != nil {
		c.Fail(ev.Sig{"op": "setup"}, nil, nil, "listen: %v", err)
		return
	}
	defer ln.Close()
	nm := 1 + r.IntN(8)
	var msgs [][]byte
	var stream []byte
	for i := 0; i < nm; i++ {
		msgs = append(msgs, seqMsg(uint32(c.I*16+i+1), bodySize(r, false)))
		stream = append(stream, msgs[i]...)
	}
	cuts := randCuts(c, len(stream))
	if len(cuts) > 64 {
		cuts = cuts[:64]
	}
	c.Class("tcp/msgs=%d", nm)
	var mu sync.Mutex
	var got [][]byte
	done := make(chan struct{})
	h := diam.HandlerFunc(func(_ diam.Conn, m *diam.Message) {
		b, _ := m.Serialize()
		mu.Lock()
		got = append(got, b)
		n := len(got)
		mu.Unlock()
		if n == nm {
			close(done)
		}
	})
	srv := &diam.Server{Handler: h, Dict: ctx.Parser}
	go srv.Serve(ln)
	cn, err := net.Dial("tcp", ln.Addr().String())
	if err != nil {
		c.Fail(ev.Sig{"op": "setup"}, nil, nil, "dial: %v", err)
		return
	}
	cn.(*net.TCPConn).SetNoDelay(true)
	for _, f := range memnet.Split(stream, cuts) {
		if _, err := cn.Write(f); err != nil {
			c.Fail(ev.Sig{"op": "setup"}, nil, nil, "write: %v", err)
			return
		}
		if r.IntN(4) == 0 {
			time.Sleep(200 * time.Microsecond)
		}
	}
	select {
	case <-done:
	case <-time.After(60 * time.Second):
		cn.Close()
		c.Fail(ev.Sig{"op": "watchdog"}, stream, nil, "not all messages arrived over TCP within 60 s")
		return
	}
	cn.Close()
	mu.Lock()
	defer mu.Unlock()
	if d := cmpSeq(got, msgs); d != "" {
		c.Fail(ev.Sig{"op": "sequence", "how": "tcp"}, stream, nil, "over loopback TCP: %s", d)
		return
	}
	c.Event("tcp_streams", 1)
}

var _ = errors.New
