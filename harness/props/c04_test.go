package props

import (
	"bytes"
	"encoding/binary"
	"fmt"
	"io"
	"runtime"
	"sync"
	"testing"

	"github.com/fiorix/go-diameter/v4/diam"
	"github.com/fiorix/go-diameter/v4/diam/datatype"

	"verifharness/ev"
	"verifharness/gen"
	"verifharness/lib"
	"verifharness/refcodec"
	"verifharness/refdict"
)

// ---- raw record generation -------------------------------------------------

// fillerImage returns n bytes that look like a run of valid small AVPs, so that
// a decoder that re-reads payload bytes as AVPs finds plausible ones.
func fillerImage(c *ev.Case, n int) []byte {
	var b []byte
	for len(b) < n {
		switch c.R.IntN(3) {
		case 0: // G-U32 / Unsigned32, 12 bytes
			b = append(b, 0, 0, 0x23, 0x31, 0x40, 0, 0, 12, byte(c.R.Uint32()), 2, 3, 4)
		case 1: // empty G-Octets, 8 bytes
			b = append(b, 0, 0, 0x23, 0x29, 0x40, 0, 0, 8)
		default: // Origin-Host style string of 5 bytes + padding, 16 bytes
			b = append(b, 0, 0, 0x23, 0x2a, 0x40, 0, 0, 13, 'h', 'e', 'l', 'l', 'o', 0, 0, 0)
		}
	}
	return b[:n]
}

type rawOpts struct {
	ctx      *lib.Ctx
	app      uint32
	byKind   map[refcodec.Kind][]*refdict.AVPDef
	unknown  []uint32
	inject   bool // allow one inconsistent length
	injected string
}

func (o *rawOpts) prepare() {
	o.byKind = map[refcodec.Kind][]*refdict.AVPDef{}
	for _, d := range o.ctx.Visible(o.app) {
		if k, ok := refcodec.KindOf(d.Type); ok {
			o.byKind[k] = append(o.byKind[k], d)
		}
	}
}

var fixedKinds = []refcodec.Kind{refcodec.Unsigned32, refcodec.Unsigned64, refcodec.Integer32, refcodec.Integer64,
	refcodec.Float32, refcodec.Float64, refcodec.Enumerated, refcodec.Time, refcodec.IPv4, refcodec.IPv6}
var stringKinds = []refcodec.Kind{refcodec.OctetString, refcodec.UTF8String, refcodec.DiameterIdentity, refcodec.DiameterURI, refcodec.IPFilterRule, refcodec.QoSFilterRule}

func rawHeader(code uint32, flags uint8, vendor uint32, declared int) []byte {
	hl := 8
	if flags&0x80 != 0 {
		hl = 12
	}
	b := make([]byte, hl)
	binary.BigEndian.PutUint32(b, code)
	b[4] = flags
	b[5], b[6], b[7] = byte(declared>>16), byte(declared>>8), byte(declared)
	if hl == 12 {
		binary.BigEndian.PutUint32(b[8:], vendor)
	}
	return b
}

// rawList builds the bytes of a list of AVP records; container = bytes still
// available "above" (used to size beyond-container lengths).
func rawList(c *ev.Case, o *rawOpts, depth int, classes *[]string) []byte {
	r := c.R
	n := 1 + r.IntN(5)
	if depth > 0 {
		n = r.IntN(4)
	}
	var out []byte
	for i := 0; i < n; i++ {
		var def *refdict.AVPDef
		var payload []byte
		pick := func(k refcodec.Kind) bool {
			ds := o.byKind[k]
			if len(ds) == 0 {
				return false
			}
			def = ds[r.IntN(len(ds))]
			return true
		}
		cls := ""
		switch x := r.IntN(12); {
		case depth == 0 && r.IntN(40) == 0: // a payload above 64 KiB (lengths that need all 24 bits)
			k := stringKinds[r.IntN(len(stringKinds))]
			if !pick(k) {
				continue
			}
			l := []int{65527, 65528, 65529, 65556, 70001, 131072, 196608}[r.IntN(7)]
			if r.IntN(8) == 0 { // declared lengths that need more than 20 bits
				l = []int{1<<20 - 8, 1 << 20, 1<<20 + 1, 3<<20 + 5}[r.IntN(4)]
			}
			payload = fillerImage(c, l)
			cls = fmt.Sprintf("%s/big=%d", k, l)
		case x < 4: // fixed-width type with a payload of every length 0..20
			k := fixedKinds[r.IntN(len(fixedKinds))]
			if !pick(k) {
				continue
			}
			l := r.IntN(21)
			payload = fillerImage(c, l)
			cls = fmt.Sprintf("%s/len=%d", k, l)
		case x < 6: // Address: every family class x length
			if !pick(refcodec.Address) {
				continue
			}
			l := r.IntN(21)
			if r.IntN(4) == 0 {
				l = 18
			}
			payload = fillerImage(c, l)
			if l >= 2 {
				fam := []uint16{0, 1, 2, 3, 8, 65534, 65535, uint16(r.Uint32())}[r.IntN(8)]
				if l == 18 && r.IntN(2) == 0 {
					fam = 2
				}
				binary.BigEndian.PutUint16(payload, fam)
				cls = fmt.Sprintf("Address/fam=%d/len=%d", min(int(fam), 4), l)
				if fam == 2 && l == 18 && r.IntN(2) == 0 {
					// an IPv4-mapped IPv6 address (::ffff:a.b.c.d): 16 bytes on the wire like any other
					copy(payload[2:], []byte{0, 0, 0, 0, 0, 0, 0, 0, 0, 0, 0xff, 0xff})
					cls += "/v4-mapped"
				}
			} else {
				cls = fmt.Sprintf("Address/len=%d", l)
			}
		case x < 8: // string types carrying AVP images
			k := stringKinds[r.IntN(len(stringKinds))]
			if !pick(k) {
				continue
			}
			l := r.IntN(40)
			payload = fillerImage(c, l)
			cls = fmt.Sprintf("%s/len%%4=%d", k, l%4)
		case x < 9 && r.IntN(2) == 0: // a defined code under a vendor id the dictionary does not define it for: opaque
			k := []refcodec.Kind{refcodec.Grouped, refcodec.Grouped, refcodec.Unsigned32, refcodec.Address, refcodec.Time}[r.IntN(5)]
			if !pick(k) {
				continue
			}
			foreign := &refdict.AVPDef{Code: def.Code, Type: "Unknown"}
			if def.Vendor == 0 || r.IntN(2) == 0 {
				foreign.Vendor = []uint32{def.Vendor + 1, 99999, 9, 0xFFFFFFFF}[r.IntN(4)]
			}
			if _, defined := o.ctx.Ix.FindAVP(o.app, foreign.Code, foreign.Vendor); defined {
				continue
			}
			def = foreign
			payload = fillerImage(c, r.IntN(40))
			cls = fmt.Sprintf("foreign-vendor/%s/V=%v", k, foreign.Vendor != 0)
		case x < 9: // unknown code
			def = &refdict.AVPDef{Code: 0x00E00000 + uint32(r.IntN(1000)), Type: "Unknown"}
			if r.IntN(2) == 0 {
				def.Vendor = 4242
			}
			payload = fillerImage(c, r.IntN(40))
			cls = "Unknown"
		default: // grouped, nested
			if depth >= 5 || !pick(refcodec.Grouped) {
				continue
			}
			payload = rawList(c, o, depth+1, classes)
			cls = fmt.Sprintf("Grouped/depth=%d", depth)
		}
		flags := uint8(0x40)
		if r.IntN(8) == 0 { // any combination of M, P and the reserved bits
			flags = uint8(r.Uint32()) & 0x7f
			cls += "/flags=any"
		}
		if def.Vendor != 0 {
			flags |= 0x80
		} else if r.IntN(16) == 0 { // the V bit with a Vendor-ID field of 0: 12-byte header, resolves like the vendorless code
			flags |= 0x80
			cls += "/V-with-vendor-0"
		}
		hl := 8
		if flags&0x80 != 0 {
			hl = 12
		}
		declared := hl + len(payload)
		if o.inject && o.injected == "" && r.IntN(12) == 0 {
			switch r.IntN(6) {
			case 0:
				declared = r.IntN(8)
				o.injected = "declared<8"
			case 1:
				if hl == 12 {
					declared = 8 + r.IntN(4)
					o.injected = "V-and-declared<12"
				}
			case 2:
				declared += 1 + r.IntN(64)
				o.injected = "declared>actual"
			case 3:
				if len(payload) > 0 {
					declared -= 1 + r.IntN(len(payload))
					o.injected = "declared<actual"
				}
			case 4:
				declared = 0xFFFFFF
				o.injected = "declared=max"
			case 5:
				declared = (declared + 3) &^ 3 // length that counts the padding
				if declared != hl+len(payload) {
					o.injected = "declared-includes-padding"
				}
			}
		}
		*classes = append(*classes, cls)
		out = append(out, rawHeader(def.Code, flags, def.Vendor, declared)...)
		out = append(out, payload...)
		for len(out)%4 != 0 {
			out = append(out, 0)
		}
	}
	return out
}

// ---- reference framing tree --------------------------------------------------

type refTree struct {
	rec  refcodec.Rec
	kind refcodec.Kind
	kids []refTree
}

type refFacts struct {
	missingPad  bool
	addrInvalid bool
	riskAddr    bool
	count       int
}

func addressInvalid(p []byte) bool {
	if len(p) < 3 {
		return true
	}
	fam := binary.BigEndian.Uint16(p)
	if fam == 0 || fam == 65535 {
		return true
	}
	if fam == 1 && len(p) != 6 {
		return true
	}
	if fam == 2 && len(p) != 18 {
		return true
	}
	return false
}

func frameTree(b []byte, tf refcodec.TypeFunc, f *refFacts) ([]refTree, error) {
	recs, mp, err := refcodec.Frame(b)
	if err != nil {
		return nil, err
	}
	if mp {
		f.missingPad = true
	}
	out := make([]refTree, 0, len(recs))
	for _, r := range recs {
		t := refTree{rec: r, kind: tf(r.Code, r.Vendor, r.Flags&0x80 != 0)}
		f.count++
		switch t.kind {
		case refcodec.Grouped:
			t.kids, err = frameTree(r.Payload, tf, f)
			if err != nil {
				return nil, fmt.Errorf("in grouped AVP %d at offset %d: %v", r.Code, r.Off, err)
			}
		case refcodec.Address:
			if addressInvalid(r.Payload) {
				f.addrInvalid = true
			} else if gen.RiskAddress(binary.BigEndian.Uint16(r.Payload), r.Payload[2:]) {
				f.riskAddr = true
			}
		}
		out = append(out, t)
	}
	return out, nil
}

// compareFraming compares the library's AVP list with the reference records.
func compareFraming(lib []*diam.AVP, ref []refTree, path string) string {
	if len(lib) != len(ref) {
		return fmt.Sprintf("%s: library reports %d AVPs, walking by declared length finds %d", path, len(lib), len(ref))
	}
	for i, a := range lib {
		r := ref[i]
		p := fmt.Sprintf("%s/%d(code %d)", path, i, r.rec.Code)
		if a.Code != r.rec.Code || a.Flags != r.rec.Flags {
			return fmt.Sprintf("%s: library has code %d flags %#x, reference code %d flags %#x", p, a.Code, a.Flags, r.rec.Code, r.rec.Flags)
		}
		if r.rec.Flags&0x80 != 0 && a.VendorID != r.rec.Vendor {
			return fmt.Sprintf("%s: vendor %d vs %d", p, a.VendorID, r.rec.Vendor)
		}
		if a.Length != int(r.rec.Length) {
			return fmt.Sprintf("%s: Length %d vs declared %d", p, a.Length, r.rec.Length)
		}
		switch r.kind {
		case refcodec.Grouped:
			g, ok := a.Data.(*diam.GroupedAVP)
			if !ok {
				return fmt.Sprintf("%s: grouped by the dictionary but decoded as %T", p, a.Data)
			}
			if d := compareFraming(g.AVP, r.kids, p); d != "" {
				return d
			}
		case refcodec.Address:
			if !addressInvalid(r.rec.Payload) && binary.BigEndian.Uint16(r.rec.Payload) == 2 {
				// the payload bytes the decoder reports for an IPv6-family address are the 16 of the
				// wire, whatever they are (an IPv4-mapped address included: its re-encoding is the
				// known finding of C01/C02, the bytes reported here are not)
				if v, ok := a.Data.(datatype.Address); ok && !bytes.Equal([]byte(v), r.rec.Payload[2:]) {
					return fmt.Sprintf("%s: Address (family 2) reported as %x, the wire carries %x", p, []byte(v), r.rec.Payload[2:])
				}
			}
			if addressInvalid(r.rec.Payload) || gen.RiskAddress(binary.BigEndian.Uint16(r.rec.Payload), r.rec.Payload[2:]) {
				continue
			}
			if !bytes.Equal(a.Data.Serialize(), r.rec.Payload) {
				return fmt.Sprintf("%s: Address payload %x vs %x", p, a.Data.Serialize(), r.rec.Payload)
			}
		default:
			if fl := r.kind.FixedLen(); fl != 0 && len(r.rec.Payload) != fl {
				continue // lenient zero value: only Length is observable
			}
			if _, isPtr := a.Data.(*datatype.Time); isPtr {
				continue
			}
			if !bytes.Equal(a.Data.Serialize(), r.rec.Payload) {
				return fmt.Sprintf("%s: %s payload %x vs %x", p, r.kind, a.Data.Serialize(), r.rec.Payload)
			}
		}
	}
	return ""
}

// deepChain: a grouped AVP nested depth levels; the innermost level holds a
// record whose declared length is good or bad.
func deepChain(code uint32, depth int, leaf []byte) []byte {
	body := leaf
	for d := 0; d < depth; d++ {
		b := append(rawHeader(code, 0x40, 0, 8+len(body)), body...)
		for len(b)%4 != 0 {
			b = append(b, 0)
		}
		body = b
	}
	return body
}

// c04FillGroups adds a member to every group of a decoded tree (empty ones included) and
// returns the number of groups.
func c04FillGroups(avps []*diam.AVP) int {
	n := 0
	for _, a := range avps {
		if g, ok := a.Data.(*diam.GroupedAVP); ok && g != nil {
			n += 1 + c04FillGroups(g.AVP)
			g.AddAVP(diam.NewAVP(9009, 0x40, 0, datatype.Unsigned32(0xC0FFEE)))
		}
	}
	return n
}

func TestC04(t *testing.T) {
	rec := ev.Open(t, "C04")
	refcodecSelfCheck(t)
	defer rec.Close()
	ctxs := []*lib.Ctx{genCtx(t), defCtx(t)}
	opts := map[string]*rawOpts{}
	n := rec.N(150000, 10000000)
	if rec.Race() {
		n = rec.N(4000, 100000)
	}
	// the same host names in different spellings, one message after the other (what one message
	// carried must not colour the payload bytes reported for the next: names compare without
	// regard to case, the bytes on the wire are what they are)
	rec.Suite("identity-spellings", rec.N(200, 20000), func(c *ev.Case) {
		r := c.R
		ctx := ctxs[c.I%len(ctxs)]
		code := uint32(9003)
		if _, err := ctx.Parser.FindAVP(0, "G-Ident"); err != nil {
			code = 264
		}
		base := fmt.Sprintf("host%d.realm%d.example.net", r.IntN(50), r.IntN(5))
		spell := func(k int) []byte {
			b := []byte(base)
			for i := range b {
				switch k {
				case 1:
					if i%2 == 0 && b[i] >= 'a' && b[i] <= 'z' {
						b[i] -= 32
					}
				case 2:
					if b[i] >= 'a' && b[i] <= 'z' {
						b[i] -= 32
					}
				}
			}
			return b
		}
		c.Class("identity-spellings/%s", ctx.Name)
		for _, k := range []int{0, 1, 0, 2, 1} {
			id := spell(k)
			body := append(rawHeader(code, 0x40, 0, 8+len(id)), id...)
			for len(body)%4 != 0 {
				body = append(body, 0)
			}
			grp := append(rawHeader(9018, 0x40, 0, 8+len(body)), body...)
			if code == 264 {
				grp = nil
			}
			full := append(append([]byte(nil), body...), grp...)
			h := refcodec.Header{Version: 1, Flags: 0x80, Code: 257, HopByHop: 1, EndToEnd: 1, Length: uint32(20 + len(full))}
			wire := append(refcodec.EncodeHeader(h), full...)
			var facts refFacts
			ref, rerr := frameTree(full, ctx.TypeFunc(0), &facts)
			m, err := diam.ReadMessage(bytes.NewReader(wire), ctx.Parser)
			if rerr != nil || err != nil {
				c.Fail(ev.Sig{"op": "rejected-wellframed", "how": "identity-spellings"}, wire, nil, "a message carrying the host name %q: reference %v, library %v", id, rerr, err)
				return
			}
			if d := compareFraming(m.AVP, ref, ""); d != "" {
				c.Fail(ev.Sig{"op": "framing-differs", "how": "identity-spellings"}, wire, nil, "the host name %q, received after the same name in other spellings: %s", id, d)
				return
			}
		}
		c.Event("wellframed_accepted_equal", 5)
	})
	// nesting up to 100 levels (the decoder accepts 128): framing must hold at the bottom as well
	rec.Suite("deep-chains", rec.N(400, 20000), func(c *ev.Case) {
		ctx := ctxs[0]
		depth := 6 + c.R.IntN(95)
		kind := c.R.IntN(4)
		var leaf []byte
		switch kind {
		case 0: // well-framed leaf: Unsigned32 code with a 9-byte payload followed by a sibling
			leaf = append(rawHeader(9009, 0x40, 0, 17), fillerImage(c, 9)...)
			leaf = append(leaf, 0, 0, 0)
			leaf = append(leaf, rawHeader(9001, 0x40, 0, 8)...)
		case 1: // declared length beyond the innermost container
			leaf = append(rawHeader(9001, 0x40, 0, 40), fillerImage(c, 12)...)
		case 2: // declared length shorter than the header
			leaf = append(rawHeader(9001, 0x40, 0, 5), fillerImage(c, 8)...)
		default: // trailing bytes that are not an AVP
			leaf = append(rawHeader(9009, 0x40, 0, 12), 1, 2, 3, 4, 9, 9, 9)
		}
		body := deepChain(9018, depth, leaf)
		h := refcodec.Header{Version: 1, Flags: 0x80, Code: 8388000, HopByHop: 1, EndToEnd: 1, Length: uint32(20 + len(body))}
		wire := append(refcodec.EncodeHeader(h), body...)
		var facts refFacts
		ref, rerr := frameTree(body, ctx.TypeFunc(0), &facts)
		c.Class("deep/depth=%d/leaf=%d/framed=%v", depth/20*20, kind, rerr == nil)
		var m *diam.Message
		var err error
		if p, bad := guard(func() { m, err = diam.ReadMessage(bytes.NewReader(wire), ctx.Parser) }); bad {
			c.Fail(ev.Sig{"op": "panic", "site": panicSite(p)}, wire, nil, "ReadMessage panicked: %s", p)
			return
		}
		switch {
		case rerr != nil && err == nil:
			c.Fail(ev.Sig{"op": "accepted-misframed", "depth": "deep"}, wire, nil, "mis-framed %d levels down (%v) but accepted", depth, rerr)
		case rerr == nil && err != nil && !facts.missingPad:
			c.Fail(ev.Sig{"op": "rejected-wellframed", "depth": "deep"}, wire, nil, "well-framed chain of %d levels rejected: %v", depth, err)
		case rerr == nil && err == nil:
			if d := compareFraming(m.AVP, ref, ""); d != "" && !facts.missingPad {
				c.Fail(ev.Sig{"op": "framing-differs", "depth": "deep"}, wire, nil, "%d levels down: %s", depth, d)
				return
			}
			c.Event("deep_chains_equal", 1)
		default:
			c.Event("ref_misframed", 1)
		}
	})
	optsFor := func(ctx *lib.Ctx, app uint32) *rawOpts {
		key := fmt.Sprintf("%s/%d", ctx.Name, app)
		o := opts[key]
		if o == nil {
			o = &rawOpts{ctx: ctx, app: app}
			o.prepare()
			opts[key] = o
		}
		return o
	}
	// how the bytes arrive must not matter: a transport fault in the middle of a body
	// (the read either fails or reports exactly the AVPs of the walk), and several
	// connections reading at the same time after the process has seen a large message
	rec.Suite("delivery", rec.N(3000, 300000), func(c *ev.Case) {
		r := c.R
		G := 1 + r.IntN(4)
		type item struct {
			ctx  *lib.Ctx
			wire []byte
			ref  []refTree
			tail []byte
		}
		var items []item
		for len(items) < G {
			ctx := ctxs[r.IntN(2)]
			h, _ := ctx.Header(r, ctx.Cmds)
			o := optsFor(ctx, h.App)
			o.inject, o.injected = false, ""
			var classes []string
			body := rawList(c, o, 0, &classes)
			h.Length = uint32(20 + len(body))
			if h.Length > 0xFFFFFF {
				continue
			}
			var facts refFacts
			ref, rerr := frameTree(body, ctx.TypeFunc(h.App), &facts)
			if rerr != nil || facts.addrInvalid || facts.missingPad {
				continue
			}
			wire := append(refcodec.EncodeHeader(h), body...)
			// a following message, so that bytes taken from beyond the body have somewhere to come from
			tail := seqMsg(uint32(c.I+1), 12+4*r.IntN(6))
			items = append(items, item{ctx, wire, ref, tail})
		}
		if c.I%64 < 16 {
			// earlier traffic of the process: a body above the 64 KiB step of the body reader
			if _, err := diam.ReadMessage(bytes.NewReader(seqMsgMulti(7, 66000+4*r.IntN(5000))), ctxs[0].Parser); err != nil {
				c.Fail(ev.Sig{"op": "rejected-wellframed", "how": "large"}, nil, nil, "a well-framed large message was rejected: %v", err)
				return
			}
		}
		fault := G == 1
		c.Class("delivery/G=%d/fault=%v/after-large=%v", G, fault, c.I%64 < 16)
		type res struct {
			m       *diam.Message
			err     error
			pan     string
			faultAt int
		}
		out := make([]res, G)
		var wg sync.WaitGroup
		start := make(chan struct{})
		for g := 0; g < G; g++ {
			it := items[g]
			stream := append(append([]byte(nil), it.wire...), it.tail...)
			var rd io.Reader
			if fault {
				at := r.IntN(len(it.wire) + 1)
				out[g].faultAt = at
				rd = &faultReader{b: stream, at: at, timeout: r.IntN(2) == 0, chunk: 1 + r.IntN(64)}
			} else {
				rd = &yieldReader{b: stream, chunk: 8 + r.IntN(200)}
			}
			wg.Add(1)
			go func() {
				defer wg.Done()
				<-start
				p, bad := guard(func() { out[g].m, out[g].err = diam.ReadMessage(rd, it.ctx.Parser) })
				if bad {
					out[g].pan = p
				}
			}()
		}
		close(start)
		wg.Wait()
		for g, o := range out {
			it := items[g]
			how := fmt.Sprintf("%d connections reading at the same time", G)
			if fault {
				how = fmt.Sprintf("one temporary read error after %d of the message's %d bytes", o.faultAt, len(it.wire))
			}
			switch {
			case o.pan != "":
				c.Fail(ev.Sig{"op": "panic", "site": panicSite(o.pan), "how": "delivery"}, it.wire, nil, "ReadMessage panicked (%s): %s", how, o.pan)
				return
			case o.err != nil && !fault:
				c.Fail(ev.Sig{"op": "rejected-wellframed", "how": "delivery"}, it.wire, nil, "well-framed message rejected (%s): %v", how, o.err)
				return
			case o.err != nil:
				c.Event("fault_reported_as_error", 1)
			default:
				if d := compareFraming(o.m.AVP, it.ref, ""); d != "" {
					c.Fail(ev.Sig{"op": "framing-differs", "how": map[bool]string{true: "after-read-fault", false: "concurrent-reads"}[fault]}, it.wire, nil, "%s: %s", how, d)
					return
				}
				c.Event("delivery_equal", 1)
			}
		}
	})
	// the hierarchical contexts: what a code means (a group or not) in a message of a child
	// application is decided through its parent applications, loaded before or after it
	ctxsB := append([]*lib.Ctx{}, ctxs...)
	for _, x := range contexts(t) {
		if x.Name == "base+hier" || x.Name == "base+hier-parents-loaded-late" {
			ctxsB = append(ctxsB, x)
		}
	}
	rec.Suite("bodies", n, func(c *ev.Case) {
		ctx := ctxsB[c.I%len(ctxsB)]
		r := c.R
		h, _ := ctx.Header(r, ctx.Cmds)
		o := optsFor(ctx, h.App)
		o.inject = r.IntN(3) == 0
		o.injected = ""
		var classes []string
		body := rawList(c, o, 0, &classes)
		if r.IntN(10) == 0 && len(body) > 0 && o.injected == "" {
			// strip the padding of the final AVP (don't-care case)
			for k := 0; k < 3 && len(body) > 0 && body[len(body)-1] == 0; k++ {
				body = body[:len(body)-1]
			}
		}
		h.Length = uint32(20 + len(body))
		if h.Length > 0xFFFFFF {
			return
		}
		wire := append(refcodec.EncodeHeader(h), body...)
		tf := ctx.TypeFunc(h.App)
		var facts refFacts
		ref, rerr := frameTree(body, tf, &facts)
		for _, cl := range classes {
			c.Class("%s/%s", ctx.Name, cl)
		}
		if o.injected != "" {
			c.Class("inject/%s/framed=%v", o.injected, rerr == nil)
		}

		var m *diam.Message
		var err error
		c.Input("ReadMessage", wire)
		if p, bad := guard(func() { m, err = diam.ReadMessage(bytes.NewReader(wire), ctx.Parser) }); bad {
			c.Fail(ev.Sig{"op": "panic", "site": panicSite(p), "inject": o.injected}, wire, nil, "ReadMessage panicked: %s", p)
			return
		}
		sig := func(op string) ev.Sig { return ev.Sig{"op": op, "inject": o.injected, "risk_addr": facts.riskAddr} }
		switch {
		case rerr != nil:
			c.Event("ref_misframed", 1)
			if err == nil {
				c.Fail(sig("accepted-misframed"), wire, nil, "the body is mis-framed (%v) but ReadMessage returned a message with %d AVPs", rerr, len(m.AVP))
				return
			}
		case err != nil:
			if facts.addrInvalid {
				c.Event("wellframed_rejected_for_address", 1)
				return
			}
			if facts.missingPad {
				c.Event("wellframed_missing_final_pad_rejected", 1)
				return
			}
			c.Fail(sig("rejected-wellframed"), wire, nil, "the body is well-framed (%d AVPs by declared lengths) but ReadMessage failed: %v", facts.count, err)
			return
		default:
			if d := compareFraming(m.AVP, ref, ""); d != "" {
				if facts.missingPad {
					c.Event("missing_final_pad_dont_care", 1)
					return
				}
				c.Fail(sig("framing-differs"), wire, nil, "AVPs reported differ from a walk by declared lengths: %s", d)
				return
			}
			c.Event("wellframed_accepted_equal", 1)
			c.Event("avps_compared", facts.count)
			// an application completes the groups of the message it was given (an agent adding a
			// member before forwarding); the same bytes read again are framed as before: what was
			// done to one decoded message is not found in the next
			if ng := c04FillGroups(m.AVP); ng > 0 {
				var m2 *diam.Message
				if p, bad := guard(func() { m2, err = diam.ReadMessage(bytes.NewReader(wire), ctx.Parser) }); bad || err != nil {
					c.Fail(sig("reread"), wire, nil, "the same bytes read a second time: err=%v %s", err, p)
					return
				}
				if d := compareFraming(m2.AVP, ref, ""); d != "" {
					c.Fail(sig("framing-differs-after-application-write"), wire, nil, "after the application added a member to each of the %d groups of the message decoded first, the same bytes read again are reported differently from a walk by declared lengths: %s", ng, d)
					return
				}
				c.Event("reread_after_application_write", 1)
			}
			// the same AVPs decoded one by one into one AVP value that the caller reuses (the
			// public DecodeFromBytes): what an AVP is does not depend on what the value held before
			{
				var reused diam.AVP
				m3, rerr3 := diam.ReadMessage(bytes.NewReader(wire), ctx.Parser)
				off, k := 0, 0
				for rerr3 == nil && off+8 <= len(body) && k < len(m3.AVP) {
					l := int(body[off+5])<<16 | int(body[off+6])<<8 | int(body[off+7])
					end := min(off+(l+3)&^3, len(body))
					var derr error
					if p, bad := guard(func() { derr = reused.DecodeFromBytes(body[off:end], h.App, ctx.Parser) }); bad || derr != nil {
						c.Fail(sig("reused-avp"), wire, nil, "DecodeFromBytes into a reused AVP value, AVP %d of a message ReadMessage accepts: err=%v %s", k, derr, p)
						return
					}
					w := m3.AVP[k]
					if reused.Code != w.Code || reused.Flags != w.Flags || reused.VendorID != w.VendorID || reused.Length != w.Length || fmt.Sprintf("%T", reused.Data) != fmt.Sprintf("%T", w.Data) {
						c.Fail(sig("reused-avp"), wire, nil, "AVP %d decoded into an AVP value that had held the AVP before it: code %d flags %#x vendor %d length %d data %T; ReadMessage reports code %d flags %#x vendor %d length %d data %T",
							k, reused.Code, reused.Flags, reused.VendorID, reused.Length, reused.Data, w.Code, w.Flags, w.VendorID, w.Length, w.Data)
						return
					}
					off, k = end, k+1
				}
				c.Event("avps_decoded_into_a_reused_value", k)
			}
			if c.WantSample() && facts.count > 2 && len(wire) < 200 {
				c.Sample(map[string]any{"dict": ctx.Name, "wire": ev.Hex(wire), "avps_by_declared_length": facts.count, "classes": classes})
			}
		}
		// groups also through DecodeGrouped directly
		for _, t := range ref {
			if t.kind != refcodec.Grouped || rerr != nil {
				continue
			}
			var g *diam.GroupedAVP
			var gerr error
			if p, bad := guard(func() { g, gerr = diam.DecodeGrouped(datatype.Grouped(t.rec.Payload), h.App, ctx.Parser) }); bad {
				c.Fail(ev.Sig{"op": "panic", "site": panicSite(p), "inject": o.injected}, t.rec.Payload, nil, "DecodeGrouped panicked: %s", p)
				return
			}
			if gerr != nil {
				if !facts.addrInvalid && !facts.missingPad {
					c.Fail(sig("rejected-wellframed-group"), t.rec.Payload, nil, "DecodeGrouped failed on a well-framed group: %v", gerr)
					return
				}
				continue
			}
			if d := compareFraming(g.AVP, t.kids, "group"); d != "" && !facts.missingPad {
				c.Fail(sig("framing-differs-group"), t.rec.Payload, nil, "DecodeGrouped: %s", d)
				return
			}
			c.Event("groups_direct", 1)
		}
	})
}

// faultReader delivers b in chunks and reports one temporary error when `at`
// bytes have been delivered (together with no data), then goes on.
type faultReader struct {
	b       []byte
	off, at int
	fired   bool
	timeout bool
	chunk   int
}

type tempReadErr struct{ timeout bool }

func (e *tempReadErr) Error() string   { return "temporary read error" }
func (e *tempReadErr) Timeout() bool   { return e.timeout }
func (e *tempReadErr) Temporary() bool { return true }

func (f *faultReader) Read(p []byte) (int, error) {
	if !f.fired && f.off >= f.at {
		f.fired = true
		return 0, &tempReadErr{f.timeout}
	}
	if f.off >= len(f.b) {
		return 0, io.EOF
	}
	n := min(len(p), f.chunk, len(f.b)-f.off)
	if !f.fired {
		n = min(n, f.at-f.off)
	}
	copy(p, f.b[f.off:f.off+n])
	f.off += n
	return n, nil
}

// yieldReader delivers b in chunks and yields the processor between them.
type yieldReader struct {
	b     []byte
	off   int
	chunk int
}

func (y *yieldReader) Read(p []byte) (int, error) {
	if y.off >= len(y.b) {
		return 0, io.EOF
	}
	runtime.Gosched()
	n := min(len(p), y.chunk, len(y.b)-y.off)
	copy(p, y.b[y.off:y.off+n])
	y.off += n
	return n, nil
}
