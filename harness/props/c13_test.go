package props

import (
	"bytes"
	"context"
	"encoding/binary"
	"fmt"
	"sync"
	"testing"
	"testing/synctest"
	"time"

	"github.com/fiorix/go-diameter/v4/diam"
	"github.com/fiorix/go-diameter/v4/diam/datatype"
	"github.com/fiorix/go-diameter/v4/diam/sm"

	"verifharness/ev"
	"verifharness/lib"
	"verifharness/memnet"
	"verifharness/peer"
	"verifharness/refcodec"
)

// answer patterns of the peer
const (
	aAll       = iota // answer every DWR
	aStopAfter        // answer the first n rounds, then nothing
	aOnlyRetx         // in every round answer only the j-th transmission (j = 0 is the original)
	aFailure          // answer every DWR with a failing result code
	aLateBurst        // rounds 1..n-1 answered at once; in round n every transmission is answered, but only after the last one was sent (a burst of N+1 answers); then nothing
	nPatterns
)

var aNames = []string{"answer-all", "stop-after-n", "answer-only-jth-transmission", "answer-with-failure", "late-burst-then-silence"}

// transport schedules
const (
	sImmediate  = iota // the answer is queued while the client's Write is still running and Write returns at once
	sLateReturn        // the client's Write returns 10 ms after the peer has seen the bytes; the answer arrives in between
	sJustBefore        // the answer arrives 1 ms before the retransmit timer
	nSchedules
)

var sNames = []string{"immediate", "write-returns-late", "just-before-retransmit"}

type c13Script struct {
	N        int
	W, R     time.Duration
	pattern  int
	n, j     int
	schedule int
	defaults bool // the Client's interval fields are left at zero: the documented defaults (5 s / 1 s) apply
	dress    int  // shape of the peer's answers (c13DWA)
	noise    int  // unhandled requests the peer sends right after the handshake (nobody reads ErrorReports)
	peerDWRs bool // the peer runs a watchdog of its own throughout: a DWR (other identifiers every time) every W/3 until the connection closes
}

func (s c13Script) String() string {
	d := ""
	if s.defaults {
		d = " (defaults: fields left at zero)"
	}
	return fmt.Sprintf("MaxRetransmits=%d WatchdogInterval=%v RetransmitInterval=%v%s, peer: %s (n=%d j=%d, answer shape %d), transport: %s", s.N, s.W, s.R, d, aNames[s.pattern], s.n, s.j, s.dress, sNames[s.schedule])
}

// c13DWA: the peer's watchdog answer in one of the shapes RFC 6733 5.5.2 allows: 0 minimal;
// 1 with Origin-State-Id; 2 with an Error-Message and undefined AVPs; 3 identity first and
// Result-Code last; 4 answered by another host of the same realm (a peer behind a virtual address).
const nC13Dress = 5

func c13DWA(dress int, hbh, e2e, rc uint32) []byte {
	rcn := peer.U32(peer.ResultCode, rc)
	id := peer.Identity("srv.example", "example")
	avps := append([]*refcodec.Node{rcn}, id...)
	switch dress {
	case 1:
		avps = append(avps, peer.U32(peer.OriginState, 0xFFFFFFFF))
	case 2:
		u := &refcodec.Node{Code: 0x00E00123, Flags: 0, Kind: refcodec.Unknown, B: []byte{1, 2, 3, 4, 5}}
		v := &refcodec.Node{Code: 0x00E00124, Flags: 0x80, Vendor: 4242, Kind: refcodec.Unknown, B: []byte("vendor")}
		avps = append(append([]*refcodec.Node{u}, avps...), peer.Str(peer.ErrorMessage, refcodec.UTF8String, "all is well"), v)
		avps[len(avps)-2].Flags = 0
	case 3:
		avps = []*refcodec.Node{id[1], id[0], peer.U32(peer.OriginState, 1), rcn}
	case 4:
		avps = append([]*refcodec.Node{rcn}, peer.Identity("srv-b.example", "example")...)
	}
	return peer.Msg(0, 280, 0, hbh, e2e, avps...)
}

func runC13Client(c *ev.Case, ctx *lib.Ctx, sc c13Script) {
	sig := func(op string) ev.Sig {
		return ev.Sig{"op": op, "pattern": aNames[sc.pattern], "schedule": sNames[sc.schedule]}
	}
	settings := &sm.Settings{OriginHost: "cli.local", OriginRealm: "realm.local", VendorID: 13, ProductName: "verif",
		HostIPAddresses: []datatype.Address{datatype.Address([]byte{192, 0, 2, 9})}}
	machine := sm.New(settings)
	cli := &sm.Client{Dict: ctx.Parser, Handler: machine, MaxRetransmits: uint(sc.N), RetransmitInterval: sc.R,
		EnableWatchdog: true, WatchdogInterval: sc.W,
		AuthApplicationID: []*diam.AVP{diam.NewAVP(258, 0x40, 0, datatype.Unsigned32(4))}}
	if sc.defaults {
		cli.RetransmitInterval, cli.WatchdogInterval = 0, 0
	}
	mc := memnet.NewConn()
	type dwrRec struct {
		t    time.Time
		data []byte
	}
	var smu sync.Mutex // guards the scripted peer's state (monitor state must not be the race)
	var dwrs []dwrRec
	round, txInRound := 0, 0 // as the peer counts them
	var lastDWR []byte
	answered := map[int]bool{} // rounds answered with success
	mc.Script = func(seq int, b []byte) memnet.Outcome {
		o := memnet.Outcome{Accept: -1, StallAt: -1}
		if sc.schedule == sLateReturn && len(b) >= 20 && peer.Header(b).Code == 280 {
			o.Late = 10 * time.Millisecond
		}
		return o
	}
	closedAt := time.Time{}
	mc.OnWrite = func(w memnet.WriteRec) {
		msgs, _ := peer.SplitMessages(w.Data)
		if len(msgs) != 1 {
			return
		}
		h := peer.Header(msgs[0])
		switch {
		case h.Code == 257 && h.Flags&0x80 != 0:
			mc.Feed(peer.StdCEA(h.HopByHop, h.EndToEnd, 2001, 4))
		case h.Code == 280 && h.Flags&0x80 != 0:
			smu.Lock()
			defer smu.Unlock()
			dwrs = append(dwrs, dwrRec{w.T0, append([]byte(nil), msgs[0]...)})
			if lastDWR != nil && bytes.Equal(lastDWR, msgs[0]) {
				txInRound++
			} else {
				round++
				txInRound = 0
			}
			lastDWR = append([]byte(nil), msgs[0]...)
			reply := false
			rc := uint32(2001)
			switch sc.pattern {
			case aAll:
				reply = true
			case aStopAfter:
				reply = round <= sc.n
			case aOnlyRetx:
				reply = txInRound == sc.j
			case aFailure:
				reply, rc = true, 5012
			case aLateBurst:
				reply = round < sc.n
				if round == sc.n && txInRound == sc.N {
					// the last transmission of round n is out: answer all N+1 of them, a moment later
					answered[round] = true
					burst := sc.N + 1
					go func() {
						time.Sleep(sc.R / 4)
						for i := 0; i < burst; i++ {
							mc.Feed(c13DWA(sc.dress, h.HopByHop, h.EndToEnd, 2001))
						}
					}()
				}
			}
			if !reply {
				return
			}
			if rc == 2001 {
				answered[round] = true
			}
			dwa := c13DWA(sc.dress, h.HopByHop, h.EndToEnd, rc)
			switch sc.schedule {
			case sImmediate, sLateReturn:
				mc.Feed(dwa)
			case sJustBefore:
				go func() {
					time.Sleep(sc.R - time.Millisecond)
					mc.Feed(dwa)
				}()
			}
		}
	}
	start := time.Now()
	conn, err := cli.NewConn(mc, "peer:3868")
	if err != nil {
		c.Fail(sig("setup"), nil, nil, "handshake failed: %v", err)
		return
	}
	hsDone := time.Now()
	if c.I%2 == 1 {
		// the application keeps state of its own in the connection's context (the API the
		// library offers for that): it reads the context as soon as it has the connection and
		// stores contexts derived from what it read, now and then, for as long as the
		// connection lives. None of this is the watchdog's business either.
		c.Class("application-stores-contexts")
		type appKey struct{}
		ctx0 := conn.Context()
		go func() {
			for i, d := range []time.Duration{0, sc.W / 3, sc.W, sc.W + sc.R/2, 3 * sc.W} {
				select {
				case <-mc.Closed():
					return
				case <-time.After(d):
				}
				conn.SetContext(context.WithValue(ctx0, appKey{}, i))
			}
		}()
	}
	if sc.noise > 0 {
		// the peer also sends requests the application has no handler for; the application does
		// not read ErrorReports.  None of this is the watchdog's business.
		for i := 0; i < sc.noise; i++ {
			mc.Feed(peer.Msg(0xC0, 275, 0, uint32(0x0E000000+i), 1, peer.Str(peer.SessionID, refcodec.UTF8String, "s;1")))
		}
	}
	// the peer runs a watchdog of its own: its DWR must be answered by the client's state machine
	mc.Feed(peer.DWR(0x7e570001, 0x7e570002))
	if sc.peerDWRs {
		// ... and keeps doing so: DWRs received from the peer are not answers to the client's own
		go func() {
			for i := uint32(0); i < 400; i++ {
				select {
				case <-mc.Closed():
					return
				case <-time.After(sc.W / 3):
				}
				mc.Feed(peer.DWR(0x7e580000+i, i))
			}
		}()
	}
	// horizon
	roundMax := time.Duration(sc.N+1) * sc.R
	H := 30 * (sc.W + roundMax)
	deadline := time.After(H)
	select {
	case <-mc.Closed():
		closedAt = time.Now()
	case <-deadline:
	}
	synctest.Wait()
	// let a possibly still running watchdog show itself: two more periods
	smu.Lock()
	nAtEnd := len(dwrs)
	smu.Unlock()
	time.Sleep(2*sc.W + 2*roundMax)
	synctest.Wait()
	smu.Lock()
	defer smu.Unlock()
	dwrsAfter := len(dwrs) - nAtEnd + mc.WritesAfterClose()
	leaked := libGoroutines()
	defer func() {
		mc.FeedEOF()
		conn.Close()
		// virtual time stops when the bubble's root returns: let a watchdog round
		// that is in flight run out of timers and notice the close
		time.Sleep(sc.W + roundMax + sc.R)
		synctest.Wait()
	}()
	_ = start
	desc := sc.String()
	{
		answeredPeer := 0
		for _, w := range mc.Writes() {
			msgs, _ := peer.SplitMessages(w.Data)
			for _, m := range msgs {
				if h := peer.Header(m); h.Code == 280 && h.Flags&0x80 == 0 && h.HopByHop == 0x7e570001 && h.EndToEnd == 0x7e570002 {
					if rc := peer.FindU32(m, peer.ResultCode); len(rc) == 1 && rc[0] == 2001 {
						answeredPeer++
					}
				}
			}
		}
		if answeredPeer != 1 {
			c.Fail(sig("peer-dwr-unanswered"), nil, nil, "the peer sent a DWR of its own right after the handshake; the client (a state machine with the watchdog enabled) wrote %d success DWAs carrying its identifiers; %s", answeredPeer, desc)
			return
		}
	}
	// group the DWRs into rounds by identity of the bytes
	type rnd struct {
		first, last time.Time
		tx          int
		data        []byte
	}
	var rounds []rnd
	for _, d := range dwrs[:nAtEnd] {
		if len(rounds) > 0 && bytes.Equal(rounds[len(rounds)-1].data, d.data) {
			r := &rounds[len(rounds)-1]
			if gap := d.t.Sub(r.last); gap < sc.R {
				c.Fail(sig("retransmit-spacing"), nil, nil, "a DWR was retransmitted %v after the previous transmission, RetransmitInterval is %v; %s", gap, sc.R, desc)
				return
			}
			r.last = d.t
			r.tx++
			continue
		}
		rounds = append(rounds, rnd{first: d.t, last: d.t, tx: 1, data: d.data})
	}
	for i, r := range rounds {
		// identity
		if oh, or := peer.Find(r.data, peer.OriginHost), peer.Find(r.data, peer.OriginRealm); len(oh) != 1 || string(oh[0]) != "cli.local" || len(or) != 1 || string(or[0]) != "realm.local" {
			c.Fail(sig("dwr-identity"), r.data, nil, "DWR of round %d does not carry the client's identity (%q / %q); %s", i+1, oh, or, desc)
			return
		}
		prevEnd := hsDone
		if i > 0 {
			prevEnd = rounds[i-1].last
		}
		if gap := r.first.Sub(prevEnd); gap < sc.W {
			c.Fail(sig("watchdog-spacing"), nil, nil, "round %d started %v after the previous round / the handshake ended, WatchdogInterval is %v; %s", i+1, gap, sc.W, desc)
			return
		}
		if r.tx > sc.N+1 {
			c.Fail(sig("too-many-transmissions"), nil, nil, "round %d has %d transmissions, MaxRetransmits+1 = %d; %s", i+1, r.tx, sc.N+1, desc)
			return
		}
	}
	// expected fate
	expectClose := false
	expectRoundTx := func(i int) int { return 1 } // transmissions in round i (1-based) when answered at once
	switch sc.pattern {
	case aAll:
	case aStopAfter:
		expectClose = true
	case aOnlyRetx:
		if sc.j > sc.N {
			expectClose = true
		}
		expectRoundTx = func(int) int { return min(sc.j, sc.N) + 1 }
	case aFailure:
		expectClose = true
	case aLateBurst:
		expectClose = true
	}
	closed := !closedAt.IsZero()
	if expectClose != closed {
		if closed {
			// which round was being answered?
			c.Fail(sig("closed-responsive-peer"), nil, nil, "the client closed the connection at +%v although every watchdog request was answered with success within the retransmission budget (%d rounds seen); %s", closedAt.Sub(hsDone), len(rounds), desc)
		} else {
			c.Fail(sig("silent-peer-not-detected"), nil, nil, "the connection was still open after %v (%d rounds) although the peer stopped answering; %s", H, len(rounds), desc)
		}
		return
	}
	if closed {
		// the last round must have used the whole budget: 1 + N transmissions, then close >= R later
		last := rounds[len(rounds)-1]
		wantTx := sc.N + 1
		if last.tx != wantTx {
			c.Fail(sig("retransmit-count"), nil, nil, "the unanswered request was transmitted %d times before the close, expected 1 + MaxRetransmits = %d; %s", last.tx, wantTx, desc)
			return
		}
		if gap := closedAt.Sub(last.last); gap < sc.R {
			c.Fail(sig("closed-too-early"), nil, nil, "closed %v after the last retransmission, RetransmitInterval is %v; %s", gap, sc.R, desc)
			return
		}
		wantRounds := 1
		if sc.pattern == aStopAfter || sc.pattern == aLateBurst {
			wantRounds = sc.n + 1
		}
		if sc.pattern == aLateBurst && len(rounds) >= sc.n && rounds[sc.n-1].tx != sc.N+1 {
			c.Fail(sig("retransmit-count"), nil, nil, "round %d (answered only after its last transmission) had %d transmissions, expected %d; %s", sc.n, rounds[sc.n-1].tx, sc.N+1, desc)
			return
		}
		if len(rounds) != wantRounds {
			c.Fail(sig("round-count"), nil, nil, "%d watchdog rounds before the close, expected %d; %s", len(rounds), wantRounds, desc)
			return
		}
		if dwrsAfter != 0 {
			c.Fail(sig("writes-after-close"), nil, nil, "%d more writes were attempted during the two periods after the client closed the connection; %s", dwrsAfter, desc)
			return
		}
		if len(leaked) != 0 {
			c.Fail(sig("goroutine-after-close"), nil, nil, "%d library goroutine(s) still exist two periods after the client closed the connection, e.g. in %s; %s", len(leaked), topLibFrame(leaked[0].Stack), desc)
			return
		}
		c.Event("silent_peer_detected", 1)
	} else {
		// bounded progress: at least floor(H / (W + longest round)) - 1 rounds
		perRound := sc.W + time.Duration(expectRoundTx(1)-1)*sc.R + 20*time.Millisecond
		minRounds := int(H/perRound) - 1
		if sc.schedule == sJustBefore {
			minRounds = int(H/(sc.W+time.Duration(expectRoundTx(1))*sc.R)) - 1
		}
		if len(rounds) < minRounds {
			c.Fail(sig("watchdog-too-slow"), nil, nil, "%d watchdog rounds within %v, at least %d expected; %s", len(rounds), H, minRounds, desc)
			return
		}
		for i, r := range rounds[:len(rounds)-1] {
			if want := expectRoundTx(i + 1); r.tx != want {
				c.Fail(sig("retransmit-count"), nil, nil, "round %d had %d transmissions, expected %d; %s", i+1, r.tx, want, desc)
				return
			}
		}
		c.Event("responsive_peer_spared", 1)
	}
	c.Event("dwr_rounds", len(rounds))
	c.Event("scripts", 1)
	if c.WantSample() && closed {
		var ts []string
		for _, d := range dwrs {
			ts = append(ts, d.t.Sub(hsDone).String())
		}
		c.Sample(map[string]any{"script": desc, "dwr_write_times_after_handshake": ts, "closed_at": closedAt.Sub(hsDone).String()})
	}
}

// runC13WriteFaults: the peer answers every DWR it receives; the transport refuses
// `errs` consecutive DWR writes (nothing accepted, temporary error) starting with
// the k-th. A responsive peer must not be closed, and the watchdog must go on.
func runC13WriteFaults(c *ev.Case, ctx *lib.Ctx, N, k, errs int) {
	sig := func(op string) ev.Sig {
		return ev.Sig{"op": op, "pattern": "answer-all", "schedule": "temporary-write-errors"}
	}
	W, R := 5*time.Second, time.Second
	settings := &sm.Settings{OriginHost: "cli.local", OriginRealm: "realm.local", VendorID: 13, ProductName: "verif",
		HostIPAddresses: []datatype.Address{datatype.Address([]byte{192, 0, 2, 9})}}
	machine := sm.New(settings)
	cli := &sm.Client{Dict: ctx.Parser, Handler: machine, MaxRetransmits: uint(N), RetransmitInterval: R,
		EnableWatchdog: true, WatchdogInterval: W,
		AuthApplicationID: []*diam.AVP{diam.NewAVP(258, 0x40, 0, datatype.Unsigned32(4))}}
	mc := memnet.NewConn()
	var smu sync.Mutex
	attempts, refused, received := 0, 0, 0
	mc.Script = func(seq int, b []byte) memnet.Outcome {
		if len(b) >= 20 && peer.Header(b).Code == 280 {
			smu.Lock()
			defer smu.Unlock()
			attempts++
			if attempts >= k && refused < errs {
				refused++
				return memnet.Outcome{Accept: 0, Err: &memnet.TempError{Msg: "EAGAIN"}, StallAt: -1}
			}
		}
		return memnet.Outcome{Accept: -1, StallAt: -1}
	}
	mc.OnWrite = func(w memnet.WriteRec) {
		msgs, _ := peer.SplitMessages(w.Data)
		if len(msgs) != 1 {
			return
		}
		h := peer.Header(msgs[0])
		switch {
		case h.Code == 257 && h.Flags&0x80 != 0:
			mc.Feed(peer.StdCEA(h.HopByHop, h.EndToEnd, 2001, 4))
		case h.Code == 280 && h.Flags&0x80 != 0:
			smu.Lock()
			received++
			smu.Unlock()
			mc.Feed(peer.DWA(h.HopByHop, h.EndToEnd, 2001))
		}
	}
	conn, err := cli.NewConn(mc, "peer:3868")
	if err != nil {
		c.Fail(sig("setup"), nil, nil, "handshake failed: %v", err)
		return
	}
	defer func() {
		mc.FeedEOF()
		conn.Close()
		time.Sleep(W + time.Duration(N+2)*R)
		synctest.Wait()
	}()
	rounds := k + errs + 4
	H := time.Duration(rounds) * (W + time.Duration(N+1)*R)
	select {
	case <-mc.Closed():
		smu.Lock()
		defer smu.Unlock()
		c.Fail(sig("closed-responsive-peer"), nil, nil, "MaxRetransmits=%d: the transport refused %d DWR write(s) with a temporary error (from write attempt %d on); the peer answered all %d DWRs it received, yet the client closed the connection", N, refused, k, received)
		return
	case <-time.After(H):
	}
	synctest.Wait()
	smu.Lock()
	defer smu.Unlock()
	if refused != errs {
		c.Fail(sig("watchdog-too-slow"), nil, nil, "only %d DWR writes were attempted within %v (%d refused, %d planned)", attempts, H, refused, errs)
		return
	}
	if received < k-1+2 {
		c.Fail(sig("watchdog-too-slow"), nil, nil, "after %d refused DWR writes the watchdog sent only %d DWRs in %v (attempts %d)", refused, received, H, attempts)
		return
	}
	c.Event("responsive_peer_spared", 1)
	c.Event("write_fault_scripts", 1)
	c.Event("dwr_rounds", received)
}

// server role: DWRs to a handshaken state machine
func runC13Server(c *ev.Case, ctx *lib.Ctx, variant int) {
	settings := &sm.Settings{OriginHost: "srv.local", OriginRealm: "realm.local", VendorID: 13, ProductName: "verif",
		HostIPAddresses: []datatype.Address{datatype.Address([]byte{192, 0, 2, 1})}}
	if variant&1 != 0 {
		settings.OriginStateID = 77
	}
	machine := sm.New(settings)
	mc := memnet.NewConn()
	ln := memnet.NewListener()
	srv := &diam.Server{Handler: machine, Dict: ctx.Parser}
	go srv.Serve(ln)
	ln.Offer(mc)
	defer func() {
		mc.FeedEOF()
		ln.Close()
		synctest.Wait()
	}()
	mc.Feed(peer.StdCER(1, 1, 4))
	synctest.Wait()
	if variant&32 != 0 {
		// before the well-formed ones: 200 DWRs that lack the Origin-Host (each one an error report
		// that nobody reads) and 100 requests nobody handles
		for i := 0; i < 200; i++ {
			mc.Feed(cutAVP(peer.DWR(uint32(0x0D000000+i), 1), peer.OriginHost))
			if i%2 == 0 {
				mc.Feed(peer.Msg(0xC0, 275, 0, uint32(0x0E000000+i), 1, peer.Str(peer.SessionID, refcodec.UTF8String, "s;1")))
			}
		}
		synctest.Wait()
	}
	n0 := len(mc.Writes())
	ids := [][2]uint32{{0, 0}, {1, 0xffffffff}, {0x80000000, 7}, {c.R.Uint32(), c.R.Uint32()}}
	sent := 0
	for _, id := range ids {
		avps := peer.Identity("peer.example", "example")
		if variant&2 != 0 {
			avps = append(avps, peer.U32(peer.OriginState, 5))
		}
		if variant&8 != 0 {
			// realm first, undefined AVPs (plain and vendor-specific) around the identity
			u := &refcodec.Node{Code: 0x00E00123, Flags: 0, Kind: refcodec.Unknown, B: []byte{1, 2, 3, 4, 5}}
			v := &refcodec.Node{Code: 0x00E00124, Flags: 0x80, Vendor: 4242, Kind: refcodec.Unknown, B: []byte("vendor")}
			avps[0], avps[1] = avps[1], avps[0]
			avps = append(append([]*refcodec.Node{u}, avps...), v)
		}
		if variant&16 != 0 {
			// another host of the peer's realm speaks on the connection (a peer behind a virtual address)
			for _, a := range avps {
				if a.Code == peer.OriginHost {
					a.B = []byte("peer-b.example")
				}
			}
		}
		flags := uint8(0x80)
		if variant&4 != 0 {
			flags |= 0x40
		}
		mc.Feed(peer.Msg(flags, 280, 0, id[0], id[1], avps...))
		sent++
		synctest.Wait()
		w := mc.Writes()
		if len(w) != n0+sent {
			c.Fail(ev.Sig{"op": "dwa-count", "role": "server"}, nil, nil, "%d messages written after %d DWRs from a handshaken peer (variant %d)", len(w)-n0, sent, variant)
			return
		}
		dwa := w[len(w)-1].Data
		reqH := refcodec.Header{Version: 1, Flags: flags, Code: 280, HopByHop: id[0], EndToEnd: id[1]}
		if !checkAnswer(c, "DWA", reqH, dwa, 2001, true) {
			return
		}
		if oh, or := peer.Find(dwa, peer.OriginHost), peer.Find(dwa, peer.OriginRealm); len(oh) != 1 || string(oh[0]) != "srv.local" || len(or) != 1 || string(or[0]) != "realm.local" {
			c.Fail(ev.Sig{"op": "dwa-identity", "role": "server"}, dwa, nil, "DWA identity %q / %q", oh, or)
			return
		}
		// the local identity includes the configured Origin-State-Id (as in the state machine's CER, CEA and DWR)
		if settings.OriginStateID != 0 {
			if os := peer.Find(dwa, peer.OriginState); len(os) != 1 || len(os[0]) != 4 || binary.BigEndian.Uint32(os[0]) != uint32(settings.OriginStateID) {
				c.Fail(ev.Sig{"op": "dwa-origin-state-id", "role": "server"}, dwa, nil, "Settings.OriginStateID=%d, the DWA carries Origin-State-Id %x", settings.OriginStateID, os)
				return
			}
		} else if os := peer.Find(dwa, peer.OriginState); len(os) != 0 {
			c.Fail(ev.Sig{"op": "dwa-origin-state-id", "role": "server"}, dwa, nil, "no Origin-State-Id configured, the DWA carries %x (the peer's?)", os)
			return
		}
		c.Event("dwas_checked", 1)
	}
	if mc.CloseCount() != 0 {
		c.Fail(ev.Sig{"op": "closed", "role": "server"}, nil, nil, "the state machine closed the connection while answering DWRs")
	}
}

// runC13Concurrent: K handshaken connections share one state machine; each
// pipelines DWRs with its own identifiers; every DWA must carry the
// identifiers of the request it answers (the race detector watches the rest).
func runC13Concurrent(c *ev.Case, ctx *lib.Ctx, K, per int) {
	settings := &sm.Settings{OriginHost: "srv.local", OriginRealm: "realm.local", VendorID: 13, ProductName: "verif",
		HostIPAddresses: []datatype.Address{datatype.Address([]byte{192, 0, 2, 1})}}
	machine := sm.New(settings)
	ln := memnet.NewListener()
	srv := &diam.Server{Handler: machine, Dict: ctx.Parser}
	go srv.Serve(ln)
	conns := make([]*memnet.Conn, K)
	for i := range conns {
		conns[i] = memnet.NewConn()
		conns[i].Remote = memnet.Addr{Net: "tcp", Str: fmt.Sprintf("10.0.0.%d:5", i+1)}
		ln.Offer(conns[i])
		conns[i].Feed(peer.StdCER(uint32(i+1), uint32(i+1), 4))
	}
	synctest.Wait()
	defer func() {
		for _, mc := range conns {
			mc.FeedEOF()
		}
		ln.Close()
		synctest.Wait()
	}()
	// all connections send their bursts at the same moment, with different flags
	for i, mc := range conns {
		var burst []byte
		for k := 0; k < per; k++ {
			id := uint32(i+1)<<20 | uint32(k)
			b := peer.DWR(id, ^id)
			if (i+k)%2 == 1 {
				b[4] |= 0x40
			}
			burst = append(burst, b...)
		}
		mc.Feed(burst)
	}
	synctest.Wait()
	for i, mc := range conns {
		msgs, rest := peer.SplitMessages(mc.Written())
		if len(rest) != 0 || len(msgs) != per+1 {
			c.Fail(ev.Sig{"op": "dwa-count", "role": "server-concurrent"}, nil, nil, "connection %d: %d messages written for 1 CER + %d DWRs", i, len(msgs), per)
			return
		}
		for k, m := range msgs[1:] {
			id := uint32(i+1)<<20 | uint32(k)
			fl := uint8(0x80)
			if (i+k)%2 == 1 {
				fl |= 0x40
			}
			if !checkAnswer(c, "DWA (several connections at once)", refcodec.Header{Version: 1, Flags: fl, Code: 280, HopByHop: id, EndToEnd: ^id}, m, 2001, true) {
				return
			}
		}
		c.Event("dwas_checked", per)
	}
}

func TestC13(t *testing.T) {
	rec := ev.Open(t, "C13")
	defer rec.Close()
	ctx := defCtx(t)
	_, restore := captureLog()
	defer restore()
	var scripts []c13Script
	for N := 0; N <= 3; N++ {
		for _, wr := range [][2]time.Duration{{5 * time.Second, time.Second}, {2 * time.Second, 3 * time.Second}} {
			for sch := 0; sch < nSchedules; sch++ {
				base := c13Script{N: N, W: wr[0], R: wr[1], schedule: sch}
				s := base
				s.pattern = aAll
				scripts = append(scripts, s)
				for n := 0; n <= 3; n++ {
					s = base
					s.pattern, s.n = aStopAfter, n
					scripts = append(scripts, s)
				}
				for j := 0; j <= N+1; j++ {
					s = base
					s.pattern, s.j = aOnlyRetx, j
					scripts = append(scripts, s)
				}
				s = base
				s.pattern = aFailure
				scripts = append(scripts, s)
			}
		}
	}
	// late answers: every transmission of one round is answered after the last one, then silence
	for N := 0; N <= 3; N++ {
		for n := 1; n <= 2; n++ {
			scripts = append(scripts, c13Script{N: N, W: 5 * time.Second, R: time.Second, pattern: aLateBurst, n: n, schedule: sImmediate})
		}
	}
	// the documented defaults, with the interval fields left unset
	for N := 0; N <= 2; N++ {
		for sch := 0; sch < nSchedules; sch++ {
			base := c13Script{N: N, W: 5 * time.Second, R: time.Second, schedule: sch, defaults: true}
			s := base
			s.pattern = aAll
			scripts = append(scripts, s)
			s = base
			s.pattern, s.n = aStopAfter, 2
			scripts = append(scripts, s)
			s = base
			s.pattern, s.j = aOnlyRetx, N
			scripts = append(scripts, s)
		}
	}
	reps := rec.N(4, 600)
	rec.Suite("client-scripts", len(scripts)*reps, func(c *ev.Case) {
		sc := scripts[c.I%len(scripts)]
		sc.dress = (c.I/len(scripts) + c.I) % nC13Dress
		if (c.I/7)%3 == 1 && sc.schedule != sLateReturn {
			// (not with a transport whose Write returns late: the answer to the peer's DWR would wait
			// for the connection's write lock while virtual time stands still - a mutex wait is not
			// a durable block for the bubble)
			sc.peerDWRs = true
			c.Class("peer-sends-dwrs-throughout/%s", aNames[sc.pattern])
		}
		if (c.I/5)%4 == 3 {
			sc.noise = []int{3, 70, 200}[(c.I/20)%3]
			c.Class("unhandled-requests-unread-reports=%d", sc.noise)
		}
		c.Class("N=%d/%s/%s/W>R=%v/defaults=%v", sc.N, aNames[sc.pattern], sNames[sc.schedule], sc.W > sc.R, sc.defaults)
		c.Class("dwa-shape=%d/%s", sc.dress, aNames[sc.pattern])
		leak := runBubbleWD(t, rec, c, 30*time.Second, func() { runC13Client(c, ctx, sc) })
		if leak != "" && !c.Failed() {
			c.Fail(ev.Sig{"op": "bubble-leak", "pattern": aNames[sc.pattern], "schedule": sNames[sc.schedule]}, nil, nil, "goroutines left blocked after the scenario: %s; %s", leak, sc.String())
		}
	})
	// budgets that mean "for ever": the top of uint, and the values around the top of int
	huge := []uint{^uint(0), ^uint(0) - 1, 1 << 63, 1<<63 - 1, 1 << 62}
	rec.Suite("huge-budgets", len(huge)*3, func(c *ev.Case) {
		b, at := huge[c.I%len(huge)], 1+c.I/len(huge)
		c.Class("huge-budget/%d/answers-transmission=%d", c.I%len(huge), at)
		leak := runBubbleWD(t, rec, c, 60*time.Second, func() { runHugeBudget(c, ctx, "C13", b, 1, at, true) })
		if leak != "" && !c.Failed() {
			c.Fail(ev.Sig{"op": "bubble-leak"}, nil, nil, "goroutines left blocked: %s", leak)
		}
	})
	rec.Suite("two-connections-one-client", 8, func(c *ev.Case) {
		conc, budget := c.I%2 == 1, uint(c.I/2)
		c.Class("two-connections-one-client/concurrent-dials=%v/N=%d", conc, budget)
		leak := runBubbleWD(t, rec, c, 60*time.Second, func() { runTwoConnections(c, ctx, conc, budget) })
		if leak != "" && !c.Failed() {
			c.Fail(ev.Sig{"op": "bubble-leak"}, nil, nil, "goroutines left blocked: %s", leak)
		}
	})
	rec.Suite("client-write-faults", 4*3*4, func(c *ev.Case) {
		N, k, errs := c.I%4, 1+(c.I/4)%3, 1+(c.I/12)%4
		c.Class("write-faults/N=%d/first=%d/errors=%d", N, k, errs)
		leak := runBubbleWD(t, rec, c, 60*time.Second, func() { runC13WriteFaults(c, ctx, N, k, errs) })
		if leak != "" && !c.Failed() {
			c.Fail(ev.Sig{"op": "bubble-leak", "pattern": "answer-all", "schedule": "temporary-write-errors"}, nil, nil, "goroutines left blocked after the scenario: %s", leak)
		}
	})
	rec.Exhaustive("client-write-faults")
	rec.Suite("server-dwr-concurrent", rec.N(40, 60000), func(c *ev.Case) {
		K := 2 + c.I%5
		c.Class("server-dwr-concurrent/K=%d", K)
		leak := runBubbleWD(t, rec, c, 60*time.Second, func() { runC13Concurrent(c, ctx, K, 40) })
		if leak != "" && !c.Failed() {
			c.Fail(ev.Sig{"op": "bubble-leak", "role": "server"}, nil, nil, "goroutines left blocked after the scenario: %s", leak)
		}
	})
	rec.Suite("server-dwr", rec.N(64, 200000), func(c *ev.Case) {
		c.Class("server-dwr/variant=%d", c.I%64)
		leak := runBubbleWD(t, rec, c, 60*time.Second, func() { runC13Server(c, ctx, c.I%64) })
		if leak != "" && !c.Failed() {
			c.Fail(ev.Sig{"op": "bubble-leak", "role": "server"}, nil, nil, "goroutines left blocked after the scenario: %s", leak)
		}
	})
}

// runHugeBudget: budgets that mean "for ever" (MaxRetransmits near or at the top of uint).
// The peer answers the CER number cerAt and, of every watchdog request, the transmission
// number dwrAt: the dial succeeds, the connection is never closed by the client.
// Returns the number of CERs and DWRs seen. Shared by C12 (watchdog off) and C13.
func runHugeBudget(c *ev.Case, ctx *lib.Ctx, prop string, budget uint, cerAt, dwrAt int, watchdog bool) {
	sig := func(op string) ev.Sig { return ev.Sig{"op": op, "budget": "huge"} }
	settings := &sm.Settings{OriginHost: "cli.local", OriginRealm: "realm.local", VendorID: 13, ProductName: "verif",
		HostIPAddresses: []datatype.Address{datatype.Address([]byte{192, 0, 2, 9})}}
	machine := sm.New(settings)
	cli := &sm.Client{Dict: ctx.Parser, Handler: machine, MaxRetransmits: budget, RetransmitInterval: time.Second,
		EnableWatchdog: watchdog, WatchdogInterval: 5 * time.Second,
		AuthApplicationID: []*diam.AVP{diam.NewAVP(258, 0x40, 0, datatype.Unsigned32(4))}}
	mc := memnet.NewConn()
	var smu sync.Mutex
	cers, dwrTx, rounds := 0, 0, 0
	var lastDWR []byte
	mc.OnWrite = func(w memnet.WriteRec) {
		msgs, _ := peer.SplitMessages(w.Data)
		if len(msgs) != 1 {
			return
		}
		h := peer.Header(msgs[0])
		smu.Lock()
		defer smu.Unlock()
		switch {
		case h.Code == 257 && h.Flags&0x80 != 0:
			cers++
			if cers == cerAt {
				mc.Feed(peer.StdCEA(h.HopByHop, h.EndToEnd, 2001, 4))
			}
		case h.Code == 280 && h.Flags&0x80 != 0:
			if lastDWR != nil && bytes.Equal(lastDWR, msgs[0]) {
				dwrTx++
			} else {
				lastDWR, dwrTx = append([]byte(nil), msgs[0]...), 1
				rounds++
			}
			if dwrTx == dwrAt {
				mc.Feed(peer.DWA(h.HopByHop, h.EndToEnd, 2001))
			}
		}
	}
	conn, err := cli.NewConn(mc, "peer:3868")
	desc := fmt.Sprintf("MaxRetransmits=%d (retry for ever), RetransmitInterval 1s, WatchdogInterval 5s (enabled=%v); the peer answers CER number %d and transmission number %d of every watchdog request", budget, watchdog, cerAt, dwrAt)
	smu.Lock()
	nc := cers
	smu.Unlock()
	if err != nil || conn == nil {
		c.Fail(sig("dial-outcome"), nil, nil, "the dial failed (%v) after %d CER transmissions although the peer answers with success; %s", err, nc, desc)
		return
	}
	defer func() {
		conn.Close()
		time.Sleep(10 * time.Second)
		synctest.Wait()
	}()
	if nc != cerAt {
		c.Fail(sig("cer-count"), nil, nil, "%d CER transmissions, the peer answered number %d; %s", nc, cerAt, desc)
		return
	}
	if watchdog {
		time.Sleep(62 * time.Second) // a dozen watchdog periods
		synctest.Wait()
		smu.Lock()
		r := rounds
		smu.Unlock()
		if mc.CloseCount() != 0 {
			c.Fail(sig("closed-responsive-peer"), nil, nil, "the client closed the connection after %d watchdog rounds although every request was answered within the budget; %s", r, desc)
			return
		}
		if r < 8 {
			c.Fail(sig("round-count"), nil, nil, "%d watchdog rounds in 62 s; %s", r, desc)
			return
		}
		c.Event("dwr_rounds", r)
	}
	c.Event("huge_budget_runs", 1)
}

// runTwoConnections: one sm.Client used for two connections (nothing in its API says it may
// not be), both peers answer the CER and every DWR with success. Neither connection is closed
// by the client, and each keeps being probed.
func runTwoConnections(c *ev.Case, ctx *lib.Ctx, concurrentDials bool, budget uint) {
	sig := func(op string) ev.Sig {
		return ev.Sig{"op": op, "how": "two-connections-through-one-client", "concurrent_dials": concurrentDials}
	}
	settings := &sm.Settings{OriginHost: "cli.local", OriginRealm: "realm.local", VendorID: 13, ProductName: "verif",
		HostIPAddresses: []datatype.Address{datatype.Address([]byte{192, 0, 2, 9})}}
	machine := sm.New(settings)
	cli := &sm.Client{Dict: ctx.Parser, Handler: machine, MaxRetransmits: budget, RetransmitInterval: time.Second,
		EnableWatchdog: true, WatchdogInterval: 5 * time.Second,
		AuthApplicationID: []*diam.AVP{diam.NewAVP(258, 0x40, 0, datatype.Unsigned32(4))}}
	var smu sync.Mutex
	rounds := [2]int{}
	mcs := [2]*memnet.Conn{memnet.NewConn(), memnet.NewConn()}
	for i := range mcs {
		i, mc := i, mcs[i]
		mc.Local = memnet.Addr{Net: "tcp", Str: fmt.Sprintf("10.1.2.%d:4000", i+1)}
		var last []byte
		mc.OnWrite = func(w memnet.WriteRec) {
			msgs, _ := peer.SplitMessages(w.Data)
			if len(msgs) != 1 {
				return
			}
			h := peer.Header(msgs[0])
			switch {
			case h.Code == 257 && h.Flags&0x80 != 0:
				mc.Feed(peer.StdCEA(h.HopByHop, h.EndToEnd, 2001, 4))
			case h.Code == 280 && h.Flags&0x80 != 0:
				smu.Lock()
				if last == nil || !bytes.Equal(last, msgs[0]) {
					last = append([]byte(nil), msgs[0]...)
					rounds[i]++
				}
				smu.Unlock()
				mc.Feed(peer.DWA(h.HopByHop, h.EndToEnd, 2001))
			}
		}
	}
	var conns [2]diam.Conn
	var errs [2]error
	if concurrentDials {
		var wg sync.WaitGroup
		for i := range mcs {
			wg.Add(1)
			go func(i int) {
				defer wg.Done()
				conns[i], errs[i] = cli.NewConn(mcs[i], "peer:3868")
			}(i)
		}
		wg.Wait()
	} else {
		for i := range mcs {
			conns[i], errs[i] = cli.NewConn(mcs[i], "peer:3868")
			time.Sleep(700 * time.Millisecond)
		}
	}
	defer func() {
		for _, cn := range conns {
			if cn != nil {
				cn.Close()
			}
		}
		time.Sleep(10 * time.Second)
		synctest.Wait()
	}()
	desc := fmt.Sprintf("one sm.Client (watchdog every 5s, MaxRetransmits=%d, RetransmitInterval 1s) used for two connections, dials at the same time=%v; both peers answer the CER and every DWR with success", budget, concurrentDials)
	for i := range conns {
		if errs[i] != nil || conns[i] == nil {
			c.Fail(sig("dial-outcome"), nil, nil, "dial %d failed: %v; %s", i+1, errs[i], desc)
			return
		}
	}
	time.Sleep(62 * time.Second)
	synctest.Wait()
	smu.Lock()
	r := rounds
	smu.Unlock()
	for i, mc := range mcs {
		if mc.CloseCount() != 0 {
			c.Fail(sig("closed-responsive-peer"), nil, nil, "connection %d was closed by the client after %d watchdog rounds (the other one saw %d) although its peer answered every request; %s", i+1, r[i], r[1-i], desc)
			return
		}
		if r[i] < 8 {
			c.Fail(sig("round-count"), nil, nil, "connection %d saw %d watchdog rounds in 62 s; %s", i+1, r[i], desc)
			return
		}
	}
	c.Event("dwr_rounds", r[0]+r[1])
	c.Event("two_connection_runs", 1)
}
