package props

import (
	"bytes"
	"context"
	"fmt"
	"strings"
	"sync"
	"sync/atomic"
	"testing"
	"time"

	"github.com/anishathalye/porcupine"
	"github.com/fiorix/go-diameter/v4/diam"
	"github.com/fiorix/go-diameter/v4/diam/dict"

	"verifharness/ev"
	"verifharness/memnet"
	"verifharness/refcodec"
)

// the nine registration keys around a message's own key
const (
	kOwnIdx = iota
	kIdxOtherApp
	kIdxOtherCode
	kIdxOtherR
	kOwnName
	kOppositeName
	kOtherCmdName
	kAllByName
	kAllByIdx
	kOddName // the command's short name plus a character that is neither R nor A: a key of its own, never selected
	nKeys
)

var keyNames = []string{"own-index", "index-other-app", "index-other-code", "index-other-R", "own-name", "opposite-R/A-name", "other-command-name", "ALL-by-name", "ALL-by-index", "odd-name"}

type c09Msg struct {
	app, code uint32
	req       bool
	short     string // dictionary short name of the command ("" = unresolvable)
}

func c09Messages() []c09Msg {
	var out []c09Msg
	for _, req := range []bool{true, false} {
		out = append(out,
			c09Msg{0, 257, req, "CE"},        // base command
			c09Msg{0, 280, req, "DW"},        // base command
			c09Msg{4, 272, req, "CC"},        // application command
			c09Msg{16777251, 316, req, "UL"}, // application command (S6a)
			c09Msg{16777251, 257, req, "CE"}, // application id that falls back to the base dictionary
			c09Msg{99, 280, req, "DW"},       // unknown application id, base command
		)
	}
	return out
}

type fired struct {
	mu    sync.Mutex
	calls []int
}

// handler returns a handler that records id. Its dynamic type depends on id (a
// function, a pointer to a struct, a struct value): applications register
// whatever implements diam.Handler, and a key registered again may well get a
// handler of another type than the one it replaces.
func (f *fired) handler(id int) diam.Handler {
	switch id % 3 {
	case 1:
		return &ptrHandler{f, id}
	case 2:
		return valHandler{f, id}
	}
	return diam.HandlerFunc(func(diam.Conn, *diam.Message) { f.note(id) })
}

func (f *fired) note(id int) {
	f.mu.Lock()
	f.calls = append(f.calls, id)
	f.mu.Unlock()
}

type ptrHandler struct {
	f  *fired
	id int
}

func (h *ptrHandler) ServeDIAM(diam.Conn, *diam.Message) { h.f.note(h.id) }

type valHandler struct {
	f  *fired
	id int
}

func (h valHandler) ServeDIAM(diam.Conn, *diam.Message) { h.f.note(h.id) }
func (f *fired) take() []int {
	f.mu.Lock()
	defer f.mu.Unlock()
	c := f.calls
	f.calls = nil
	return c
}

// register installs handler id (key*10+generation) under key k for message m.
func c09Register(mux *diam.ServeMux, f *fired, m c09Msg, k int, gen int) {
	h := f.handler(k*10 + gen)
	ra := map[bool]string{true: "R", false: "A"}
	switch k {
	case kOwnIdx:
		mux.HandleIdx(diam.CommandIndex{AppID: m.app, Code: m.code, Request: m.req}, h)
	case kIdxOtherApp:
		mux.HandleIdx(diam.CommandIndex{AppID: m.app + 1, Code: m.code, Request: m.req}, h)
	case kIdxOtherCode:
		mux.HandleIdx(diam.CommandIndex{AppID: m.app, Code: m.code + 1, Request: m.req}, h)
	case kIdxOtherR:
		mux.HandleIdx(diam.CommandIndex{AppID: m.app, Code: m.code, Request: !m.req}, h)
	case kOwnName:
		mux.Handle(m.short+ra[m.req], h)
	case kOppositeName:
		mux.Handle(m.short+ra[!m.req], h)
	case kOtherCmdName:
		other := "AC"
		mux.Handle(other+ra[m.req], h)
	case kAllByName:
		mux.Handle("ALL", h)
	case kAllByIdx:
		mux.HandleIdx(diam.ALL_CMD_INDEX, h)
	case kOddName:
		mux.Handle(m.short+[]string{"X", "r", "a", "1", "RA", ""}[(int(m.code)+gen)%6], h)
	}
}

// decide: the reference decision function. slots: index, name, catch-all
// (0 = not registered); returns the handler id that must fire, 0 for none.
func decide(idx, name, all int) int {
	if idx != 0 {
		return idx
	}
	if name != 0 {
		return name
	}
	return all
}

type c09Key struct{}

func contextWith(p *int) context.Context { return context.WithValue(context.Background(), c09Key{}, p) }

func TestC09(t *testing.T) {
	rec := ev.Open(t, "C09")
	defer rec.Close()
	ctx := defCtx(t)
	msgs := c09Messages()

	mk := func(m c09Msg) *diam.Message {
		fl := uint8(0)
		if m.req {
			fl = diam.RequestFlag
		}
		return diam.NewMessage(m.code, fl, m.app, 7, 8, ctx.Parser)
	}
	var lastReport *diam.ErrorReport
	drain := func(mux *diam.ServeMux) int {
		n := 0
		for {
			select {
			case lastReport = <-mux.ErrorReports():
				n++
			default:
				return n
			}
		}
	}

	// 1. the full decision table: all 2^9 subsets x 12 messages, then every
	//    registered key registered again with a second handler
	rec.Suite("decision-table", 1<<nKeys, func(c *ev.Case) {
		subset := c.I
		for mi, m := range msgs {
			mux := diam.NewServeMux()
			f := &fired{}
			slot := [3]int{} // idx, name, all
			for k := 0; k < nKeys; k++ {
				if subset&(1<<k) == 0 {
					continue
				}
				c09Register(mux, f, m, k, 1)
				switch k {
				case kOwnIdx:
					slot[0] = k*10 + 1
				case kOwnName:
					slot[1] = k*10 + 1
				case kAllByName, kAllByIdx:
					slot[2] = k*10 + 1
				}
			}
			for round := 0; round < 2; round++ {
				drain(mux)
				want := decide(slot[0], slot[1], slot[2])
				var p string
				var bad bool
				msg := mk(m)
				p, bad = guard(func() { mux.ServeDIAM(nil, msg) })
				got := f.take()
				reports := drain(mux)
				desc := fmt.Sprintf("message {app %d code %d request %v}, registered %s (round %d)", m.app, m.code, m.req, subsetNames(subset), round)
				sig := func(op string) ev.Sig { return ev.Sig{"op": op, "round": round} }
				switch {
				case bad:
					c.Fail(sig("panic"), nil, nil, "ServeDIAM panicked: %s; %s", p, desc)
					return
				case want == 0 && len(got) != 0:
					c.Fail(sig("unexpected-handler"), nil, nil, "handler %v called although neither the index, the name nor a catch-all is registered; %s", hname(got), desc)
					return
				case want == 0 && reports != 1:
					c.Fail(sig("no-error-report"), nil, nil, "no handler applies and %d error reports were offered (expected 1); %s", reports, desc)
					return
				case want == 0 && (lastReport == nil || lastReport.Message != msg || lastReport.Error == nil):
					c.Fail(sig("error-report-content"), nil, nil, "no handler applies; the error report offered does not carry the message that was dispatched and an error (report %+v); %s", lastReport, desc)
					return
				case want != 0 && (len(got) != 1 || got[0] != want):
					c.Fail(sig("wrong-handler"), nil, nil, "handlers called %v, expected exactly [%s]; %s", hname(got), hname([]int{want}), desc)
					return
				case want != 0 && reports != 0:
					c.Fail(sig("spurious-error-report"), nil, nil, "handler %s ran and %d error report(s) were offered; %s", hname(got), reports, desc)
					return
				}
				c.Event("dispatches", 1)
				if mi == 0 && round == 0 {
					c.Class("selected=%s", hname([]int{want}))
				}
				// second round: register every key of the subset again, in key order
				if round == 0 {
					for k := 0; k < nKeys; k++ {
						if subset&(1<<k) == 0 {
							continue
						}
						c09Register(mux, f, m, k, 2)
						switch k {
						case kOwnIdx:
							slot[0] = k*10 + 2
						case kOwnName:
							slot[1] = k*10 + 2
						case kAllByName, kAllByIdx:
							slot[2] = k*10 + 2
						}
					}
				}
			}
		}
	})
	rec.Exhaustive("decision-table")

	// 2. (application, code) pairs the dictionary does not resolve - an unknown
	//    code, and codes that only a parent or another application defines -
	//    with handlers registered under the names / indexes those codes have
	//    elsewhere: only the catch-all may run, else an error report
	unres := [][2]uint32{{0, 8388607}, {4, 265}, {16777238, 265}, {16777251, 265}, {16777251, 272}, {16777238, 316}, {3, 272}, {99, 265}}
	rec.Suite("unresolvable-command", len(unres)*8*2, func(c *ev.Case) {
		u := unres[c.I%len(unres)]
		bits := (c.I / len(unres)) % 8
		req := c.I/(len(unres)*8) == 0
		if _, ok := ctx.Ix.FindCommand(u[0], u[1]); ok {
			c.Fail(ev.Sig{"op": "harness-selfcheck"}, nil, nil, "(%d,%d) is resolvable by the reference", u[0], u[1])
			return
		}
		mux := diam.NewServeMux()
		f := &fired{}
		if bits&1 != 0 {
			mux.Handle("ALL", f.handler(1))
		}
		if bits&2 != 0 {
			for _, n := range []string{"CER", "AAR", "AAA", "CCR", "CCA", "ULR", "ULA"} {
				mux.Handle(n, f.handler(2))
			}
		}
		if bits&4 != 0 {
			mux.HandleIdx(diam.CommandIndex{AppID: 1, Code: 265, Request: req}, f.handler(3))
			mux.HandleIdx(diam.CommandIndex{AppID: 4, Code: 272, Request: req}, f.handler(3))
			mux.HandleIdx(diam.CommandIndex{AppID: 0, Code: 257, Request: req}, f.handler(3))
		}
		fl := uint8(0)
		if req {
			fl = diam.RequestFlag
		}
		m := diam.NewMessage(u[1], fl, u[0], 1, 1, ctx.Parser)
		var p string
		var bad bool
		p, bad = guard(func() { mux.ServeDIAM(nil, m) })
		got := f.take()
		reports := drain(mux)
		c.Class("unresolvable/app=%d/code=%d/all=%v", u[0], u[1], bits&1 != 0)
		if bad {
			c.Fail(ev.Sig{"op": "panic"}, nil, nil, "ServeDIAM panicked: %s", p)
			return
		}
		if bits&1 != 0 && (len(got) != 1 || got[0] != 1) || bits&1 == 0 && (len(got) != 0 || reports != 1) {
			c.Fail(ev.Sig{"op": "unresolvable-command"}, nil, nil, "message {app %d code %d request %v}, which the dictionary does not define: handlers called %v (1 = catch-all, 2 = a name handler, 3 = an index handler), %d error reports; catch-all registered=%v", u[0], u[1], req, got, reports, bits&1 != 0)
			return
		}
		c.Event("dispatches", 1)
	})

	// 2b. one mux, messages bound to different dictionaries (DefaultServeMux behind two
	//     servers, a mux shared by a server and a client, a Load after traffic started)
	//     that name the same (application, code) differently or do not know it: every
	//     message is dispatched by what its own dictionary says, in every order
	dictXML := func(short string) string {
		cmd := ""
		if short != "" {
			cmd = `<command code="8388100" short="` + short + `" name="Cmd-` + short + `"><request></request><answer></answer></command>`
		}
		return `<?xml version="1.0" encoding="UTF-8"?><diameter><application id="0" name="Base">` + cmd + `</application></diameter>`
	}
	var dicts []*dict.Parser
	for _, short := range []string{"XA", "XB", ""} {
		p, err := dict.NewParser()
		if err == nil {
			err = p.Load(strings.NewReader(dictXML(short)))
		}
		if err != nil {
			t.Fatalf("several-dictionaries: %v", err)
		}
		dicts = append(dicts, p)
	}
	orders3 := permutations(3)
	rec.Suite("several-dictionaries", len(orders3)*8*2, func(c *ev.Case) {
		order := orders3[c.I%len(orders3)]
		bits := (c.I / len(orders3)) % 8
		req := c.I/(len(orders3)*8) == 0
		suffix := map[bool]string{true: "R", false: "A"}[req]
		mux := diam.NewServeMux()
		f := &fired{}
		if bits&1 != 0 {
			mux.Handle("ALL", f.handler(9))
		}
		if bits&2 != 0 {
			mux.Handle("XA"+suffix, f.handler(1))
		}
		if bits&4 != 0 {
			mux.Handle("XB"+suffix, f.handler(2))
		}
		fl := uint8(0)
		if req {
			fl = diam.RequestFlag
		}
		c.Class("several-dictionaries/first=%d/registered=%03b", order[0], bits)
		for round := 0; round < 2; round++ {
			for _, di := range order {
				m := diam.NewMessage(8388100, fl, 0, 1, 1, dicts[di])
				p, bad := guard(func() { mux.ServeDIAM(nil, m) })
				got := f.take()
				reports := drain(mux)
				if bad {
					c.Fail(ev.Sig{"op": "panic"}, nil, nil, "ServeDIAM panicked: %s", p)
					return
				}
				// expected: the name handler of this message's dictionary, else the catch-all, else an error report
				want := 0
				switch {
				case di == 0 && bits&2 != 0:
					want = 1
				case di == 1 && bits&4 != 0:
					want = 2
				case bits&1 != 0:
					want = 9
				}
				if (want == 0 && (len(got) != 0 || reports != 1)) || (want != 0 && (len(got) != 1 || got[0] != want || reports != 0)) {
					c.Fail(ev.Sig{"op": "wrong-handler", "round": "several-dictionaries"}, nil, nil,
						"one mux, messages {app 0 code 8388100 request %v} bound to three dictionaries (0: short name XA, 1: short name XB, 2: command unknown) in the order %v, round %d: for the message of dictionary %d the handlers called were %v with %d error reports, expected handler %d (1 = XA%s, 2 = XB%s, 9 = catch-all, 0 = none and one error report); registered %03b",
						req, order, round, di, got, reports, want, suffix, suffix, bits)
					return
				}
				c.Event("dispatches", 1)
			}
		}
	})

	// 3. a sample of table rows through a real connection
	rec.Suite("via-connection", rec.N(200, 300000), func(c *ev.Case) {
		subset := c.R.IntN(1 << nKeys)
		m := msgs[c.R.IntN(len(msgs))]
		mux := diam.NewServeMux()
		f := &fired{}
		slot := [3]int{}
		for k := 0; k < nKeys; k++ {
			if subset&(1<<k) != 0 {
				c09Register(mux, f, m, k, 1)
				switch k {
				case kOwnIdx:
					slot[0] = k*10 + 1
				case kOwnName:
					slot[1] = k*10 + 1
				case kAllByName, kAllByIdx:
					slot[2] = k*10 + 1
				}
			}
		}
		fl := uint8(0)
		if m.req {
			fl = 0x80
		}
		wire := refcodec.EncodeMessage(refcodec.Header{Version: 1, Flags: fl, Code: m.code, App: m.app, HopByHop: 1, EndToEnd: 2},
			[]*refcodec.Node{{Code: 264, Flags: 0x40, Kind: refcodec.DiameterIdentity, B: []byte("h")}})
		mc := memnet.NewConn()
		if _, err := diam.NewConn(mc, "p", mux, ctx.Parser); err != nil {
			c.Fail(ev.Sig{"op": "setup"}, nil, nil, "%v", err)
			return
		}
		mc.Feed(wire)
		mc.FeedEOF()
		select {
		case <-mc.Closed():
		case <-time.After(60 * time.Second):
			c.Fail(ev.Sig{"op": "watchdog"}, nil, nil, "connection not closed 60 s after EOF")
			return
		}
		got := f.take()
		want := decide(slot[0], slot[1], slot[2])
		c.Class("via-connection/selected=%s", hname([]int{want}))
		if (want == 0 && len(got) != 0) || (want != 0 && (len(got) != 1 || got[0] != want)) {
			c.Fail(ev.Sig{"op": "wrong-handler", "via": "connection"}, wire, nil, "through a connection: handlers %v, expected %v; message %+v registered %s", hname(got), hname([]int{want}), m, subsetNames(subset))
			return
		}
		c.Event("dispatches", 1)
	})

	// 3b. a message that was read from the wire as one command and is dispatched after its header
	//     was rewritten to another (an agent that translates between applications, a test that
	//     reuses a decoded message): the rule applies to the message as it is when dispatched
	rec.Suite("header-rewritten-after-read", rec.N(300, 100000), func(c *ev.Case) {
		src := msgs[c.R.IntN(len(msgs))]
		m := msgs[c.R.IntN(len(msgs))]
		subset := c.R.IntN(1 << nKeys)
		mux := diam.NewServeMux()
		f := &fired{}
		slot := [3]int{}
		for k := 0; k < nKeys; k++ {
			if subset&(1<<k) != 0 {
				c09Register(mux, f, m, k, 1)
				switch k {
				case kOwnIdx:
					slot[0] = k*10 + 1
				case kOwnName:
					slot[1] = k*10 + 1
				case kAllByName, kAllByIdx:
					slot[2] = k*10 + 1
				}
			}
		}
		fl := uint8(0)
		if src.req {
			fl = 0x80
		}
		wire := refcodec.EncodeMessage(refcodec.Header{Version: 1, Flags: fl, Code: src.code, App: src.app, HopByHop: 1, EndToEnd: 2},
			[]*refcodec.Node{{Code: 264, Flags: 0x40, Kind: refcodec.DiameterIdentity, B: []byte("h")}})
		msg, err := diam.ReadMessage(bytes.NewReader(wire), ctx.Parser)
		if err != nil {
			return // the source command is not one the dictionary resolves on the wire
		}
		msg.Header.ApplicationID, msg.Header.CommandCode = m.app, m.code
		msg.Header.CommandFlags &^= diam.RequestFlag
		if m.req {
			msg.Header.CommandFlags |= diam.RequestFlag
		}
		drain(mux)
		p, bad := guard(func() { mux.ServeDIAM(nil, msg) })
		got := f.take()
		reports := drain(mux)
		want := decide(slot[0], slot[1], slot[2])
		c.Class("header-rewritten/selected=%s/same-command=%v", hname([]int{want}), src == m)
		desc := fmt.Sprintf("read from the wire as {app %d code %d request %v}, header rewritten to {app %d code %d request %v}, registered %s", src.app, src.code, src.req, m.app, m.code, m.req, subsetNames(subset))
		switch {
		case bad:
			c.Fail(ev.Sig{"op": "panic", "via": "header-rewritten"}, nil, nil, "ServeDIAM panicked: %s; %s", p, desc)
		case (want == 0 && len(got) != 0) || (want != 0 && (len(got) != 1 || got[0] != want)):
			c.Fail(ev.Sig{"op": "wrong-handler", "via": "header-rewritten"}, wire, nil, "handlers %v, expected %v; %s", hname(got), hname([]int{want}), desc)
		case want == 0 && reports != 1:
			c.Fail(ev.Sig{"op": "no-error-report", "via": "header-rewritten"}, wire, nil, "no handler applies and %d error reports were offered; %s", reports, desc)
		default:
			c.Event("dispatches", 1)
		}
	})

	// 4. concurrent re-registration and dispatch, checked for linearizability
	//    against "three slots + decision function"
	n := rec.N(200, 3000000)
	rec.Suite("concurrent-histories", n, func(c *ev.Case) { c09History(c, mk, rec) })
}

func hname(ids []int) string {
	s := "["
	for i, id := range ids {
		if i > 0 {
			s += " "
		}
		if id == 0 {
			s += "none"
		} else {
			s += fmt.Sprintf("%s#%d", keyNames[id/10], id%10)
		}
	}
	return s + "]"
}

func subsetNames(subset int) string {
	s := "{"
	for k := 0; k < nKeys; k++ {
		if subset&(1<<k) != 0 {
			if len(s) > 1 {
				s += ", "
			}
			s += keyNames[k]
		}
	}
	return s + "}"
}

type c09Op struct {
	Register bool
	Slot     int // 0 idx, 1 name, 2 all
	HID      int
}

var c09Model = porcupine.Model{
	Init: func() interface{} { return [3]int{} },
	Step: func(state, input, output interface{}) (bool, interface{}) {
		st := state.([3]int)
		op := input.(c09Op)
		if op.Register {
			st[op.Slot] = op.HID
			return true, st
		}
		return output.(int) == decide(st[0], st[1], st[2]), st
	},
	Equal: func(a, b interface{}) bool { return a.([3]int) == b.([3]int) },
	DescribeOperation: func(in, out interface{}) string {
		op := in.(c09Op)
		if op.Register {
			return fmt.Sprintf("register(slot %d, h%d)", op.Slot, op.HID)
		}
		return fmt.Sprintf("dispatch -> h%d", out.(int))
	},
}

func c09History(c *ev.Case, mk func(c09Msg) *diam.Message, rec *ev.Rec) {
	m := c09Msg{0, 257, true, "CE"}
	mux := diam.NewServeMux()
	var clock atomic.Int64
	var mu sync.Mutex
	var ops []porcupine.Operation
	clients := 2 + c.R.IntN(3)
	perClient := 4 + c.R.IntN(7)
	seeds := make([]uint64, clients)
	for i := range seeds {
		seeds[i] = c.R.Uint64()
	}
	var hid atomic.Int32
	var wg sync.WaitGroup
	for cl := 0; cl < clients; cl++ {
		wg.Add(1)
		go func(cl int) {
			defer wg.Done()
			x := seeds[cl]
			next := func(n int) int { x = x*6364136223846793005 + 1442695040888963407; return int((x >> 33) % uint64(n)) }
			for i := 0; i < perClient; i++ {
				if next(2) == 0 {
					slot := next(3)
					id := int(hid.Add(1))
					var firedID = id
					hh := diam.HandlerFunc(func(dc diam.Conn, mm *diam.Message) {
						// the dispatching goroutine records which handler ran through the message context
						if p, ok := mm.Context().Value(c09Key{}).(*int); ok {
							*p = firedID
						}
					})
					call := clock.Add(1)
					switch slot {
					case 0:
						mux.HandleIdx(diam.CommandIndex{AppID: m.app, Code: m.code, Request: m.req}, hh)
					case 1:
						mux.Handle("CER", hh)
					case 2:
						if next(2) == 0 {
							mux.Handle("ALL", hh)
						} else {
							mux.HandleIdx(diam.ALL_CMD_INDEX, hh)
						}
					}
					ret := clock.Add(1)
					mu.Lock()
					ops = append(ops, porcupine.Operation{ClientId: cl, Input: c09Op{Register: true, Slot: slot, HID: id}, Call: call, Output: 0, Return: ret})
					mu.Unlock()
				} else {
					msg := mk(m)
					ran := 0
					msg.SetContext(contextWith(&ran))
					call := clock.Add(1)
					mux.ServeDIAM(nil, msg)
					ret := clock.Add(1)
					select {
					case <-mux.ErrorReports():
					default:
					}
					mu.Lock()
					ops = append(ops, porcupine.Operation{ClientId: cl, Input: c09Op{}, Call: call, Output: ran, Return: ret})
					mu.Unlock()
				}
			}
		}(cl)
	}
	wg.Wait()
	res, info := porcupine.CheckOperationsVerbose(c09Model, ops, 30*time.Second)
	c.Class("history/clients=%d", clients)
	switch res {
	case porcupine.Ok:
		c.Event("histories_linearizable", 1)
		c.Event("history_ops", len(ops))
	case porcupine.Unknown:
		c.Fail(ev.Sig{"op": "watchdog"}, nil, nil, "porcupine timed out on a history of %d operations", len(ops))
	default:
		_ = info
		var lines []string
		for _, o := range ops {
			lines = append(lines, fmt.Sprintf("client %d [%d,%d] %s", o.ClientId, o.Call, o.Return, c09Model.DescribeOperation(o.Input, o.Output)))
		}
		c.Fail(ev.Sig{"op": "not-linearizable"}, nil, lines, "concurrent register/dispatch history of %d operations is not linearizable against the sequential dispatch model", len(ops))
	}
}
