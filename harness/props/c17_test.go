package props

import (
	"bytes"
	"fmt"
	"os"
	"sort"
	"strings"
	"sync"
	"sync/atomic"
	"testing"

	"github.com/fiorix/go-diameter/v4/diam"
	"github.com/fiorix/go-diameter/v4/diam/datatype"
	"github.com/fiorix/go-diameter/v4/diam/dict"

	"verifharness/ev"
	"verifharness/gen"
	"verifharness/lib"
	"verifharness/refcodec"
	"verifharness/refdict"
)

// cmpAVP compares a library dictionary entry with the reference definition.
func cmpAVP(got *dict.AVP, want *refdict.AVPDef) string {
	if got == nil {
		return "nil entry"
	}
	if got.Code != want.Code || got.Name != want.Name || got.VendorID != want.Vendor || got.Data.TypeName != want.Type {
		return fmt.Sprintf("got {name %q code %d vendor %d type %s}, reference {name %q code %d vendor %d type %s (app %d)}",
			got.Name, got.Code, got.VendorID, got.Data.TypeName, want.Name, want.Code, want.Vendor, want.Type, want.App)
	}
	if got.App == nil || got.App.ID != want.App {
		return fmt.Sprintf("entry %q linked to application %v, reference says %d", got.Name, got.App, want.App)
	}
	return ""
}

// lookupOne checks one (app, code|name, vendor) query in all forms.
// It returns whether the key resolved according to the reference.
func lookupOne(c *ev.Case, p *dict.Parser, ix *refdict.Index, slow *refdict.Set, app, code, vendor uint32, name string, ctxName string) (ok bool, resolved bool) {
	fail := func(form string, format string, a ...any) {
		c.Fail(ev.Sig{"op": "lookup", "form": form}, nil, nil, "dict %s, app %d, code %d, name %q, vendor %d: %s", ctxName, app, code, name, vendor, fmt.Sprintf(format, a...))
	}
	want, found := ix.FindAVP(app, code, vendor)
	if slow != nil {
		w2, f2 := slow.FindAVP(app, code, vendor)
		if f2 != found || (found && w2.Seq != want.Seq) {
			c.Fail(ev.Sig{"op": "harness-selfcheck"}, nil, nil, "reference index and reference scan disagree for app %d code %d vendor %d", app, code, vendor)
			return false, false
		}
	}
	// uint32
	var got *dict.AVP
	var err error
	if pn, bad := guard(func() { got, err = p.FindAVPWithVendor(app, code, vendor) }); bad {
		fail("uint32", "panic: %s", pn)
		return false, false
	}
	if found {
		if err != nil {
			fail("uint32", "resolvable by the reference (%q in app %d) but the library returns %v", want.Name, want.App, err)
			return false, false
		}
		if d := cmpAVP(got, want); d != "" {
			fail("uint32", "%s", d)
			return false, false
		}
	} else {
		// undefined numeric code: an opaque placeholder carrying the query's code and vendor
		if got == nil {
			fail("uint32-placeholder", "undefined code: no placeholder returned (err=%v)", err)
			return false, false
		}
		if got.Code != code || got.VendorID != vendor || got.Data.Type != datatype.UnknownType {
			fail("uint32-placeholder", "undefined code: placeholder {code %d vendor %d type %d}", got.Code, got.VendorID, got.Data.Type)
			return false, false
		}
		if dec, derr := datatype.Decode(got.Data.Type, []byte{1, 2, 3}); derr != nil || !bytes.Equal(dec.Serialize(), []byte{1, 2, 3}) {
			fail("uint32-placeholder", "placeholder type does not decode as opaque bytes: %v", derr)
			return false, false
		}
	}
	// int
	if code <= 1<<31-1 {
		got, err = p.FindAVPWithVendor(app, int(code), vendor)
		if found {
			if err != nil {
				fail("int", "resolvable by the reference but the library returns %v", err)
				return false, false
			}
			if d := cmpAVP(got, want); d != "" {
				fail("int", "%s", d)
				return false, false
			}
		} else if err == nil && (got == nil || got.Data.Type != datatype.UnknownType) {
			fail("int", "undefined code resolved to %+v", got)
			return false, false
		}
	}
	// FindAVP == wildcard vendor
	if vendor == refdict.AnyVendor {
		g2, e2 := p.FindAVP(app, code)
		if found && (e2 != nil || cmpAVP(g2, want) != "") {
			fail("FindAVP", "FindAVP(app, code) differs from the wildcard-vendor lookup: %v %s", e2, cmpAVP(g2, want))
			return false, false
		}
	}
	// name
	if name != "" {
		wantN, foundN := ix.FindAVPByName(app, name, vendor)
		got, err = p.FindAVPWithVendor(app, name, vendor)
		if foundN {
			if err != nil {
				fail("name", "name resolvable by the reference (code %d in app %d) but the library returns %v", wantN.Code, wantN.App, err)
				return false, false
			}
			if d := cmpAVP(got, wantN); d != "" {
				fail("name", "%s", d)
				return false, false
			}
		} else if err == nil || got != nil {
			fail("name", "unresolvable name returned %+v, err=%v", got, err)
			return false, false
		}
	}
	return true, found
}

func TestC17(t *testing.T) {
	rec := ev.Open(t, "C17")
	defer rec.Close()
	ctxs := contexts(t)

	// (a) every key of the embedded dictionaries and its neighbours
	type key struct {
		app, code, vendor uint32
		name              string
	}
	for ci, ctx := range ctxs {
		ctx := ctx
		defs := ctx.Set.AVPs()
		appIDs := []uint32{0, 1, 3, 4, 16777238, 16777251, 16777265, 16777236, 16777302, 7, 4294967295}
		rec.Suite(fmt.Sprintf("embedded-keys/%d", ci), len(defs), func(c *ev.Case) {
			d := defs[c.I]
			var slow *refdict.Set
			if c.I%50 == 0 {
				slow = ctx.Set
			}
			n := 0
			for _, app := range appIDs {
				for _, vendor := range []uint32{d.Vendor, refdict.AnyVendor, 0, 31337} {
					for _, code := range []uint32{d.Code, d.Code + 1, d.Code - 1} {
						name := ""
						if code == d.Code {
							name = d.Name
						}
						ok, res := lookupOne(c, ctx.Parser, ctx.Ix, slow, app, code, vendor, name, ctx.Name)
						if !ok {
							return
						}
						n++
						if code == d.Code && vendor == d.Vendor {
							c.Class("%s/type=%s/app-class=%s/resolved=%v", ctx.Name, d.Type, appClass(app, d.App), res)
						}
					}
				}
			}
			// names that do not exist
			if got, err := ctx.Parser.FindAVPWithVendor(d.App, d.Name+"-Nope", refdict.AnyVendor); err == nil || got != nil {
				c.Fail(ev.Sig{"op": "lookup", "form": "name"}, nil, nil, "unknown name %q resolved", d.Name+"-Nope")
				return
			}
			c.Event("lookups", n)
		})
		rec.Exhaustive(fmt.Sprintf("embedded-keys/%d", ci))
	}

	// commands and applications of every context
	rec.Suite("commands-apps", len(ctxs), func(c *ev.Case) {
		ctx := ctxs[c.I]
		n := 0
		apps := []uint32{0, 1, 3, 4, 16777238, 16777251, 16777265, 16777236, 16777302, 8388001, 7, 4294967295}
		for _, cd := range ctx.Set.Cmds() {
			for _, app := range apps {
				for _, code := range []uint32{cd.Code, cd.Code + 1} {
					want, found := ctx.Ix.FindCommand(app, code)
					got, err := ctx.Parser.FindCommand(app, code)
					if found != (err == nil) || (found && (got.Code != want.Code || got.Name != want.Name || got.Short != want.Short || len(got.Request.Rule) != len(want.ReqRules))) {
						c.Fail(ev.Sig{"op": "command"}, nil, nil, "dict %s FindCommand(%d,%d): library %v err=%v, reference %+v found=%v", ctx.Name, app, code, got, err, want, found)
						return
					}
					n++
				}
			}
		}
		for _, a := range ctx.Set.Apps() {
			for _, id := range []uint32{a.ID, a.ID + 1} {
				_, err := ctx.Parser.App(id)
				if (err == nil) != ctx.Set.HasApp(id) {
					c.Fail(ev.Sig{"op": "app"}, nil, nil, "dict %s App(%d): err=%v, reference has=%v", ctx.Name, id, err, ctx.Set.HasApp(id))
					return
				}
				for _, typ := range []string{"auth", "acct", "other"} {
					_, err := ctx.Parser.App(id, typ)
					want := ctx.Set.SupportsApp(id, typ)
					if typ == "" {
						want = ctx.Set.HasApp(id)
					}
					if (err == nil) != want {
						c.Fail(ev.Sig{"op": "app"}, nil, nil, "dict %s App(%d,%q): err=%v, reference supports=%v", ctx.Name, id, typ, err, want)
						return
					}
					n++
				}
			}
		}
		c.Class("commands-apps/%s", ctx.Name)
		c.Event("lookups", n)
	})

	// (a') the decoder resolves through the same rule: an AVP on the wire with code c, with or
	//      without the V bit, is decoded with the type of the definition that the lookup for
	//      (application, c, exact vendor - 0 without the V bit) yields, or as opaque data
	for ci, ctx := range ctxs {
		ctx := ctx
		defs := ctx.Set.AVPs()
		apps := []uint32{0, 1, 4, 16777238, 16777251, 16777236, 8388001, 7}
		rec.Suite(fmt.Sprintf("decode-resolution/%d", ci), len(defs), func(c *ev.Case) {
			d := defs[c.I]
			n := 0
			for _, app := range apps {
				for _, v := range [][2]uint32{{0, 0}, {1, d.Vendor}, {1, 31337}} {
					hasV, vendor := v[0] == 1, v[1]
					if hasV && vendor == 0 {
						continue
					}
					want := ctx.TypeFunc(app)(d.Code, vendor, hasV)
					payload := map[refcodec.Kind][]byte{refcodec.Unsigned32: {0, 0, 0, 7}, refcodec.Integer32: {0, 0, 0, 7}, refcodec.Float32: {0, 0, 0, 0}, refcodec.Enumerated: {0, 0, 0, 1},
						refcodec.Time: {0xe0, 0, 0, 0}, refcodec.IPv4: {10, 0, 0, 1}, refcodec.Unsigned64: {0, 0, 0, 0, 0, 0, 0, 7}, refcodec.Integer64: {0, 0, 0, 0, 0, 0, 0, 7},
						refcodec.Float64: {0, 0, 0, 0, 0, 0, 0, 0}, refcodec.IPv6: {0x20, 1, 0xd, 0xb8, 0, 0, 0, 0, 0, 0, 0, 0, 0, 0, 0, 1}, refcodec.Address: {0, 1, 10, 0, 0, 1}, refcodec.Grouped: {}}[want]
					if payload == nil {
						payload = []byte("x")
					}
					flags := uint8(0x40)
					if hasV {
						flags |= 0x80
					}
					hl := 8
					if hasV {
						hl = 12
					}
					raw := append(rawHeader(d.Code, flags, vendor, hl+len(payload)), payload...)
					for len(raw)%4 != 0 {
						raw = append(raw, 0)
					}
					var a *diam.AVP
					var err error
					if p, bad := guard(func() { a, err = diam.DecodeAVP(raw, app, ctx.Parser) }); bad {
						c.Fail(ev.Sig{"op": "lookup", "form": "decode"}, raw, nil, "DecodeAVP panicked: %s", p)
						return
					}
					if err != nil {
						c.Fail(ev.Sig{"op": "lookup", "form": "decode"}, raw, nil, "dict %s, app %d: AVP code %d V=%v vendor %d with a payload valid for the type the lookup yields (%v) was refused: %v", ctx.Name, app, d.Code, hasV, vendor, want, err)
						return
					}
					nd, err := lib.ToNode(a)
					if err != nil || nd.Kind != want {
						c.Fail(ev.Sig{"op": "lookup", "form": "decode"}, raw, nil, "dict %s, app %d: AVP code %d V=%v vendor %d was decoded as %v, the lookup through the application, its parents and base (exact vendor) yields %v (err=%v)", ctx.Name, app, d.Code, hasV, vendor, nd.Kind, want, err)
						return
					}
					n++
				}
			}
			c.Class("decode-resolution/%s/type=%s", ctx.Name, d.Type)
			c.Event("lookups", n)
			c.Event("decode_resolutions", n)
		})
		rec.Exhaustive(fmt.Sprintf("decode-resolution/%d", ci))
	}

	// (a'') a dictionary file that is loaded again after it was edited - with LoadFile, the file
	//       keeping its length and its modification time (cp -p, rsync -t, two writes within one
	//       tick of the clock): the most recently loaded definition wins
	rec.Suite("file-reloaded", 4, func(c *ev.Case) {
		dir := t.TempDir()
		path := dir + "/ext.xml"
		mk := func(typ string, code int) string {
			return fmt.Sprintf(`<?xml version="1.0" encoding="UTF-8"?><diameter><application id="0" name="Base"><avp name="X-Reloaded" code="%d" must="M"><data type="%s"/></avp></application></diameter>`, code, typ)
		}
		first, second := mk("Unsigned32", 9601), mk("Unsigned64", 9601)
		if c.I%2 == 1 {
			second = mk("Unsigned32", 9602)
		}
		sameStat := c.I/2 == 0
		c.Class("file-reloaded/changed=%s/same-size-and-mtime=%v", []string{"type", "code"}[c.I%2], sameStat)
		sig := ev.Sig{"op": "lookup", "form": "file-reloaded"}
		if err := os.WriteFile(path, []byte(first), 0o644); err != nil {
			c.Fail(ev.Sig{"op": "setup"}, nil, nil, "%v", err)
			return
		}
		st, _ := os.Stat(path)
		p, err := dict.NewParser()
		if err == nil {
			err = p.LoadFile(path)
		}
		if err != nil {
			c.Fail(ev.Sig{"op": "setup"}, nil, nil, "LoadFile: %v", err)
			return
		}
		if a, err := p.FindAVP(0, "X-Reloaded"); err != nil || a.Code != 9601 || a.Data.TypeName != "Unsigned32" {
			c.Fail(sig, nil, nil, "after the first LoadFile X-Reloaded resolves to %+v (err=%v)", a, err)
			return
		}
		if !sameStat {
			second += "\n"
		}
		if err := os.WriteFile(path, []byte(second), 0o644); err != nil {
			c.Fail(ev.Sig{"op": "setup"}, nil, nil, "%v", err)
			return
		}
		if sameStat {
			os.Chtimes(path, st.ModTime(), st.ModTime())
		}
		if err := p.LoadFile(path); err != nil {
			c.Fail(sig, nil, nil, "LoadFile of the edited file: %v", err)
			return
		}
		wantCode, wantType := uint32(9601), "Unsigned64"
		if c.I%2 == 1 {
			wantCode, wantType = 9602, "Unsigned32"
		}
		if a, err := p.FindAVP(0, "X-Reloaded"); err != nil || a.Code != wantCode || a.Data.TypeName != wantType {
			c.Fail(sig, nil, nil, "the file was edited (same length and modification time: %v) and loaded again: X-Reloaded resolves to code %d type %s (err=%v), the file now says code %d type %s", sameStat, a.Code, a.Data.TypeName, err, wantCode, wantType)
			return
		}
		if a, err := p.FindAVP(0, wantCode); err != nil || a.Name != "X-Reloaded" || a.Data.TypeName != wantType {
			c.Fail(sig, nil, nil, "after the reload code %d resolves to %+v (err=%v)", wantCode, a, err)
			return
		}
		c.Event("lookups", 3)
		c.Event("load_orders", 1)
	})

	// (b) generated dictionary sets loaded in every order; monotonicity
	rec.Suite("generated-sets", rec.N(150, 60000), func(c *ev.Case) { generatedSet(c) })

	// (c) every type name the parser accepts: encode through the API, decode through ReadMessage
	names := make([]string, 0, len(datatype.Available))
	for n := range datatype.Available {
		names = append(names, n)
	}
	sort.Strings(names)
	rec.Suite("type-names", len(names), func(c *ev.Case) {
		tn := names[c.I]
		c.Class("type-name/%s", tn)
		k, known := refcodec.KindOf(tn)
		if !known {
			c.Fail(ev.Sig{"op": "type-name", "type": tn}, nil, nil, "datatype.Available has a type name the reference codec does not know: %s", tn)
			return
		}
		xmlDoc := fmt.Sprintf(`<?xml version="1.0" encoding="UTF-8"?><diameter><application id="0" name="B">
<command code="300" short="TT" name="Type-Test"><request><rule avp="T-AVP" required="false"/></request><answer><rule avp="T-AVP" required="false"/></answer></command>
<avp name="T-AVP" code="5000" must="M"><data type="%s"/></avp><avp name="T-Inner" code="5001" must="M"><data type="Unsigned32"/></avp></application></diameter>`, tn)
		f, err := refdict.Parse("t-"+tn, xmlDoc)
		if err != nil {
			c.Fail(ev.Sig{"op": "harness"}, nil, nil, "%v", err)
			return
		}
		ctx, err := lib.Load("t-"+tn, f)
		if err != nil {
			c.Fail(ev.Sig{"op": "type-name", "type": tn}, nil, nil, "dict.Load rejects a dictionary declaring type %s: %v", tn, err)
			return
		}
		for rep := 0; rep < 40; rep++ {
			n := &refcodec.Node{Code: 5000, Flags: 0x40}
			gen.Value(c.R, n, k, &gen.Opts{}, 0, func(int) []*refcodec.Node {
				return []*refcodec.Node{{Code: 5001, Flags: 0x40, Kind: refcodec.Unsigned32, U: 7}}
			})
			m := &gen.Msg{H: refcodec.Header{Version: 1, Flags: 0x80, Code: 300, HopByHop: 1, EndToEnd: 1}, Nodes: []*refcodec.Node{n}}
			var wire []byte
			var rm *diam.Message
			if p, bad := guard(func() {
				wire, err = lib.Build(ctx.Parser, m, 0).Serialize()
				if err == nil {
					rm, err = diam.ReadMessage(bytes.NewReader(wire), ctx.Parser)
				}
			}); bad || err != nil {
				c.Fail(ev.Sig{"op": "type-name", "type": tn}, wire, nil, "type %s cannot be encoded and decoded: err=%v %s", tn, err, p)
				return
			}
			got, terr := lib.ToNodes(rm.AVP)
			if terr != nil || refcodec.Equal(m.Nodes, got, "") != "" {
				c.Fail(ev.Sig{"op": "type-name", "type": tn}, wire, nil, "type %s: decoded value differs: %v %s", tn, terr, refcodec.Equal(m.Nodes, got, ""))
				return
			}
		}
		c.Event("type_roundtrips", 40)
	})
	rec.Exhaustive("type-names")

	// (c') the type registry is exported (datatype.Available, datatype.Decoder): a type name
	// an application registers while it is running - this process has decoded thousands of
	// AVPs by now - is a name a dictionary may declare from then on, and AVPs of that type
	// are encoded and decoded like those of any other.
	rec.Suite("type-registered-at-run-time", 3, func(c *ev.Case) {
		name := fmt.Sprintf("VerifReversed%d", c.I)
		id := datatype.TypeID(1000 + c.I*977)
		c.Class("type-registered-at-run-time/%d", c.I)
		datatype.Available[name] = id
		datatype.Decoder[id] = func(b []byte) (datatype.Type, error) {
			out := make([]byte, len(b))
			for i := range b {
				out[len(b)-1-i] = b[i]
			}
			return c17Reversed{id, out}, nil
		}
		defer func() {
			delete(datatype.Available, name)
			delete(datatype.Decoder, id)
		}()
		xmlDoc := fmt.Sprintf(`<?xml version="1.0" encoding="UTF-8"?><diameter><application id="0" name="B">
<command code="300" short="TT" name="Type-Test"><request><rule avp="T-AVP" required="false"/></request><answer><rule avp="T-AVP" required="false"/></answer></command>
<avp name="T-AVP" code="5000" must="M"><data type="%s"/></avp><avp name="T-Oct" code="5001" must="M"><data type="OctetString"/></avp></application></diameter>`, name)
		p, err := dict.NewParser()
		if err == nil {
			err = p.Load(strings.NewReader(xmlDoc))
		}
		sig := ev.Sig{"op": "type-registered-at-run-time"}
		if err != nil {
			c.Fail(sig, nil, nil, "dict.Load rejects a dictionary declaring the registered type %s: %v", name, err)
			return
		}
		for rep := 0; rep < 20; rep++ {
			val := randASCII(c.R, 1+c.R.IntN(9))
			m := diam.NewRequest(300, 0, p)
			var wire []byte
			var rm *diam.Message
			if pn, bad := guard(func() {
				// an ordinary AVP first: decoding goes on as before
				if _, err = m.NewAVP(5001, 0x40, 0, datatype.OctetString("x")); err != nil {
					return
				}
				if _, err = m.NewAVP(5000, 0x40, 0, c17Reversed{id, val}); err != nil {
					return
				}
				if wire, err = m.Serialize(); err == nil {
					rm, err = diam.ReadMessage(bytes.NewReader(wire), p)
				}
			}); bad || err != nil {
				c.Fail(sig, wire, nil, "an AVP of type %s (registered in datatype.Available and datatype.Decoder after the process had decoded other traffic, accepted by dict.Load) cannot be encoded and decoded: err=%v %s", name, err, pn)
				return
			}
			got, ok := rm.AVP[len(rm.AVP)-1].Data.(c17Reversed)
			want := make([]byte, len(val))
			for i := range val {
				want[len(val)-1-i] = val[i]
			}
			if !ok || len(rm.AVP) != 2 || !bytes.Equal(got.b, want) {
				c.Fail(sig, wire, nil, "an AVP of the registered type %s was not decoded with the registered decoder: got %T %v", name, rm.AVP[len(rm.AVP)-1].Data, rm.AVP[len(rm.AVP)-1].Data)
				return
			}
		}
		c.Event("type_roundtrips", 20)
	})

	// (d) exported constants vs the embedded dictionaries
	rec.Suite("constants", 1, func(c *ev.Case) { constantsTable(c, ctxs[0]) })
}

func appClass(q, own uint32) string {
	switch {
	case q == own:
		return "own"
	case own == 0:
		return "base-from-other"
	}
	for _, a := range refdict.Chain(q) {
		if a == own {
			return "via-parent"
		}
	}
	return "unrelated"
}

// ---- generated sets ---------------------------------------------------------

var c17Apps = []uint32{0, 1, 4, 16777251, 16777238, 7777}
var c17Types = []string{"Unsigned32", "OctetString", "UTF8String", "Grouped", "Address", "Time", "Enumerated"}

func genDictFile(c *ev.Case, idx int, usedCmd map[[2]uint32]bool) string {
	r := c.R
	var b strings.Builder
	b.WriteString(`<?xml version="1.0" encoding="UTF-8"?><diameter>`)
	napps := 1 + r.IntN(3)
	for a := 0; a < napps; a++ {
		app := c17Apps[r.IntN(len(c17Apps))]
		typ := []string{"", "auth", "acct"}[r.IntN(3)]
		if typ == "" {
			fmt.Fprintf(&b, `<application id="%d" name="A%d">`, app, app)
		} else {
			fmt.Fprintf(&b, `<application id="%d" type="%s" name="A%d">`, app, typ, app)
		}
		for k := r.IntN(2); k > 0; k-- {
			code := uint32(500 + r.IntN(6))
			if usedCmd[[2]uint32{app, code}] {
				continue
			}
			usedCmd[[2]uint32{app, code}] = true
			fmt.Fprintf(&b, `<command code="%d" short="C%d" name="Cmd-%d-%d"><request><rule avp="N-A" required="false"/></request><answer><rule avp="N-A" required="false"/></answer></command>`, code, code, idx, code)
		}
		for k := r.IntN(5); k > 0; k-- {
			code := 100 + r.IntN(5)
			name := "N-" + string(rune('A'+r.IntN(5)))
			vendor := []int{0, 0, 10, 20}[r.IntN(4)]
			typ := c17Types[r.IntN(len(c17Types))]
			if vendor != 0 {
				fmt.Fprintf(&b, `<avp name="%s" code="%d" must="M" vendor-id="%d"><data type="%s"/></avp>`, name, code, vendor, typ)
			} else {
				fmt.Fprintf(&b, `<avp name="%s" code="%d" must="M"><data type="%s"/></avp>`, name, code, typ)
			}
		}
		b.WriteString(`</application>`)
	}
	b.WriteString(`</diameter>`)
	return b.String()
}

func permutations(n int) [][]int {
	var out [][]int
	var rec func(cur []int, used int)
	rec = func(cur []int, used int) {
		if len(cur) == n {
			out = append(out, append([]int(nil), cur...))
			return
		}
		for i := 0; i < n; i++ {
			if used&(1<<i) == 0 {
				rec(append(cur, i), used|1<<i)
			}
		}
	}
	rec(nil, 0)
	return out
}

func generatedSet(c *ev.Case) {
	nf := 2 + c.R.IntN(3)
	used := map[[2]uint32]bool{}
	var files []*refdict.File
	for i := 0; i < nf; i++ {
		doc := genDictFile(c, i, used)
		f, err := refdict.Parse(fmt.Sprintf("g%d", i), doc)
		if err != nil {
			c.Fail(ev.Sig{"op": "harness"}, nil, nil, "%v", err)
			return
		}
		files = append(files, f)
	}
	c.Class("generated/files=%d", nf)
	type q struct {
		app, code, vendor uint32
		name              string
	}
	var queries []q
	for _, app := range append(append([]uint32{}, c17Apps...), 9999) {
		for code := uint32(99); code <= 105; code++ {
			for _, v := range []uint32{0, 10, 20, 30, refdict.AnyVendor} {
				queries = append(queries, q{app, code, v, "N-" + string(rune('A'+(code+v)%6))})
			}
		}
	}
	for _, perm := range permutations(nf) {
		p, _ := dict.NewParser()
		set := refdict.NewSet()
		resolvedCode := map[q]bool{}
		resolvedName := map[q]bool{}
		resolvedCmd := map[[2]uint32]bool{}
		resolvedApp := map[string]bool{}
		for step, fi := range perm {
			f := files[fi]
			if err := p.Load(bytes.NewReader([]byte(f.XML))); err != nil {
				c.Fail(ev.Sig{"op": "load"}, []byte(f.XML), nil, "Load of generated file failed: %v", err)
				return
			}
			set.Load(f)
			ix := set.Index()
			for _, qq := range queries {
				ok, res := lookupOne(c, p, ix, nil, qq.app, qq.code, qq.vendor, qq.name, fmt.Sprintf("generated order %v step %d", perm, step))
				if !ok {
					c.Sample(map[string]any{"failing_set": xmls(files), "order": perm})
					return
				}
				kq := qq
				kq.name = ""
				if resolvedCode[kq] && !res {
					c.Fail(ev.Sig{"op": "monotonicity", "what": "avp-code"}, nil, xmls(files), "app %d code %d vendor %d resolved before loading file %d and not after (order %v)", qq.app, qq.code, qq.vendor, fi, perm)
					return
				}
				if res {
					resolvedCode[kq] = true
				}
				_, e := p.FindAVPWithVendor(qq.app, qq.name, qq.vendor)
				kn := q{qq.app, 0, qq.vendor, qq.name}
				if resolvedName[kn] && e != nil {
					c.Fail(ev.Sig{"op": "monotonicity", "what": "avp-name"}, nil, xmls(files), "app %d name %s vendor %d resolved before loading file %d and not after (order %v)", qq.app, qq.name, qq.vendor, fi, perm)
					return
				}
				if e == nil {
					resolvedName[kn] = true
				}
			}
			for _, app := range append(append([]uint32{}, c17Apps...), 9999) {
				for code := uint32(499); code <= 506; code++ {
					want, found := ix.FindCommand(app, code)
					got, err := p.FindCommand(app, code)
					if found != (err == nil) || (found && got.Name != want.Name) {
						c.Fail(ev.Sig{"op": "command"}, nil, xmls(files), "FindCommand(%d,%d) after order %v step %d: library %v err=%v, reference %+v found=%v", app, code, perm, step, got, err, want, found)
						return
					}
					k := [2]uint32{app, code}
					if resolvedCmd[k] && err != nil {
						c.Fail(ev.Sig{"op": "monotonicity", "what": "command"}, nil, xmls(files), "command (%d,%d) resolved before loading file %d and not after", app, code, fi)
						return
					}
					if err == nil {
						resolvedCmd[k] = true
					}
				}
				for _, typ := range []string{"-", "auth", "acct"} {
					var err error
					want := false
					if typ == "-" {
						_, err = p.App(app)
						want = set.HasApp(app)
					} else {
						_, err = p.App(app, typ)
						want = set.SupportsApp(app, typ)
					}
					k := fmt.Sprintf("%d/%s", app, typ)
					if (err == nil) != want {
						c.Fail(ev.Sig{"op": "app", "what": "supports"}, nil, xmls(files), "App(%d,%s) after order %v step %d: err=%v, reference (an application element with that id and that type, or with no type) says %v", app, typ, perm, step, err, want)
						return
					}
					if resolvedApp[k] && err != nil {
						c.Fail(ev.Sig{"op": "monotonicity", "what": "application"}, nil, xmls(files), "application id %d (type %s) was resolvable before loading file %d and is not after (order %v)", app, typ, fi, perm)
						return
					}
					if err == nil {
						resolvedApp[k] = true
					}
				}
			}
			c.Event("loads", 1)
			c.Event("lookups", len(queries))
		}
		// a load that fails part-way (it restates loaded applications and AVPs, then
		// declares an unsupported data type; or it is a file that is loaded already):
		// whatever it leaves behind, nothing that resolved before may stop resolving
		for variant := 0; variant < 2; variant++ {
			var doc string
			if variant == 0 {
				var b strings.Builder
				b.WriteString(`<?xml version="1.0" encoding="UTF-8"?><diameter>`)
				for _, app := range c17Apps {
					fmt.Fprintf(&b, `<application id="%d" name="Again-%d">`, app, app)
					for code := 100; code <= 104; code++ {
						fmt.Fprintf(&b, `<avp name="N-%c" code="%d" must="M"><data type="OctetString"/></avp>`, rune('A'+code-100), code)
					}
					fmt.Fprintf(&b, `<avp name="N-Bogus" code="199"><data type="NoSuchType"/></avp></application>`)
				}
				b.WriteString(`</diameter>`)
				doc = b.String()
			} else {
				doc = files[perm[0]].XML
			}
			err := p.Load(bytes.NewReader([]byte(doc)))
			if variant == 0 && err == nil {
				c.Fail(ev.Sig{"op": "load"}, []byte(doc), nil, "a dictionary declaring data type NoSuchType was loaded without error")
				return
			}
			for _, qq := range queries {
				kq := qq
				kq.name = ""
				if resolvedCode[kq] {
					if _, e := p.FindAVPWithVendor(qq.app, qq.code, qq.vendor); e != nil {
						c.Fail(ev.Sig{"op": "monotonicity", "what": "avp-code-after-failed-load"}, nil, xmls(files), "app %d code %d vendor %d resolved before a Load that failed (%v) and not after (order %v, variant %d)", qq.app, qq.code, qq.vendor, err, perm, variant)
						return
					}
				}
				kn := q{qq.app, 0, qq.vendor, qq.name}
				if resolvedName[kn] {
					if _, e := p.FindAVPWithVendor(qq.app, qq.name, qq.vendor); e != nil {
						c.Fail(ev.Sig{"op": "monotonicity", "what": "avp-name-after-failed-load"}, nil, xmls(files), "app %d name %s vendor %d resolved before a Load that failed (%v) and not after (order %v, variant %d)", qq.app, qq.name, qq.vendor, err, perm, variant)
						return
					}
				}
			}
			for k := range resolvedCmd {
				if _, e := p.FindCommand(k[0], k[1]); e != nil {
					c.Fail(ev.Sig{"op": "monotonicity", "what": "command-after-failed-load"}, nil, xmls(files), "command (%d,%d) resolved before a Load that failed (%v) and not after", k[0], k[1], err)
					return
				}
			}
			for k := range resolvedApp {
				var app uint32
				var typ string
				fmt.Sscanf(k, "%d/%s", &app, &typ)
				var e error
				if typ == "-" {
					_, e = p.App(app)
				} else {
					_, e = p.App(app, typ)
				}
				if e != nil {
					c.Fail(ev.Sig{"op": "monotonicity", "what": "application-after-failed-load"}, nil, xmls(files), "application %s resolved before a Load that failed (%v) and not after (order %v, variant %d)", k, err, perm, variant)
					return
				}
			}
			c.Event("failed_loads", 1)
		}
		c.Event("load_orders", 1)
	}
	if c.WantSample() {
		c.Sample(map[string]any{"generated_set": xmls(files)})
	}
}

func xmls(files []*refdict.File) []string {
	var s []string
	for _, f := range files {
		s = append(s, f.XML)
	}
	return s
}

// ---- constants ---------------------------------------------------------------

// constName applies the naming rule of diam/autogen.sh to an AVP name.
func constName(name string) string {
	// s/-Id\([-"s]\)/-ID\1/g ; s/-//g   (the closing quote follows the name)
	s := name + `"`
	var b strings.Builder
	for i := 0; i < len(s); i++ {
		if strings.HasPrefix(s[i:], "-Id") && i+3 < len(s) && (s[i+3] == '-' || s[i+3] == '"' || s[i+3] == 's') {
			b.WriteString("-ID")
			i += 2
			continue
		}
		b.WriteByte(s[i])
	}
	out := strings.ReplaceAll(b.String(), "-", "")
	return strings.TrimSuffix(out, `"`)
}

func constantsTable(c *ev.Case, ctx *lib.Ctx) {
	n := 0
	byName := map[string]map[uint32]bool{}
	for _, d := range ctx.Set.AVPs() {
		cn := constName(d.Name)
		if byName[cn] == nil {
			byName[cn] = map[uint32]bool{}
		}
		byName[cn][d.Code] = true
	}
	missing := 0
	for cn, codes := range byName {
		v, ok := compiledAVPCodes[cn]
		if !ok {
			missing++
			continue
		}
		if !codes[uint32(v)] {
			c.Fail(ev.Sig{"op": "constant", "kind": "avp"}, nil, nil, "avp.%s = %d but the embedded dictionaries define %s with code(s) %v", cn, v, cn, keys(codes))
			return
		}
		n++
	}
	c.Class("constants/avp")
	c.Event("avp_constants_checked", n)
	c.Event("embedded_avps_without_constant", missing)
	// commands
	nc := 0
	for _, cd := range ctx.Set.Cmds() {
		cn := strings.ReplaceAll(cd.Name, "-", "")
		if v, ok := compiledCommands[cn]; ok {
			if uint32(v) != cd.Code {
				c.Fail(ev.Sig{"op": "constant", "kind": "command"}, nil, nil, "diam.%s = %d but the embedded dictionary defines %s with code %d", cn, v, cd.Name, cd.Code)
				return
			}
			nc++
		}
		for _, suf := range []string{"R", "A"} {
			if v, ok := compiledShortNames[cd.Short+suf]; ok && v != cd.Short+suf {
				c.Fail(ev.Sig{"op": "constant", "kind": "short"}, nil, nil, "diam.%s = %q", cd.Short+suf, v)
				return
			}
		}
	}
	c.Class("constants/command")
	c.Event("command_constants_checked", nc)
	// applications: NAME_APP_ID, name upper-cased with spaces -> '_'
	na := 0
	for _, a := range ctx.Set.Apps() {
		cn := strings.ToUpper(strings.ReplaceAll(a.Name, " ", "_")) + "_APP_ID"
		if v, ok := compiledApps[cn]; ok {
			if uint32(v) != a.ID {
				c.Fail(ev.Sig{"op": "constant", "kind": "application"}, nil, nil, "diam.%s = %d but the embedded dictionary defines application %q with id %d", cn, v, a.Name, a.ID)
				return
			}
			na++
		}
	}
	c.Class("constants/application")
	c.Event("app_constants_checked", na)
	if n < 100 || nc < 5 || na < 3 {
		c.Fail(ev.Sig{"op": "harness-selfcheck"}, nil, nil, "constants table too small: %d AVP, %d command, %d application constants matched", n, nc, na)
	}
	c.Sample(map[string]any{"avp_constants_checked": n, "command_constants_checked": nc, "application_constants_checked": na, "example": fmt.Sprintf("avp.OriginHost=%d", compiledAVPCodes["OriginHost"])})
}

func keys(m map[uint32]bool) []uint32 {
	var k []uint32
	for x := range m {
		k = append(k, x)
	}
	return k
}

// TestC17Concurrent (race build): lookups are read-only and may be made from any number of
// goroutines once the dictionaries are loaded (every connection's reader decodes with the same
// Parser).  G goroutines resolve overlapping sets of keys of one shared Parser at the same
// moment, every answer is checked against the reference resolver as in TestC17, and the race
// detector watches what the lookups touch.
func TestC17Concurrent(t *testing.T) {
	rec := ev.Open(t, "C17")
	defer rec.Close()
	ctxs := contexts(t)
	appIDs := []uint32{0, 1, 4, 16777238, 16777251, 16777236, 7, 4294967295}
	rec.Suite("concurrent-lookups", len(ctxs)*rec.N(2, 200), func(c *ev.Case) {
		ctx := ctxs[c.I%len(ctxs)]
		defs := ctx.Set.AVPs()
		cmds := ctx.Set.Cmds()
		const G = 6
		c.Class("concurrent-lookups/%s", ctx.Name)
		start := make(chan struct{})
		var wg sync.WaitGroup
		var total atomic.Int64
		for g := 0; g < G; g++ {
			wg.Add(1)
			gc := rec.OneCase("concurrent-lookups", c.I*G+g)
			go func(g int) {
				defer wg.Done()
				<-start
				n := 0
				// every goroutine walks the same keys from another starting point
				for k := 0; k < len(defs) && k < 400; k++ {
					d := defs[(k*7+g*53+c.I)%len(defs)]
					app := appIDs[(k+g)%len(appIDs)]
					for _, vendor := range []uint32{d.Vendor, refdict.AnyVendor} {
						if ok, _ := lookupOne(gc, ctx.Parser, ctx.Ix, nil, app, d.Code, vendor, d.Name, ctx.Name); !ok {
							return
						}
						n++
					}
					if len(cmds) > 0 {
						cd := cmds[(k+g)%len(cmds)]
						want, found := ctx.Ix.FindCommand(app, cd.Code)
						got, err := ctx.Parser.FindCommand(app, cd.Code)
						if found != (err == nil) || (found && (got.Code != want.Code || got.Short != want.Short)) {
							gc.Fail(ev.Sig{"op": "command", "how": "concurrent"}, nil, nil, "dict %s FindCommand(%d,%d) under concurrent lookups: library %v err=%v, reference %+v found=%v", ctx.Name, app, cd.Code, got, err, want, found)
							return
						}
						n++
					}
					if _, err := ctx.Parser.App(app); (err == nil) != ctx.Set.HasApp(app) {
						gc.Fail(ev.Sig{"op": "app", "how": "concurrent"}, nil, nil, "dict %s App(%d) under concurrent lookups: err=%v, reference has=%v", ctx.Name, app, err, ctx.Set.HasApp(app))
						return
					}
				}
				total.Add(int64(n))
			}(g)
		}
		close(start)
		wg.Wait()
		c.Event("concurrent_lookups", int(total.Load()))
		c.Event("lookups", int(total.Load()))
	})
}

// c17Reversed is a data type an application might add: opaque bytes that its
// decoder hands over in reverse order (so that the decoder used is visible).
type c17Reversed struct {
	id datatype.TypeID
	b  []byte
}

func (v c17Reversed) Serialize() []byte     { return v.b }
func (v c17Reversed) Len() int              { return len(v.b) }
func (v c17Reversed) Padding() int          { return (4 - len(v.b)%4) % 4 }
func (v c17Reversed) Type() datatype.TypeID { return v.id }
func (v c17Reversed) String() string        { return fmt.Sprintf("Reversed{%x}", v.b) }
