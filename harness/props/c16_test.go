package props

import (
	"fmt"
	"math"
	"testing"

	"github.com/fiorix/go-diameter/v4/diam"
	"github.com/fiorix/go-diameter/v4/diam/datatype"

	"verifharness/ev"
	"verifharness/refcodec"
)

var c16IDs = []uint32{0, 1, 1 << 31, math.MaxUint32}
var c16RCs = []uint32{0, 2001, 2002, 3001, 3004, 3010, 4001, 5001, 5005, 5010, 5012, 5017, 1, math.MaxUint32}

// checkAnswer applies the mirror oracle to an answer built from req.
func checkAnswer(c *ev.Case, what string, reqH refcodec.Header, ansWire []byte, rc uint32, wantRC bool) bool {
	sig := func(field string) ev.Sig { return ev.Sig{"op": "answer-mirror", "what": what, "field": field} }
	h, err := refcodec.DecodeHeader(ansWire)
	if err != nil {
		c.Fail(sig("decode"), ansWire, nil, "%s: answer does not decode: %v", what, err)
		return false
	}
	if h.Code != reqH.Code {
		c.Fail(sig("code"), ansWire, nil, "%s: command code %d, request had %d", what, h.Code, reqH.Code)
		return false
	}
	if h.App != reqH.App {
		c.Fail(sig("app"), ansWire, nil, "%s: application id %d, request had %d", what, h.App, reqH.App)
		return false
	}
	if h.HopByHop != reqH.HopByHop {
		c.Fail(sig("hop-by-hop"), ansWire, nil, "%s: hop-by-hop id %#x, request had %#x", what, h.HopByHop, reqH.HopByHop)
		return false
	}
	if h.EndToEnd != reqH.EndToEnd {
		c.Fail(sig("end-to-end"), ansWire, nil, "%s: end-to-end id %#x, request had %#x", what, h.EndToEnd, reqH.EndToEnd)
		return false
	}
	if h.Flags&refcodec.FlagR != 0 {
		c.Fail(sig("R"), ansWire, nil, "%s: request bit set in the answer (flags %#x, request %#x)", what, h.Flags, reqH.Flags)
		return false
	}
	if h.Flags&refcodec.FlagP != reqH.Flags&refcodec.FlagP {
		c.Fail(sig("P"), ansWire, nil, "%s: proxiable bit changed (flags %#x, request %#x)", what, h.Flags, reqH.Flags)
		return false
	}
	if h.Version != 1 || int(h.Length) != len(ansWire) {
		c.Fail(sig("length"), ansWire, nil, "%s: version %d length %d for %d bytes", what, h.Version, h.Length, len(ansWire))
		return false
	}
	recs, _, err := refcodec.Frame(ansWire[20:])
	if err != nil {
		c.Fail(sig("frame"), ansWire, nil, "%s: answer body: %v", what, err)
		return false
	}
	var got []uint32
	for _, r := range recs {
		if r.Code == 268 && r.Flags&refcodec.AVPFlagV == 0 && len(r.Payload) == 4 {
			got = append(got, uint32(r.Payload[0])<<24|uint32(r.Payload[1])<<16|uint32(r.Payload[2])<<8|uint32(r.Payload[3]))
		}
	}
	if wantRC {
		if len(got) != 1 || got[0] != rc {
			c.Fail(sig("result-code"), ansWire, nil, "%s: Result-Code AVPs %v, asked for %d", what, got, rc)
			return false
		}
	} else if len(got) != 0 {
		c.Fail(sig("result-code"), ansWire, nil, "%s: Result-Code AVPs %v although none was asked for", what, got)
		return false
	}
	return true
}

func TestC16(t *testing.T) {
	rec := ev.Open(t, "C16")
	refcodecSelfCheck(t)
	defer rec.Close()
	ctxs := contexts(t)
	// Message.Answer over the header space
	rec.Suite("answer-api", rec.N(4096, 10000000), func(c *ev.Case) {
		r := c.R
		ctx := ctxs[c.I%len(ctxs)]
		flags := uint8(c.I) // every flag byte, many times over
		for k := 0; k < 64; k++ {
			var h refcodec.Header
			switch r.IntN(4) {
			case 0: // undefined command / application
				h = refcodec.Header{Code: r.Uint32() & 0xFFFFFF, App: r.Uint32()}
			default:
				h, _ = ctx.Header(r, ctx.Cmds)
				if r.IntN(4) == 0 {
					h.App = r.Uint32()
				}
			}
			h.Version, h.Flags = 1, flags
			if k < 16 {
				h.HopByHop, h.EndToEnd = c16IDs[k/4], c16IDs[k%4]
			} else {
				h.HopByHop, h.EndToEnd = r.Uint32(), r.Uint32()
			}
			rc := c16RCs[r.IntN(len(c16RCs))]
			if r.IntN(3) == 0 {
				rc = r.Uint32()
			}
			req := diam.NewMessage(h.Code, h.Flags, h.App, h.HopByHop, h.EndToEnd, ctx.Parser)
			req.Header.HopByHopID, req.Header.EndToEndID = h.HopByHop, h.EndToEnd
			var ans *diam.Message
			var wire []byte
			var err error
			if p, bad := guard(func() { ans = req.Answer(rc); wire, err = ans.Serialize() }); bad || err != nil {
				c.Fail(ev.Sig{"op": "answer-panic"}, nil, nil, "Answer(%d) on %+v: err=%v %s", rc, h, err, p)
				return
			}
			idc := "rand"
			if k < 16 {
				idc = fmt.Sprintf("h%d/e%d", k/4, k%4)
			}
			c.Class("ids=%s/R=%d/P=%d/rc0=%v", idc, flags>>7, flags>>6&1, rc == 0)
			if !checkAnswer(c, "Message.Answer", h, wire, rc, rc != 0) {
				return
			}
			if ans.Dictionary() != req.Dictionary() {
				c.Fail(ev.Sig{"op": "answer-mirror", "field": "dictionary"}, nil, nil, "answer uses another dictionary than the request")
				return
			}
			// the request must be left untouched
			if got := lib2Header(req); got != h2(h) {
				c.Fail(ev.Sig{"op": "answer-mirror", "field": "request-mutated"}, nil, nil, "Answer() changed the request header: %+v -> %+v", h2(h), got)
				return
			}
			// the application edits the answer it was given (downgrades the result, re-tags the AVP):
			// that is its own copy - later answers must not be affected
			if len(ans.AVP) > 0 && r.IntN(2) == 0 {
				ans.AVP[0].Data = datatype.Unsigned32(5012)
				if r.IntN(2) == 0 {
					ans.AVP[0].Code, ans.AVP[0].Flags = 999, 0
				}
			}
			c.Event("answers_checked", 1)
			if c.WantSample() && k == 0 {
				c.Sample(map[string]any{"request": fmt.Sprintf("%+v", h), "rc": rc, "answer": ev.Hex(wire)})
			}
		}
	})
}

func h2(h refcodec.Header) refcodec.Header { h.Length = 20; return h }
func lib2Header(m *diam.Message) refcodec.Header {
	return refcodec.Header{Version: m.Header.Version, Length: m.Header.MessageLength, Flags: m.Header.CommandFlags, Code: m.Header.CommandCode,
		App: m.Header.ApplicationID, HopByHop: m.Header.HopByHopID, EndToEnd: m.Header.EndToEndID}
}
