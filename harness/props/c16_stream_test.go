package props

import (
	"fmt"
	"sync"
	"sync/atomic"
	"testing"
	"testing/synctest"
	"time"

	"github.com/fiorix/go-diameter/v4/diam"
	"github.com/fiorix/go-diameter/v4/diam/datatype"
	"github.com/fiorix/go-diameter/v4/diam/sm"

	"verifharness/ev"
	"verifharness/lib"
	"verifharness/memnet"
	"verifharness/peer"
	"verifharness/refcodec"
	"verifharness/sctpmem"
)

// runC16Stream: CER, DWR and an application request arrive on three streams of
// an in-memory SCTP association served by a state machine; every answer must
// mirror its request (checkAnswer) and be written to the request's stream.
func runC16Stream(c *ev.Case, ctx *lib.Ctx, sCER, sDWR, sApp uint16, zeroIDs, failCER, deferred, pinWriter, serverSide bool) {
	sig := func(op string) ev.Sig { return ev.Sig{"op": op, "half": "stream"} }
	settings := &sm.Settings{OriginHost: "srv.local", OriginRealm: "realm.local", VendorID: 13, ProductName: "verif",
		HostIPAddresses: []datatype.Address{datatype.Address([]byte{192, 0, 2, 1})}}
	machine := sm.New(settings)
	var mu sync.Mutex
	var kept *diam.Message
	var keptConn diam.Conn
	machine.HandleIdx(diam.CommandIndex{AppID: 4, Code: 272, Request: true}, diam.HandlerFunc(func(dc diam.Conn, m *diam.Message) {
		if deferred {
			mu.Lock()
			kept, keptConn = m, dc
			mu.Unlock()
			return
		}
		m.Answer(2001).WriteTo(dc)
	}))
	assoc := sctpmem.New()
	msc := diam.VerifNewSCTPConn(assoc)
	defer diam.VerifRelease(msc)
	// serverSide: the association is accepted by a Server that has a write timeout configured
	var conn interface{ Close() }
	if serverSide {
		srv := &diam.Server{Handler: machine, Dict: ctx.Parser, WriteTimeout: time.Hour}
		ln := memnet.NewListener()
		go srv.Serve(ln)
		defer ln.Close()
		ln.Offer(msc)
		conn = closerFunc(func() { msc.Close() })
	} else {
		nc, err := diam.NewConn(msc, "peer", machine, ctx.Parser)
		if err != nil {
			c.Fail(sig("setup"), nil, nil, "NewConn: %v", err)
			return
		}
		conn = nc
	}
	if pinWriter {
		// a writer stream pinned for plain Write calls: answers still belong on their request's stream
		msc.SetWriterStream(uint(sCER%7) + 20)
	}
	defer func() {
		assoc.FeedEOF()
		conn.Close()
		synctest.Wait()
	}()
	id := func(k uint32) (uint32, uint32) {
		if zeroIDs {
			return 0, 0
		}
		return 0x1000 + k, 0x2000 + k
	}
	type exp struct {
		name   string
		stream uint16
		reqH   refcodec.Header
		rc     uint32
	}
	var exps []exp
	var resumed []byte
	resumedFrom := 0
	h1, e1 := id(1)
	app := uint32(4)
	wantRC := uint32(2001)
	if failCER {
		app, wantRC = 999, 5010
	}
	cerBytes := peer.StdCER(h1, e1, app)
	cerFlags := uint8(0x80)
	if (sCER+sDWR)%2 == 1 {
		cerFlags = 0xC0
		cerBytes[4] = cerFlags
	}
	assoc.Feed(sCER, cerBytes)
	exps = append(exps, exp{"CEA", sCER, refcodec.Header{Version: 1, Flags: cerFlags, Code: 257, HopByHop: h1, EndToEnd: e1}, wantRC})
	synctest.Wait()
	if !failCER {
		h2, e2 := id(2)
		assoc.Feed(sDWR, peer.DWR(h2, e2))
		exps = append(exps, exp{"DWA", sDWR, refcodec.Header{Version: 1, Flags: 0x80, Code: 280, HopByHop: h2, EndToEnd: e2}, 2001})
		synctest.Wait()
		h3, e3 := id(3)
		assoc.Feed(sApp, peer.Msg(0xC0, 272, 4, h3, e3, peer.Str(peer.SessionID, refcodec.UTF8String, "s;1")))
		exps = append(exps, exp{"application answer", sApp, refcodec.Header{Version: 1, Flags: 0xC0, Code: 272, App: 4, HopByHop: h3, EndToEnd: e3}, 2001})
		synctest.Wait()
		if !deferred {
			// more watchdog requests on this state machine: other streams, other flag bytes
			for k, st := range []uint16{sApp, sCER, sDWR} {
				hk, ek := id(uint32(10 + k))
				fl := []uint8{0xC0, 0x90, 0xD0}[k]
				b := peer.DWR(hk, ek)
				b[4] = fl
				assoc.Feed(st, b)
				exps = append(exps, exp{"DWA", st, refcodec.Header{Version: 1, Flags: fl, Code: 280, HopByHop: hk, EndToEnd: ek}, 2001})
				synctest.Wait()
			}
		}
		if deferred {
			// another message on another stream moves the reader on, then the kept request is answered
			h4, e4 := id(4)
			assoc.Feed(sDWR, peer.DWR(h4, e4))
			synctest.Wait()
			mu.Lock()
			k, kc := kept, keptConn
			mu.Unlock()
			if k == nil {
				c.Fail(sig("setup"), nil, nil, "application request not dispatched")
				return
			}
			// the transport accepts 10 bytes of the late answer and reports a temporary
			// error; the caller asked for retries: the rest must follow on the same stream
			nBefore := len(assoc.Writes())
			var failed atomic.Bool
			assoc.WriteScript = func(seq int, b []byte) (int, error) {
				if failed.CompareAndSwap(false, true) {
					return 10, &memnet.TempError{Msg: "EAGAIN"}
				}
				return len(b), nil
			}
			done := make(chan error, 1)
			go func() { _, err := k.Answer(2001).WriteToWithRetry(kc, 2); done <- err }()
			if err := <-done; err != nil {
				c.Fail(sig("retry"), nil, nil, "WriteToWithRetry over the association: %v", err)
				return
			}
			ws := assoc.Writes()
			var whole []byte
			for _, w := range ws[nBefore:] {
				if w.Stream != sApp {
					c.Fail(ev.Sig{"op": "answer-stream", "what": "resumed answer"}, w.Data, nil, "a part of the answer to a request received on stream %d (resumed after a temporary error) was written to stream %d", sApp, w.Stream)
					return
				}
				whole = append(whole, w.Data...)
			}
			// log order: CEA, DWA, DWA(4), application answer (re-assembled)
			exps = []exp{exps[0], exps[1], {"DWA", sDWR, refcodec.Header{Version: 1, Flags: 0x80, Code: 280, HopByHop: h4, EndToEnd: e4}, 2001}, exps[2]}
			resumed = whole
			resumedFrom = nBefore
		}
	}
	ws := assoc.Writes()
	if resumed != nil {
		// the parts of the resumed answer count as one write
		ws = append(append([]sctpmem.WriteRec{}, ws[:resumedFrom]...), sctpmem.WriteRec{Stream: sApp, Data: resumed})
	}
	if len(ws) != len(exps) {
		c.Fail(sig("answer-count"), nil, nil, "%d writes on the association, %d answers expected (CER stream %d, DWR stream %d, application stream %d)", len(ws), len(exps), sCER, sDWR, sApp)
		return
	}
	for i, e := range exps {
		if !checkAnswer(c, e.name+" over SCTP", e.reqH, ws[i].Data, e.rc, true) {
			return
		}
		if ws[i].Stream != e.stream {
			c.Fail(ev.Sig{"op": "answer-stream", "what": e.name}, ws[i].Data, nil, "the %s to a request received on stream %d was written to stream %d (deferred=%v)", e.name, e.stream, ws[i].Stream, deferred)
			return
		}
		c.Event("stream_answers_checked", 1)
	}
}

// runC16Concurrent: after the handshake, requests arrive on n different streams;
// the handler passes each to a goroutine of its own and all of them answer at the
// same moment. Every answer must be on the stream of the request it answers.
func runC16Concurrent(c *ev.Case, ctx *lib.Ctx, n, rounds int, viaRetry bool) {
	sig := func(op string) ev.Sig { return ev.Sig{"op": op, "half": "stream", "how": "concurrent-answers"} }
	settings := &sm.Settings{OriginHost: "srv.local", OriginRealm: "realm.local", VendorID: 13, ProductName: "verif",
		HostIPAddresses: []datatype.Address{datatype.Address([]byte{192, 0, 2, 1})}}
	machine := sm.New(settings)
	gate := make(chan struct{})
	var gmu sync.Mutex
	var wg sync.WaitGroup
	machine.HandleIdx(diam.CommandIndex{AppID: 4, Code: 272, Request: true}, diam.HandlerFunc(func(dc diam.Conn, m *diam.Message) {
		gmu.Lock()
		g := gate
		gmu.Unlock()
		wg.Add(1)
		go func() {
			defer wg.Done()
			<-g
			if viaRetry {
				m.Answer(2001).WriteToWithRetry(dc, 1)
			} else {
				m.Answer(2001).WriteTo(dc)
			}
		}()
	}))
	assoc := sctpmem.New()
	msc := diam.VerifNewSCTPConn(assoc)
	defer diam.VerifRelease(msc)
	conn, err := diam.NewConn(msc, "peer", machine, ctx.Parser)
	if err != nil {
		c.Fail(sig("setup"), nil, nil, "NewConn: %v", err)
		return
	}
	defer func() {
		assoc.FeedEOF()
		conn.Close()
		synctest.Wait()
	}()
	assoc.Feed(0, peer.StdCER(1, 1, 4))
	synctest.Wait()
	for round := 0; round < rounds; round++ {
		before := len(assoc.Writes())
		want := map[uint32]uint16{}
		for k := 0; k < n; k++ {
			st := uint16((k*7 + round) % 16)
			hbh := uint32(round<<8 | k | 0x10000)
			want[hbh] = st
			assoc.Feed(st, peer.Msg(0xC0, 272, 4, hbh, ^hbh, peer.Str(peer.SessionID, refcodec.UTF8String, "s;1")))
		}
		synctest.Wait()
		gmu.Lock()
		close(gate)
		gate = make(chan struct{})
		gmu.Unlock()
		wg.Wait()
		synctest.Wait()
		ws := assoc.Writes()[before:]
		if len(ws) != n {
			c.Fail(sig("answer-count"), nil, nil, "round %d: %d writes on the association for %d requests answered at the same time", round, len(ws), n)
			return
		}
		for _, w := range ws {
			msgs, rest := peer.SplitMessages(w.Data)
			if len(msgs) != 1 || len(rest) != 0 {
				c.Fail(sig("answer-damaged"), w.Data, nil, "round %d: a write on stream %d is not one whole message", round, w.Stream)
				return
			}
			h := peer.Header(msgs[0])
			st, ok := want[h.HopByHop]
			if !ok {
				c.Fail(sig("answer-damaged"), w.Data, nil, "round %d: answer with an unknown hop-by-hop id %#x", round, h.HopByHop)
				return
			}
			delete(want, h.HopByHop)
			if w.Stream != st {
				c.Fail(ev.Sig{"op": "answer-stream", "what": "concurrent answers"}, w.Data, nil, "round %d, %d requests answered at the same moment from their own goroutines: the answer to the request received on stream %d was written to stream %d", round, n, st, w.Stream)
				return
			}
			c.Event("stream_answers_checked", 1)
		}
	}
	c.Event("concurrent_answer_rounds", rounds)
}

type closerFunc func()

func (f closerFunc) Close() { f() }

func TestC16Stream(t *testing.T) {
	rec := ev.Open(t, "C16")
	defer rec.Close()
	ctx := defCtx(t)
	_, restore := captureLog()
	defer restore()
	streams := []uint16{0, 1, 2, 3, 4, 5, 6, 7, 8, 9, 10, 11, 12, 13, 14, 15, 65535}
	// quick: every (CER stream, DWR stream) pair, application stream rotating; thorough: every triple
	total := len(streams) * len(streams) * 2
	if !rec.Quick() {
		total *= len(streams)
	}
	rec.Suite("stream", total, func(c *ev.Case) {
		a := streams[c.I%len(streams)]
		b := streams[(c.I/len(streams))%len(streams)]
		d := streams[(c.I*7+3)%len(streams)]
		if !rec.Quick() {
			d = streams[(c.I/(len(streams)*len(streams)*2))%len(streams)]
		}
		deferred := (c.I/(len(streams)*len(streams)))%2 == 1
		failCER := c.I%11 == 0
		c.Class("stream/cer=%d/deferred=%v/fail=%v/pinned-writer-stream=%v/server-side-write-timeout=%v", a, deferred, failCER, (c.I/3)%3 == 1, (c.I/2)%4 == 3)
		leak := runBubbleWD(t, rec, c, 60*time.Second, func() { runC16Stream(c, ctx, a, b, d, c.I%5 == 0, failCER, deferred, (c.I/3)%3 == 1, (c.I/2)%4 == 3) })
		if leak != "" && !c.Failed() {
			c.Fail(ev.Sig{"op": "bubble-leak"}, nil, nil, "goroutines left blocked: %s", leak)
		}
		if c.WantSample() && deferred {
			c.Sample(map[string]any{"cer_stream": a, "dwr_stream": b, "application_stream": d, "deferred_answer": deferred, "note": fmt.Sprint("answers observed in the in-memory association's write log")})
		}
	})
	rec.Exhaustive("stream")
	// a peer that shuts down its sending side after its last requests (half-close) still reads:
	// the answers to requests it sent before the FIN go out on the connection they arrived on,
	// also when the application asked for CloseNotify (whose copy routine sees the FIN first)
	rec.Suite("answer-after-half-close", 8*rec.N(2, 100), func(c *ev.Case) {
		notify := c.I%2 == 0
		viaSM := (c.I/2)%2 == 0
		slow := (c.I/4)%2 == 0
		c.Class("answer-after-half-close/close-notify=%v/state-machine=%v/slow-handler=%v", notify, viaSM, slow)
		leak := runBubbleWD(t, rec, c, 60*time.Second, func() {
			sig := func(op string) ev.Sig { return ev.Sig{"op": op, "what": "answer after half-close"} }
			appH := func(dc diam.Conn, m *diam.Message) {
				if notify {
					_ = dc.(diam.CloseNotifier).CloseNotify()
				}
				if slow {
					time.Sleep(50 * time.Millisecond)
				}
				m.Answer(2001).WriteTo(dc)
			}
			var h diam.Handler = diam.HandlerFunc(appH)
			if viaSM {
				machine := sm.New(&sm.Settings{OriginHost: "srv.local", OriginRealm: "realm.local", VendorID: 13, ProductName: "verif",
					HostIPAddresses: []datatype.Address{datatype.Address([]byte{192, 0, 2, 1})}})
				machine.HandleFunc("ALL", appH)
				h = machine
			}
			srv := &diam.Server{Handler: h, Dict: ctx.Parser}
			ln := memnet.NewListener()
			go srv.Serve(ln)
			defer ln.Close()
			mc := memnet.NewConn()
			ln.Offer(mc)
			var reqs []refcodec.Header
			var stream []byte
			if viaSM {
				stream = append(stream, peer.StdCER(11, 12, 4)...)
				reqs = append(reqs, refcodec.Header{Version: 1, Flags: 0x80, Code: 257, HopByHop: 11, EndToEnd: 12})
			}
			first := peer.Msg(0xC0, 272, 4, 21, 22, peer.Str(peer.SessionID, refcodec.UTF8String, "s;1"))
			reqs = append(reqs, refcodec.Header{Version: 1, Flags: 0xC0, Code: 272, App: 4, HopByHop: 21, EndToEnd: 22})
			mc.Feed(append(stream, first...))
			synctest.Wait()
			time.Sleep(time.Second)
			synctest.Wait()
			// the last burst and the FIN
			var burst []byte
			for i := uint32(0); i < 3; i++ {
				burst = append(burst, peer.Msg(0xC0, 272, 4, 31+i, 41+i, peer.Str(peer.SessionID, refcodec.UTF8String, "s;1"))...)
				reqs = append(reqs, refcodec.Header{Version: 1, Flags: 0xC0, Code: 272, App: 4, HopByHop: 31 + i, EndToEnd: 41 + i})
			}
			if viaSM {
				burst = append(burst, peer.DWR(51, 52)...)
				reqs = append(reqs, refcodec.Header{Version: 1, Flags: 0x80, Code: 280, HopByHop: 51, EndToEnd: 52})
			}
			mc.Feed(burst)
			mc.FeedEOF()
			time.Sleep(2 * time.Second)
			synctest.Wait()
			msgs, rest := peer.SplitMessages(mc.Written())
			if len(rest) != 0 || len(msgs) != len(reqs) {
				c.Fail(sig("answer-count"), nil, nil, "the peer sent %d requests and then shut down its sending side (CloseNotify requested: %v, state machine: %v, handlers take 50 ms: %v): %d answers reached the transport (%d stray bytes; %d writes after the library closed it)", len(reqs), notify, viaSM, slow, len(msgs), len(rest), mc.WritesAfterClose())
				return
			}
			for i, m := range msgs {
				if !checkAnswer(c, "answer after half-close", reqs[i], m, 2001, true) {
					return
				}
			}
			c.Event("stream_answers_checked", len(msgs))
		})
		if leak != "" && !c.Failed() {
			c.Fail(ev.Sig{"op": "bubble-leak"}, nil, nil, "goroutines left blocked: %s", leak)
		}
	})
	// the client role on an association: an sm.Client with the watchdog enabled (on a stream of
	// its choice) answers the DWRs its peer sends on whatever stream they arrive
	cstreams := []uint16{0, 1, 3, 9, 65535}
	rec.Suite("client-dwa-stream", len(cstreams)*2, func(c *ev.Case) {
		wd := uint(cstreams[c.I%len(cstreams)])
		if wd == 65535 {
			wd = 7
		}
		c.Class("client-dwa-stream/watchdog-stream=%d/watchdog=%v", wd, c.I/len(cstreams) == 0)
		leak := runBubbleWD(t, rec, c, 60*time.Second, func() {
			sig := func(op string) ev.Sig { return ev.Sig{"op": op, "what": "DWA (client role)"} }
			machine := sm.New(&sm.Settings{OriginHost: "cli.local", OriginRealm: "realm.local", VendorID: 13, ProductName: "verif",
				HostIPAddresses: []datatype.Address{datatype.Address([]byte{192, 0, 2, 9})}})
			cli := &sm.Client{Dict: ctx.Parser, Handler: machine, MaxRetransmits: 1, RetransmitInterval: time.Second,
				EnableWatchdog: c.I/len(cstreams) == 0, WatchdogInterval: time.Hour, WatchdogStream: wd,
				AuthApplicationID: []*diam.AVP{diam.NewAVP(258, 0x40, 0, datatype.Unsigned32(4))}}
			assoc := sctpmem.New()
			msc := diam.VerifNewSCTPConn(assoc)
			defer diam.VerifRelease(msc)
			var conn diam.Conn
			var derr error
			done := make(chan struct{})
			go func() {
				conn, derr = cli.NewConn(msc, "peer:3868")
				close(done)
			}()
			synctest.Wait()
			ws := assoc.Writes()
			if len(ws) != 1 {
				c.Fail(sig("setup"), nil, nil, "%d writes before the CEA", len(ws))
				return
			}
			h := peer.Header(ws[0].Data)
			assoc.Feed(ws[0].Stream, peer.StdCEA(h.HopByHop, h.EndToEnd, 2001, 4))
			<-done
			synctest.Wait()
			if derr != nil || conn == nil {
				c.Fail(sig("setup"), nil, nil, "handshake over the association failed: %v", derr)
				return
			}
			defer func() {
				assoc.FeedEOF()
				conn.Close()
				synctest.Wait()
			}()
			for i, st := range []uint16{5, 0, uint16(wd), 9, 15, 65535} {
				id := uint32(0x5000 + i)
				n0 := len(assoc.Writes())
				assoc.Feed(st, peer.DWR(id, ^id))
				synctest.Wait()
				ws := assoc.Writes()[n0:]
				if len(ws) != 1 {
					c.Fail(sig("answer-count"), nil, nil, "a DWR from the peer on stream %d was answered with %d writes", st, len(ws))
					return
				}
				if !checkAnswer(c, "DWA (client role)", refcodec.Header{Version: 1, Flags: 0x80, Code: 280, HopByHop: id, EndToEnd: ^id}, ws[0].Data, 2001, true) {
					return
				}
				if ws[0].Stream != st {
					c.Fail(ev.Sig{"op": "answer-stream", "what": "DWA (client role)"}, nil, nil, "the client (watchdog stream %d) answered a DWR that arrived on stream %d on stream %d", wd, st, ws[0].Stream)
					return
				}
			}
			c.Event("stream_answers_checked", 6)
		})
		if leak != "" && !c.Failed() {
			c.Fail(ev.Sig{"op": "bubble-leak"}, nil, nil, "goroutines left blocked: %s", leak)
		}
	})
	// watchdog answers of one state machine for several peers at the same moment: every DWA mirrors
	// the request it answers (identifiers, P bit), not another connection's
	rec.Suite("concurrent-dwas", rec.N(40, 20000), func(c *ev.Case) {
		K := 2 + c.I%6
		c.Class("concurrent-dwas/K=%d", K)
		leak := runBubbleWD(t, rec, c, 60*time.Second, func() { runC13Concurrent(c, ctx, K, 40) })
		if leak != "" && !c.Failed() {
			c.Fail(ev.Sig{"op": "bubble-leak"}, nil, nil, "goroutines left blocked: %s", leak)
		}
		c.Event("stream_answers_checked", K*40)
	})
	rec.Suite("concurrent-answers", rec.N(60, 6000), func(c *ev.Case) {
		n := []int{2, 3, 8, 16}[c.R.IntN(4)]
		viaRetry := c.R.IntN(3) == 0
		c.Class("concurrent-answers/n=%d/retry=%v", n, viaRetry)
		leak := runBubbleWD(t, rec, c, 60*time.Second, func() { runC16Concurrent(c, ctx, n, 6, viaRetry) })
		if leak != "" && !c.Failed() {
			c.Fail(ev.Sig{"op": "bubble-leak"}, nil, nil, "goroutines left blocked: %s", leak)
		}
	})
}
