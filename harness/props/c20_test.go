package props

import (
	"bytes"
	"fmt"
	"strings"
	"sync"
	"testing"

	"github.com/fiorix/go-diameter/v4/diam"
	"github.com/fiorix/go-diameter/v4/diam/datatype"

	"verifharness/ev"
	"verifharness/gen"
	"verifharness/lib"
	"verifharness/refcodec"
	"verifharness/refdict"
)

// refWalk: pre-order, descending into grouped AVPs, over the library's own
// tree (so results can be compared by pointer identity).
func refWalk(avps []*diam.AVP, code uint32, out *[]*diam.AVP) {
	for _, a := range avps {
		if a.Code == code {
			*out = append(*out, a)
		}
		if g, ok := a.Data.(*diam.GroupedAVP); ok {
			refWalk(g.AVP, code, out)
		}
	}
}

func refPath(avps []*diam.AVP, path []uint32, out *[]*diam.AVP) {
	for _, a := range avps {
		if a.Code != path[0] {
			continue
		}
		if len(path) == 1 {
			*out = append(*out, a)
			continue
		}
		if g, ok := a.Data.(*diam.GroupedAVP); ok {
			refPath(g.AVP, path[1:], out)
		}
	}
}

func samePtrs(a, b []*diam.AVP) bool {
	if len(a) != len(b) {
		return false
	}
	for i := range a {
		if a[i] != b[i] {
			return false
		}
	}
	return true
}

// denseTree: few codes, many repeats, groups in groups, empty groups.
func denseTree(c *ev.Case, depth int) []*refcodec.Node {
	r := c.R
	n := r.IntN(5)
	if depth == 0 {
		n = 1 + r.IntN(6)
	}
	var out []*refcodec.Node
	for i := 0; i < n; i++ {
		switch x := r.IntN(10); {
		case x < 3:
			out = append(out, &refcodec.Node{Code: 9001, Flags: 0x40, Kind: refcodec.OctetString, B: []byte{byte(r.Uint32())}})
		case x < 5:
			out = append(out, &refcodec.Node{Code: 9009, Flags: 0x40, Kind: refcodec.Unsigned32, U: uint64(r.Uint32())})
		case x < 6:
			out = append(out, &refcodec.Node{Code: 9002, Flags: 0x40, Kind: refcodec.UTF8String, B: []byte("s")})
		case x < 7:
			out = append(out, &refcodec.Node{Code: 777000 + uint32(r.IntN(2)), Flags: 0, Kind: refcodec.Unknown, B: []byte{1, 2, 3}})
		default:
			code := uint32(9018 + r.IntN(2))
			g := &refcodec.Node{Code: code, Flags: 0x40, Kind: refcodec.Grouped}
			if depth < 5 {
				g.Kids = denseTree(c, depth+1)
			}
			out = append(out, g)
		}
	}
	return out
}

func TestC20(t *testing.T) {
	rec := ev.Open(t, "C20")
	defer rec.Close()
	ctxs := contexts(t)
	g := genCtx(t)
	gf2, err := refdict.Parse("gen2", lib.GenXML2)
	if err != nil {
		t.Fatal(err)
	}
	g2, err := lib.Load("gen2", gf2) // the same names mean other codes than in g
	if err != nil {
		t.Fatal(err)
	}
	// nesting up to and beyond what the decoder accepts (diam.MaxGroupedAVPDepth = 128)
	depths := []int{1, 2, 3, 31, 64, 100, 126, 127, 128, 129, 130, 160, 257}
	rec.Suite("deep-chains", len(depths)*2, func(c *ev.Case) {
		d := depths[c.I%len(depths)]
		decoded := c.I/len(depths) == 1
		if decoded && d > diam.MaxGroupedAVPDepth {
			return
		}
		c.Class("deep-chain/depth=%d/decoded=%v", d, decoded)
		c20Deep(c, g, d, decoded)
	})
	rec.Suite("search-after-change", rec.N(2000, 400000), func(c *ev.Case) { c20AfterChange(c, g) })
	// a dictionary that grows while the application runs: searches by name before and after a
	// later Load that gives the name another meaning for the message's application (the name is
	// defined in base first; the extension defines it in the application itself, or in base again
	// with another code).  A name resolves through the dictionary as it is now.
	rec.Suite("search-after-load", rec.N(40, 2000), func(c *ev.Case) {
		c20AfterLoad(c, c.I%4)
	})
	rec.Suite("concurrent-searches", rec.N(300, 60000), func(c *ev.Case) { c20Concurrent(c, g) })
	nSearch := rec.N(40000, 20000000)
	if rec.Race() {
		nSearch = rec.N(4000, 400000)
	}
	rec.Suite("search", nSearch, func(c *ev.Case) {
		r := c.R
		var ctx *lib.Ctx
		var m *gen.Msg
		if c.I%2 == 0 {
			ctx = g
			if (c.I/32)%2 == 1 { // alternates within every batch
				ctx = g2
			}
			m = &gen.Msg{H: refcodec.Header{Version: 1, Flags: 0x80, Code: 8388000, App: 0, HopByHop: 1, EndToEnd: 1}, Nodes: denseTree(c, 0)}
		} else {
			ctx = ctxs[(c.I/2)%len(ctxs)]
			m = drawMsg(c, ctx, &gen.Opts{MaxDepth: 4, MaxAVPs: 10})
		}
		dm := lib.Build(ctx.Parser, m, c.I)
		how := "api"
		if r.IntN(2) == 0 {
			how = "decoded"
			wire, err := dm.Serialize()
			if err != nil {
				c.Fail(ev.Sig{"op": "setup"}, nil, nil, "Serialize: %v", err)
				return
			}
			dm, err = diam.ReadMessage(bytes.NewReader(wire), ctx.Parser)
			if err != nil {
				c.Fail(ev.Sig{"op": "setup"}, wire, nil, "ReadMessage: %v", err)
				return
			}
		}
		if how == "api" && r.IntN(3) == 0 {
			// a message assembled by an application may hold the same value at two
			// places: one *AVP added twice, or one *GroupedAVP as the data of two AVPs.
			// The document has both occurrences (so has its wire image), and so has
			// the reference walk over Message.AVP.
			var groups []*diam.AVP
			var collect func(avps []*diam.AVP)
			collect = func(avps []*diam.AVP) {
				for _, a := range avps {
					if g, ok := a.Data.(*diam.GroupedAVP); ok {
						groups = append(groups, a)
						collect(g.AVP)
					}
				}
			}
			collect(dm.AVP)
			if len(groups) > 0 {
				a := groups[r.IntN(len(groups))]
				how = "api-shared-value"
				switch r.IntN(3) {
				case 0:
					dm.AddAVP(a)
				case 1:
					dm.AddAVP(diam.NewAVP(a.Code+1, a.Flags, a.VendorID, a.Data))
				case 2:
					dm.InsertAVP(diam.NewAVP(778000, 0x40, 0, &diam.GroupedAVP{AVP: []*diam.AVP{a}}))
				}
			}
		}
		app := m.H.App
		// searching must not modify the message: flatten the tree (pointers) before
		var flatBefore []*diam.AVP
		var flatten func(avps []*diam.AVP, out *[]*diam.AVP)
		flatten = func(avps []*diam.AVP, out *[]*diam.AVP) {
			for _, a := range avps {
				*out = append(*out, a)
				if g, ok := a.Data.(*diam.GroupedAVP); ok {
					*out = append(*out, nil)
					flatten(g.AVP, out)
					*out = append(*out, nil)
				}
			}
		}
		flatten(dm.AVP, &flatBefore)
		defer func() {
			var flatAfter []*diam.AVP
			flatten(dm.AVP, &flatAfter)
			if !c.Failed() && !samePtrs(flatBefore, flatAfter) {
				c.Fail(ev.Sig{"op": "search-modified-the-message"}, nil, nil, "after the queries the message's AVP tree is no longer the one that was built (%d entries before, %d after, first difference at %d); tree {%s}", len(flatBefore), len(flatAfter), firstPtrDiff(flatBefore, flatAfter), refcodec.Describe(m.Nodes))
			}
		}()
		// collect codes present
		var present []*refcodec.Node
		maxDepth := 0
		gen.Walk(m.Nodes, 0, func(n *refcodec.Node, d int) {
			present = append(present, n)
			if d > maxDepth {
				maxDepth = d
			}
		})
		vis := ctx.Visible(app)
		for q := 0; q < 6; q++ {
			// choose a target code
			var code uint32
			var vendor uint32 = refdict.AnyVendor
			kind := ""
			switch x := r.IntN(10); {
			case x < 6 && len(present) > 0:
				n := present[r.IntN(len(present))]
				code, kind = n.Code, "present"
				if r.IntN(4) == 0 {
					vendor = n.Vendor
					kind = "present-exact-vendor"
				}
			case x < 8:
				d := vis[r.IntN(len(vis))]
				code, kind = d.Code, "defined"
			case x < 9:
				code, kind = 777000+uint32(r.IntN(3)), "undefined"
			default:
				code, kind = r.Uint32(), "random"
			}
			if r.IntN(12) == 0 {
				vendor, kind = 424242, kind+"-wrong-vendor"
			}
			def, defined := ctx.Ix.FindAVP(app, code, vendor)
			// the query value: int, uint32 or name
			var query any
			form := r.IntN(3)
			expectCode := code
			resolvable := defined
			switch form {
			case 0:
				query = int(code)
			case 1:
				query = code
			case 2:
				if !defined {
					query = fmt.Sprintf("No-Such-Name-%d", code)
					resolvable = false
				} else {
					query = def.Name
					nd, ok := ctx.Ix.FindAVPByName(app, def.Name, vendor)
					resolvable = ok
					if ok {
						expectCode = nd.Code
					}
				}
			}
			var want []*diam.AVP
			refWalk(dm.AVP, expectCode, &want)
			c.Class("%s/%s/form=%d/hits=%d/resolvable=%v", how, kind, form, min(len(want), 3), resolvable)
			sig := func(op string) ev.Sig { return ev.Sig{"op": op, "form": form, "kind": kind} }
			desc := func() string {
				return fmt.Sprintf("query %T(%v) vendor %d on %s tree {%s} (app %d)", query, query, vendor, how, refcodec.Describe(m.Nodes), app)
			}

			// a number no AVP code can be: an int that differs from a present code by a multiple
			// of 2^32 finds nothing (never the AVP whose code it would be after truncation)
			if form == 0 && len(want) > 0 && q == 0 {
				for _, far := range []int{int(expectCode) + 1<<32, int(expectCode) - 1<<32, int(expectCode) + 5<<32} {
					var g1 *diam.AVP
					var gs []*diam.AVP
					if p, bad := guard(func() {
						g1, _ = dm.FindAVP(far, vendor)
						gs, _ = dm.FindAVPs(far, vendor)
					}); bad {
						c.Fail(sig("panic"), nil, nil, "a search for int(%d) panicked: %s; %s", far, p, desc())
						return
					}
					if g1 != nil || len(gs) != 0 {
						c.Fail(ev.Sig{"op": "found-for-impossible-code", "form": form}, nil, nil, "a search for the number %d (no AVP code: codes are 32 bits) returned the AVP(s) with code %d: FindAVP %v, FindAVPs %d; %s", far, expectCode, g1 != nil, len(gs), desc())
						return
					}
				}
				c.Event("impossible_codes_checked", 3)
			}
			// FindAVPs
			var got []*diam.AVP
			var err error
			if p, bad := guard(func() { got, err = dm.FindAVPs(query, vendor) }); bad {
				c.Fail(sig("panic"), nil, nil, "FindAVPs panicked: %s; %s", p, desc())
				return
			}
			switch {
			case resolvable && len(want) > 0:
				if err != nil || !samePtrs(got, want) {
					c.Fail(sig("FindAVPs"), nil, nil, "FindAVPs returned %d AVPs (err=%v), the reference walk finds %d; %s", len(got), err, len(want), desc())
					return
				}
			case resolvable:
				if len(got) != 0 {
					c.Fail(sig("FindAVPs"), nil, nil, "FindAVPs returned %d AVPs for an absent code; %s", len(got), desc())
					return
				}
			default: // not resolvable through the dictionary: not found, or the reference result
				if len(got) != 0 && !samePtrs(got, want) {
					c.Fail(sig("FindAVPs"), nil, nil, "FindAVPs returned %d AVPs that are not the reference result; %s", len(got), desc())
					return
				}
				if form == 2 && (err == nil || len(got) != 0) {
					c.Fail(sig("FindAVPs"), nil, nil, "FindAVPs by an unresolvable name returned %d AVPs, err=%v; %s", len(got), err, desc())
					return
				}
			}
			// FindAVP
			var one *diam.AVP
			if p, bad := guard(func() { one, err = dm.FindAVP(query, vendor) }); bad {
				c.Fail(sig("panic"), nil, nil, "FindAVP panicked: %s; %s", p, desc())
				return
			}
			switch {
			case resolvable && len(want) > 0:
				if err != nil || one != want[0] {
					c.Fail(sig("FindAVP"), nil, nil, "FindAVP did not return the first AVP in document order (err=%v); %s", err, desc())
					return
				}
			case resolvable:
				if one != nil || err == nil {
					c.Fail(sig("FindAVP"), nil, nil, "FindAVP for an absent code returned %v, err=%v; %s", one, err, desc())
					return
				}
			default:
				if one != nil && (len(want) == 0 || one != want[0]) {
					c.Fail(sig("FindAVP"), nil, nil, "FindAVP returned an AVP that is not the reference result; %s", desc())
					return
				}
			}
			c.Event("queries", 2)
		}
		// path queries
		for q := 0; q < 4; q++ {
			plen := 1 + r.IntN(maxDepth+2)
			var path []any
			var codes []uint32
			resolvable := true
			// follow a real branch most of the time
			level := dm.AVP
			for i := 0; i < plen; i++ {
				var code uint32
				if len(level) > 0 && r.IntN(5) != 0 {
					a := level[r.IntN(len(level))]
					code = a.Code
					if g, ok := a.Data.(*diam.GroupedAVP); ok {
						level = g.AVP
					} else {
						level = nil
					}
				} else {
					code = []uint32{9001, 9009, 9018, 9019, 777000, 264}[r.IntN(6)]
					level = nil
				}
				def, ok := ctx.Ix.FindAVP(app, code, refdict.AnyVendor)
				switch r.IntN(3) {
				case 0:
					path = append(path, int(code))
				case 1:
					path = append(path, code)
				default:
					if ok {
						path = append(path, def.Name)
						nd, _ := ctx.Ix.FindAVPByName(app, def.Name, refdict.AnyVendor)
						code = nd.Code
					} else {
						path = append(path, code)
					}
				}
				if !ok {
					resolvable = false
				}
				codes = append(codes, code)
			}
			var want []*diam.AVP
			refPath(dm.AVP, codes, &want)
			c.Class("path/%s/len=%d/hits=%d/resolvable=%v", how, plen, min(len(want), 3), resolvable)
			var got []*diam.AVP
			var err error
			pathBefore := append([]any(nil), path...)
			if p, bad := guard(func() { got, err = dm.FindAVPsWithPath(path, refdict.AnyVendor) }); bad {
				c.Fail(ev.Sig{"op": "panic", "form": "path"}, nil, nil, "FindAVPsWithPath panicked: %s", p)
				return
			}
			for i := range path {
				if path[i] != pathBefore[i] {
					c.Fail(ev.Sig{"op": "FindAVPsWithPath", "kind": "query-modified"}, nil, nil, "FindAVPsWithPath changed the caller's path: element %d was %#v, is %#v (the same path used on a message of another application would follow this message's codes)", i, pathBefore[i], path[i])
					return
				}
			}
			d := fmt.Sprintf("path %v (codes %v) on %s tree {%s}", path, codes, how, refcodec.Describe(m.Nodes))
			if resolvable {
				if err != nil || !samePtrs(got, want) {
					c.Fail(ev.Sig{"op": "FindAVPsWithPath"}, nil, nil, "FindAVPsWithPath returned %d AVPs (err=%v), the reference finds %d; %s", len(got), err, len(want), d)
					return
				}
			} else if len(got) != 0 && !samePtrs(got, want) {
				c.Fail(ev.Sig{"op": "FindAVPsWithPath"}, nil, nil, "FindAVPsWithPath returned %d AVPs that are not the reference result; %s", len(got), d)
				return
			}
			c.Event("path_queries", 1)
			if c.WantSample() && len(want) > 1 && plen > 1 {
				c.Sample(map[string]any{"tree": refcodec.Describe(m.Nodes), "path": fmt.Sprint(path), "hits": len(want), "via": how})
			}
		}
	})
}

// c20Deep: a chain of groups nested `depth` levels, a leaf (code 9009) at every
// level: decoded from the wire up to the depth the decoder accepts, built
// through the API beyond that. Search by number, by name and by the full path.
func c20Deep(c *ev.Case, g *lib.Ctx, depth int, decoded bool) {
	sig := func(op string) ev.Sig { return ev.Sig{"op": op, "kind": "deep-chain"} }
	cur := []*refcodec.Node{{Code: 9009, Flags: 0x40, Kind: refcodec.Unsigned32, U: uint64(depth)}}
	for d := depth; d >= 1; d-- {
		grp := &refcodec.Node{Code: 9018, Flags: 0x40, Kind: refcodec.Grouped, Kids: cur}
		cur = []*refcodec.Node{{Code: 9009, Flags: 0x40, Kind: refcodec.Unsigned32, U: uint64(d - 1)}, grp}
	}
	m := &gen.Msg{H: refcodec.Header{Version: 1, Flags: 0x80, Code: 8388000, HopByHop: 1, EndToEnd: 1}, Nodes: cur}
	dm := lib.Build(g.Parser, m, 0)
	if decoded {
		wire, err := dm.Serialize()
		if err == nil {
			dm, err = diam.ReadMessage(bytes.NewReader(wire), g.Parser)
		}
		if err != nil {
			c.Fail(sig("setup"), nil, nil, "groups nested %d deep: %v", depth, err)
			return
		}
	}
	var wantLeafs, wantGroups []*diam.AVP
	refWalk(dm.AVP, 9009, &wantLeafs)
	refWalk(dm.AVP, 9018, &wantGroups)
	if len(wantLeafs) != depth+1 || len(wantGroups) != depth {
		c.Fail(sig("setup"), nil, nil, "reference walk of a %d-level chain finds %d leafs and %d groups", depth, len(wantLeafs), len(wantGroups))
		return
	}
	desc := fmt.Sprintf("groups nested %d deep (decoded=%v), one leaf per level", depth, decoded)
	for _, q := range []struct {
		query any
		want  []*diam.AVP
	}{{9009, wantLeafs}, {uint32(9009), wantLeafs}, {"G-U32", wantLeafs}, {9018, wantGroups}, {"G-Group", wantGroups}} {
		var got []*diam.AVP
		var one *diam.AVP
		var err, err1 error
		if p, bad := guard(func() {
			got, err = dm.FindAVPs(q.query, refdict.AnyVendor)
			one, err1 = dm.FindAVP(q.query, refdict.AnyVendor)
		}); bad {
			c.Fail(sig("panic"), nil, nil, "search panicked: %s; %s", p, desc)
			return
		}
		if err != nil || !samePtrs(got, q.want) {
			c.Fail(sig("FindAVPs"), nil, nil, "FindAVPs(%v) returned %d AVPs (err=%v), the reference walk finds %d; %s", q.query, len(got), err, len(q.want), desc)
			return
		}
		if err1 != nil || one != q.want[0] {
			c.Fail(sig("FindAVP"), nil, nil, "FindAVP(%v) did not return the first AVP in document order (err=%v); %s", q.query, err1, desc)
			return
		}
		c.Event("queries", 2)
	}
	// the path to the innermost leaf, and to every level on the way
	for _, plen := range []int{depth, depth / 2, 1} {
		if plen < 1 {
			continue
		}
		var path []any
		var codes []uint32
		for i := 0; i < plen; i++ {
			path = append(path, []any{9018, uint32(9018), "G-Group"}[i%3])
			codes = append(codes, 9018)
		}
		path, codes = append(path, "G-U32"), append(codes, 9009)
		var want []*diam.AVP
		refPath(dm.AVP, codes, &want)
		var got []*diam.AVP
		var err error
		if p, bad := guard(func() { got, err = dm.FindAVPsWithPath(path, refdict.AnyVendor) }); bad {
			c.Fail(ev.Sig{"op": "panic", "form": "path", "kind": "deep-chain"}, nil, nil, "FindAVPsWithPath panicked: %s; %s", p, desc)
			return
		}
		if err != nil || len(want) != 1 || !samePtrs(got, want) {
			c.Fail(ev.Sig{"op": "FindAVPsWithPath", "kind": "deep-chain"}, nil, nil, "FindAVPsWithPath with a path of %d groups and the leaf returned %d AVPs (err=%v), the reference finds %d; %s", plen, len(got), err, len(want), desc)
			return
		}
		c.Event("path_queries", 1)
	}
}

// c20AfterChange: search, change the tree (through the message's methods, through
// a group's AddAVP, by editing the exported slices directly), search again: every
// answer is that of a walk of the tree as it is at that moment.
func c20AfterChange(c *ev.Case, g *lib.Ctx) {
	r := c.R
	m := &gen.Msg{H: refcodec.Header{Version: 1, Flags: 0x80, Code: 8388000, HopByHop: 1, EndToEnd: 1}, Nodes: denseTree(c, 0)}
	dm := lib.Build(g.Parser, m, c.I)
	if r.IntN(2) == 0 {
		wire, err := dm.Serialize()
		if err == nil {
			dm, err = diam.ReadMessage(bytes.NewReader(wire), g.Parser)
		}
		if err != nil {
			c.Fail(ev.Sig{"op": "setup"}, nil, nil, "%v", err)
			return
		}
	}
	codes := []uint32{9001, 9009, 9018, 9019, 9002}
	var trace []string
	check := func() bool {
		for _, code := range codes {
			var want, got []*diam.AVP
			var one *diam.AVP
			var err, err1 error
			refWalk(dm.AVP, code, &want)
			if p, bad := guard(func() {
				got, err = dm.FindAVPs(code, refdict.AnyVendor)
				one, err1 = dm.FindAVP(code, refdict.AnyVendor)
			}); bad {
				c.Fail(ev.Sig{"op": "panic", "kind": "after-change"}, nil, trace, "search panicked after %v: %s", trace, p)
				return false
			}
			if !samePtrs(got, want) || (len(want) > 0 && (err != nil || one != want[0] || err1 != nil)) || (len(want) == 0 && one != nil) {
				c.Fail(ev.Sig{"op": "search-after-change", "kind": "present"}, nil, trace, "after %v: FindAVPs(%d) returned %d AVPs (err=%v), FindAVP %v (err=%v); a walk of the tree as it is now finds %d", trace, code, len(got), err, one != nil, err1, len(want))
				return false
			}
			c.Event("queries", 2)
		}
		return true
	}
	if !check() {
		return
	}
	var groups []*diam.GroupedAVP
	var collect func(avps []*diam.AVP)
	collect = func(avps []*diam.AVP) {
		for _, a := range avps {
			if ga, ok := a.Data.(*diam.GroupedAVP); ok {
				groups = append(groups, ga)
				collect(ga.AVP)
			}
		}
	}
	for step := 0; step < 1+r.IntN(5); step++ {
		groups = groups[:0]
		collect(dm.AVP)
		op := r.IntN(6)
		switch {
		case op == 0:
			trace = append(trace, "Message.AddAVP")
			dm.AddAVP(diam.NewAVP(9009, 0x40, 0, datatype.Unsigned32(uint32(step))))
		case op == 1 && len(groups) > 0:
			trace = append(trace, "GroupedAVP.AddAVP")
			groups[r.IntN(len(groups))].AddAVP(diam.NewAVP(9001, 0x40, 0, datatype.OctetString("added")))
		case op == 2 && len(dm.AVP) > 0:
			trace = append(trace, "m.AVP[i] = x")
			dm.AVP[r.IntN(len(dm.AVP))] = diam.NewAVP(9002, 0x40, 0, datatype.UTF8String("replaced"))
		case op == 3 && len(groups) > 0:
			ga := groups[r.IntN(len(groups))]
			if len(ga.AVP) > 0 {
				trace = append(trace, "group.AVP = group.AVP[1:]")
				ga.AVP = ga.AVP[1:]
			}
		case op == 4 && len(groups) > 0:
			ga := groups[r.IntN(len(groups))]
			if len(ga.AVP) > 0 {
				trace = append(trace, "group.AVP[i] = x")
				ga.AVP[r.IntN(len(ga.AVP))] = diam.NewAVP(9009, 0x40, 0, datatype.Unsigned32(99))
			}
		default:
			trace = append(trace, "Message.InsertAVP")
			dm.InsertAVP(diam.NewAVP(9001, 0x40, 0, datatype.OctetString("first")))
		}
		if !check() {
			return
		}
	}
	c.Class("after-change/steps=%d", len(trace))
	c.Event("search_after_change_histories", 1)
}

// c20Concurrent: G goroutines search one message at the same time (searching is
// read-only); an earlier search that found nothing precedes them. Every result
// is compared with the reference walk.
func c20Concurrent(c *ev.Case, g *lib.Ctx) {
	r := c.R
	// a large tree (hundreds to thousands of AVPs), so that searches take long enough to overlap
	var nodes []*refcodec.Node
	for k := 5 + r.IntN(60); k > 0; k-- {
		nodes = append(nodes, denseTree(c, 0)...)
	}
	m := &gen.Msg{H: refcodec.Header{Version: 1, Flags: 0x80, Code: 8388000, HopByHop: 1, EndToEnd: 1}, Nodes: nodes}
	dm := lib.Build(g.Parser, m, c.I)
	if r.IntN(2) == 0 {
		wire, err := dm.Serialize()
		if err == nil {
			dm, err = diam.ReadMessage(bytes.NewReader(wire), g.Parser)
		}
		if err != nil {
			c.Fail(ev.Sig{"op": "setup"}, nil, nil, "%v", err)
			return
		}
	}
	dm.FindAVP(777001, refdict.AnyVendor) // a search that finds nothing
	dm.FindAVPs(777002, refdict.AnyVendor)
	var codes []uint32
	seen := map[uint32]bool{}
	gen.Walk(m.Nodes, 0, func(n *refcodec.Node, d int) {
		if !seen[n.Code] {
			seen[n.Code] = true
			codes = append(codes, n.Code)
		}
	})
	codes = append(codes, 777000, 264)
	// paths from the root to nodes of the tree (of different lengths: each goroutine follows its own)
	var paths [][]uint32
	var collect func(avps []*diam.AVP, prefix []uint32)
	collect = func(avps []*diam.AVP, prefix []uint32) {
		for _, a := range avps {
			p := append(append([]uint32(nil), prefix...), a.Code)
			if len(paths) < 64 {
				paths = append(paths, p)
			}
			if ga, ok := a.Data.(*diam.GroupedAVP); ok && len(p) < 6 {
				collect(ga.AVP, p)
			}
		}
	}
	collect(dm.AVP, nil)
	G := 2 + r.IntN(7)
	c.Class("concurrent-searches/G=%d", G)
	var mu sync.Mutex
	problem := ""
	var wg sync.WaitGroup
	start := make(chan struct{})
	for gi := 0; gi < G; gi++ {
		qs := make([]uint32, 200)
		for i := range qs {
			qs[i] = codes[r.IntN(len(codes))]
			if r.IntN(4) == 0 {
				qs[i] = []uint32{264, 9023, 9024, 268}[r.IntN(4)] // mostly absent from the tree
			}
		}
		pq := make([][]uint32, 60)
		for i := range pq {
			if len(paths) > 0 {
				pq[i] = paths[r.IntN(len(paths))]
			}
		}
		wg.Add(1)
		go func() {
			defer wg.Done()
			<-start
			for i, code := range qs {
				if i%4 == 3 && pq[i%len(pq)] != nil {
					// a path search of this goroutine's own, between the code searches
					path := pq[i%len(pq)]
					var wantP []*diam.AVP
					refPath(dm.AVP, path, &wantP)
					ifs := make([]interface{}, len(path))
					for k, pc := range path {
						ifs[k] = pc
					}
					var gotP []*diam.AVP
					var perr error
					pp, pbad := guard(func() { gotP, perr = dm.FindAVPsWithPath(ifs, refdict.AnyVendor) })
					pmsg := ""
					resolvable := true
					for _, pc := range path {
						if _, ok := g.Ix.FindAVP(0, pc, refdict.AnyVendor); !ok {
							resolvable = false
						}
					}
					switch {
					case pbad:
						pmsg = "path search panicked: " + pp
					case resolvable && (!samePtrs(gotP, wantP) || (len(wantP) > 0 && perr != nil)):
						pmsg = fmt.Sprintf("FindAVPsWithPath(%v) returned %d AVPs (err=%v), the reference walk finds %d", path, len(gotP), perr, len(wantP))
					case !resolvable && len(gotP) != 0 && !samePtrs(gotP, wantP):
						pmsg = fmt.Sprintf("FindAVPsWithPath(%v) returned AVPs that are not the reference result", path)
					}
					if pmsg != "" {
						mu.Lock()
						if problem == "" {
							problem = pmsg
						}
						mu.Unlock()
						return
					}
				}
				var want []*diam.AVP
				refWalk(dm.AVP, code, &want)
				var got []*diam.AVP
				var one *diam.AVP
				var err, err1 error
				p, bad := guard(func() {
					if i%2 == 0 {
						got, err = dm.FindAVPs(code, refdict.AnyVendor)
					} else {
						got, err = dm.FindAVPs(int(code), refdict.AnyVendor)
					}
					one, err1 = dm.FindAVP(code, refdict.AnyVendor)
				})
				msg := ""
				_, defined := g.Ix.FindAVP(0, code, refdict.AnyVendor)
				switch {
				case bad:
					msg = "search panicked: " + p
				case !defined:
					// not resolvable through the dictionary: "not found" or the reference result
					if (len(got) != 0 && !samePtrs(got, want)) || (one != nil && (len(want) == 0 || one != want[0])) {
						msg = fmt.Sprintf("search for the undefined code %d returned AVPs that are not the reference result", code)
					}
				case !samePtrs(got, want) || (len(want) > 0 && err != nil):
					msg = fmt.Sprintf("FindAVPs(%d) returned %d AVPs (err=%v), the reference walk finds %d", code, len(got), err, len(want))
				case len(want) > 0 && (one != want[0] || err1 != nil):
					msg = fmt.Sprintf("FindAVP(%d) did not return the first AVP in document order (err=%v)", code, err1)
				case len(want) == 0 && (one != nil || err1 == nil):
					msg = fmt.Sprintf("FindAVP(%d) for an absent code returned %v, err=%v", code, one, err1)
				}
				if msg != "" {
					mu.Lock()
					if problem == "" {
						problem = msg
					}
					mu.Unlock()
					return
				}
			}
		}()
	}
	close(start)
	wg.Wait()
	c.Event("queries", G*400)
	c.Event("concurrent_search_rounds", 1)
	if problem != "" {
		c.Fail(ev.Sig{"op": "concurrent-search", "kind": "present"}, nil, nil, "%d goroutines searching one message of %d top-level AVPs at the same time: %s", G, len(m.Nodes), problem)
	}
}

func c20AfterLoad(c *ev.Case, variant int) {
	sig := func(op string) ev.Sig { return ev.Sig{"op": op, "kind": "search-after-load"} }
	// the generated dictionary without the application-level G-Ident
	baseXML := strings.Replace(lib.GenXML, `    <avp name="G-Ident" code="9102" must="M"><data type="OctetString"/></avp>`+"\n", "", 1)
	if baseXML == lib.GenXML {
		c.Fail(sig("setup"), nil, nil, "the generated dictionary no longer has the application-level G-Ident")
		return
	}
	gf, err := refdict.Parse("gen-base", baseXML)
	if err != nil {
		c.Fail(sig("setup"), nil, nil, "%v", err)
		return
	}
	cx, err := lib.Load("gen-base", gf)
	if err != nil {
		c.Fail(sig("setup"), nil, nil, "%v", err)
		return
	}
	app := uint32(8388001)
	ext := `<?xml version="1.0" encoding="UTF-8"?><diameter><application id="8388001" type="auth" name="Gen-App"><avp name="G-Ident" code="9102" must="M"><data type="OctetString"/></avp></application></diameter>`
	newCode := uint32(9102)
	if variant%2 == 1 {
		// the later file redefines the name in base, with another code
		ext = `<?xml version="1.0" encoding="UTF-8"?><diameter><application id="0" name="Base"><avp name="G-Ident" code="9103" must="M"><data type="OctetString"/></avp></application></diameter>`
		newCode = 9103
	}
	m := diam.NewMessage(8388002, diam.RequestFlag, app, 1, 2, cx.Parser)
	m.NewAVP(9003, 0x40, 0, datatype.DiameterIdentity("a.b"))
	m.NewAVP(newCode, 0x40, 0, datatype.OctetString("x"))
	m.NewAVP(9018, 0x40, 0, &diam.GroupedAVP{AVP: []*diam.AVP{diam.NewAVP(newCode, 0x40, 0, datatype.OctetString("y")), diam.NewAVP(9003, 0x40, 0, datatype.DiameterIdentity("c.d"))}})
	if variant >= 2 {
		wire, _ := m.Serialize()
		if m, err = diam.ReadMessage(bytes.NewReader(wire), cx.Parser); err != nil {
			c.Fail(sig("setup"), nil, nil, "ReadMessage: %v", err)
			return
		}
	}
	check := func(when string, code uint32) bool {
		var want []*diam.AVP
		refWalk(m.AVP, code, &want)
		got, err := m.FindAVPs("G-Ident", refdict.AnyVendor)
		if err != nil || !samePtrs(got, want) {
			c.Fail(sig("FindAVPs"), nil, nil, "%s the later Load: FindAVPs(\"G-Ident\") returned %d AVPs (err=%v), the dictionary now resolves the name to code %d for application %d and the reference walk finds %d", when, len(got), err, code, app, len(want))
			return false
		}
		one, err := m.FindAVP("G-Ident", refdict.AnyVendor)
		if err != nil || len(want) == 0 || one != want[0] {
			c.Fail(sig("FindAVP"), nil, nil, "%s the later Load: FindAVP(\"G-Ident\") did not return the first AVP with code %d (err=%v)", when, code, err)
			return false
		}
		var wantP []*diam.AVP
		refPath(m.AVP, []uint32{9018, code}, &wantP)
		gotP, err := m.FindAVPsWithPath([]interface{}{"G-Group", "G-Ident"}, refdict.AnyVendor)
		if err != nil || !samePtrs(gotP, wantP) {
			c.Fail(sig("FindAVPsWithPath"), nil, nil, "%s the later Load: FindAVPsWithPath([G-Group G-Ident]) returned %d AVPs (err=%v), the reference finds %d", when, len(gotP), err, len(wantP))
			return false
		}
		return true
	}
	c.Class("search-after-load/variant=%d", variant)
	if !check("before", 9003) {
		return
	}
	if err := cx.Parser.Load(strings.NewReader(ext)); err != nil {
		c.Fail(sig("setup"), nil, nil, "Load of the extension: %v", err)
		return
	}
	if !check("after", newCode) {
		return
	}
	// dictionaries that are refused (Load returns an error) although they repeat definitions the
	// parser already has: a file written for another stack that gives a known AVP a data type
	// this library does not have, a file that fails further down, a file that repeats a command.
	// Nothing that was found before is lost.
	appTag := `<application id="8388001" type="auth" name="Gen-App">`
	if variant%2 == 1 {
		appTag = `<application id="0" name="Base">`
	}
	refused := []string{
		`<?xml version="1.0" encoding="UTF-8"?><diameter>` + appTag + fmt.Sprintf(`<avp name="G-Ident" code="%d" must="M"><data type="AppId"/></avp></application></diameter>`, newCode),
		`<?xml version="1.0" encoding="UTF-8"?><diameter><application id="0" name="Base"><avp name="G-Group" code="9018" must="M"><data type="Grouped"><rule avp="G-Octets" required="false"/></data></avp><avp name="X-Half" code="9777"><data type="Float16"/></avp></application></diameter>`,
		`<?xml version="1.0" encoding="UTF-8"?><diameter>` + appTag + fmt.Sprintf(`<avp name="G-Ident" code="%d" must="M"><data type="OctetString"/></avp></application><application id="0" name="Base"><command code="257" short="CE" name="Capabilities-Exchange"><request><rule avp="G-Octets" required="false"/></request><answer><rule avp="G-Octets" required="false"/></answer></command></application></diameter>`, newCode),
	}
	for i, x := range refused {
		var lerr error
		if p, bad := guard(func() { lerr = cx.Parser.Load(strings.NewReader(x)) }); bad {
			c.Fail(sig("panic"), nil, nil, "Load of a dictionary that is to be refused panicked: %s", p)
			return
		}
		if lerr == nil {
			c.Event("refused_dictionary_accepted", 1)
			continue
		}
		if !check(fmt.Sprintf("after refused dictionary %d (%v) and", i, lerr), newCode) {
			return
		}
		c.Event("queries_after_refused_load", 3)
	}
	c.Event("queries", 6)
	c.Event("path_queries", 2)
}

func firstPtrDiff(a, b []*diam.AVP) int {
	for i := 0; i < len(a) && i < len(b); i++ {
		if a[i] != b[i] {
			return i
		}
	}
	return min(len(a), len(b))
}
