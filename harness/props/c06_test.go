package props

import (
	"bytes"
	"encoding/binary"
	"fmt"
	"io"
	"net"
	"runtime"
	"runtime/debug"
	"sync"
	"testing"
	"time"

	"github.com/fiorix/go-diameter/v4/diam"
	"github.com/fiorix/go-diameter/v4/diam/datatype"

	"verifharness/ev"
	"verifharness/gen"
	"verifharness/memnet"
	"verifharness/peer"
	"verifharness/refcodec"
)

var c06Kinds = map[refcodec.Kind]bool{refcodec.Address: true, refcodec.IPv4: true, refcodec.IPv6: true,
	refcodec.OctetString: true, refcodec.Unknown: true, refcodec.UTF8String: true}

// c06Tree draws the layout of the retained message: the data types that could
// be views into the input, at top level and inside groups.
func c06Tree(c *ev.Case, big bool) []*refcodec.Node {
	r := c.R
	var rec func(depth int) []*refcodec.Node
	rec = func(depth int) []*refcodec.Node {
		n := 1 + r.IntN(5)
		var out []*refcodec.Node
		for i := 0; i < n; i++ {
			var nd *refcodec.Node
			switch r.IntN(8) {
			case 0:
				nd = &refcodec.Node{Code: 9015, Flags: 0x40}
				gen.Value(r, nd, refcodec.Address, &gen.Opts{}, 0, nil)
			case 1:
				nd = &refcodec.Node{Code: 9016, Flags: 0x40}
				gen.Value(r, nd, refcodec.IPv4, nil, 0, nil)
			case 2:
				nd = &refcodec.Node{Code: 9017, Flags: 0x40}
				gen.Value(r, nd, refcodec.IPv6, nil, 0, nil)
			case 3:
				nd = &refcodec.Node{Code: 9001, Flags: 0x40}
				gen.Value(r, nd, refcodec.OctetString, &gen.Opts{}, 0, nil)
			case 4, 5:
				nd = &refcodec.Node{Code: 0x00E10000 + uint32(r.IntN(4)), Flags: 0, Kind: refcodec.Unknown}
				if r.IntN(2) == 0 {
					nd.Flags, nd.Vendor = 0x80, 31337
				}
				nd.B = make([]byte, 1+r.IntN(40))
				for k := range nd.B {
					nd.B[k] = byte(r.Uint32())
				}
			case 6:
				nd = &refcodec.Node{Code: 9022, Flags: 0x80, Vendor: 10415}
				gen.Value(r, nd, refcodec.Address, &gen.Opts{}, 0, nil)
				if r.IntN(3) == 0 {
					// family 2 carrying ::ffff:a.b.c.d (legal; its in-memory form is the IPv4 one)
					nd.Fam, nd.B = 2, append(make([]byte, 10), 0xff, 0xff, byte(r.Uint32()), byte(r.Uint32()), byte(r.Uint32()), byte(r.Uint32()))
				}
			default:
				if depth >= 3 {
					continue
				}
				nd = &refcodec.Node{Code: 9018, Flags: 0x40, Kind: refcodec.Grouped, Kids: rec(depth + 1)}
			}
			out = append(out, nd)
		}
		return out
	}
	nodes := rec(0)
	if big {
		b := make([]byte, 1100+r.IntN(3000))
		for k := range b {
			b[k] = byte(r.Uint32())
		}
		nodes = append(nodes, &refcodec.Node{Code: 0x00E10009, Kind: refcodec.Unknown, B: b})
	}
	return nodes
}

// variant returns the same layout with different bytes.
func variant(nodes []*refcodec.Node, j byte) []*refcodec.Node {
	out := make([]*refcodec.Node, len(nodes))
	for i, n := range nodes {
		c := *n
		c.B = append([]byte(nil), n.B...)
		for k := range c.B {
			c.B[k] ^= j*37 + 1
		}
		if n.Kind == refcodec.Address && n.Fam == 2 && gen.IsV4Mapped(n.B) {
			copy(c.B, n.B[:12]) // stays v4-mapped, other host bytes
		} else if c.Kind == refcodec.Address && gen.RiskAddress(c.Fam, c.B) {
			c.B[0] ^= 0x55
		}
		c.Kids = variant(n.Kids, j)
		out[i] = &c
	}
	return out
}

// appendToValues appends to every byte-slice value of a decoded tree (without keeping the
// result): with spare capacity shared between values the append would write into another value.
func appendToValues(avps []*diam.AVP) {
	junk := bytes.Repeat([]byte{0xEE}, 48)
	for _, a := range avps {
		switch v := a.Data.(type) {
		case datatype.Unknown:
			_ = append(v, junk...)
		case datatype.OctetString:
			_ = append([]byte(v), junk...)
		case datatype.Address:
			_ = append(v, junk...)
		case datatype.IPv4:
			_ = append(v, junk...)
		case datatype.IPv6:
			_ = append(v, junk...)
		case *diam.GroupedAVP:
			appendToValues(v.AVP)
			// ... or add a member to a group it decoded
			if cap(v.AVP) > len(v.AVP) {
				_ = append(v.AVP, diam.NewAVP(9009, 0x40, 0, datatype.Unsigned32(0xEEEEEEEE)))
			}
		}
	}
}

// c06Scribble overwrites, in place, every byte-slice value of a decoded tree.
func c06Scribble(avps []*diam.AVP, b byte) {
	fill := func(p []byte) {
		for i := range p {
			p[i] = b
		}
	}
	for _, a := range avps {
		switch v := a.Data.(type) {
		case datatype.Unknown:
			fill(v)
		case datatype.OctetString:
			// (a string: immutable)
		case datatype.Address:
			fill(v)
		case datatype.IPv4:
			fill(v)
		case datatype.IPv6:
			fill(v)
		case *diam.GroupedAVP:
			c06Scribble(v.AVP, b)
		}
	}
}

type snapshot struct {
	wire []byte
	str  string
	hdr  diam.Header
}

func snap(m *diam.Message) (s snapshot, err error) {
	p, bad := guard(func() {
		s.hdr = *m.Header // before anything else touches the message
		s.wire, err = m.Serialize()
		s.str = m.String()
	})
	if bad {
		err = fmt.Errorf("panic: %s", p)
	}
	return
}

func TestC06(t *testing.T) {
	rec := ev.Open(t, "C06")
	defer rec.Close()
	ctx := genCtx(t)
	if !rec.Race() {
		old := debug.SetGCPercent(-1)
		defer debug.SetGCPercent(old)
	}
	n := rec.N(20000, 4000000)
	if rec.Race() {
		n = rec.N(1500, 100000)
	}
	done := 0
	history := func(c *ev.Case) {
		r := c.R
		// a counter of this child's own cases (c.I only takes the values of this batch)
		if c.Suite == "histories" {
			if done++; done%1000 == 0 && !rec.Race() {
				runtime.GC()
			}
		}
		big := r.IntN(4) == 0
		base := c06Tree(c, big)
		h := refcodec.Header{Version: 1, Flags: 0x80, Code: 8388000, HopByHop: 1, EndToEnd: 1}
		k := 2 + r.IntN(4)
		var wires [][]byte
		for j := 0; j < k; j++ {
			nodes := base
			if j > 0 {
				nodes = variant(base, byte(j))
			}
			hh := h
			hh.HopByHop = uint32(j + 1)
			wires = append(wires, refcodec.EncodeMessage(hh, nodes))
		}
		// a quarter of the histories retain a message that is not in canonical form:
		// the padding of its last AVP is missing (accepted by the decoder)
		noncanon := false
		if r.IntN(4) == 0 {
			w := wires[0]
			cut := 0
			for cut < 3 && len(w) > 20 && w[len(w)-1-cut] == 0 {
				cut++
			}
			// only when the last AVP really ends with padding
			recs, _, _ := refcodec.Frame(w[20:])
			if len(recs) > 0 {
				last := recs[len(recs)-1]
				pad := (4 - int(last.Length)%4) % 4
				if pad > 0 {
					w = append([]byte(nil), w[:len(w)-pad]...)
					w[1], w[2], w[3] = byte(len(w)>>16), byte(len(w)>>8), byte(len(w))
					wires[0] = w
					noncanon = true
				}
			}
		}
		mode := r.IntN(4) // 0 same reader, 1 other reader, 2 other goroutine, 3 concurrent re-reading (race oracle)
		if rec.Race() {
			mode = 3
		}
		gen.Walk(base, 0, func(n *refcodec.Node, d int) {
			c.Class("%s/depth=%d/big=%v/mode=%d/noncanonical=%v", n.Kind, d, big, mode, noncanon)
		})
		var stream []byte
		for _, w := range wires {
			stream = append(stream, w...)
		}
		rd := bytes.NewReader(stream)
		m1, err := diam.ReadMessage(rd, ctx.Parser)
		if err != nil {
			c.Fail(ev.Sig{"op": "setup"}, wires[0], nil, "ReadMessage: %v", err)
			return
		}
		before, err := snap(m1)
		if err != nil {
			c.Fail(ev.Sig{"op": "setup"}, wires[0], nil, "snapshot: %v", err)
			return
		}
		hasMapped := false
		gen.Walk(base, 0, func(n *refcodec.Node, d int) {
			if n.Kind == refcodec.Address && n.Fam == 2 && gen.IsV4Mapped(n.B) {
				hasMapped = true
			}
		})
		if !hasMapped && !noncanon && !bytes.Equal(before.wire, wires[0]) {
			c.Fail(ev.Sig{"op": "setup"}, wires[0], nil, "first message does not round-trip")
			return
		}
		if int(before.hdr.MessageLength) != len(wires[0]) {
			c.Fail(ev.Sig{"op": "retained-changed", "what": "header"}, wires[0], nil, "the header of the message just read says length %d, %d bytes were read", before.hdr.MessageLength, len(wires[0]))
			return
		}
		readRest := func() error {
			src := rd
			if mode == 1 {
				src = bytes.NewReader(stream[len(wires[0]):])
			}
			for j := 1; j < k; j++ {
				mj, err := diam.ReadMessage(src, ctx.Parser)
				if err != nil {
					return err
				}
				// an application may extend values it decoded (append to the bytes of an opaque
				// or address value): that is its own copy, not a window onto other messages
				appendToValues(mj.AVP)
				if cap(mj.AVP) > len(mj.AVP) {
					_ = append(mj.AVP, diam.NewAVP(9009, 0x40, 0, datatype.Unsigned32(0xEEEEEEEE)))
				}
				// writes reuse pooled buffers as well: send the message just read and an answer to it
				if _, err := mj.WriteTo(io.Discard); err != nil {
					return err
				}
				if _, err := mj.Answer(2001).WriteTo(io.Discard); err != nil {
					return err
				}
			}
			return nil
		}
		var rerr error
		switch mode {
		case 0, 1:
			rerr = readRest()
		case 2:
			done := make(chan struct{})
			go func() { rerr = readRest(); close(done) }()
			<-done
		case 3:
			var wg sync.WaitGroup
			wg.Add(2)
			stop := make(chan struct{})
			go func() {
				defer wg.Done()
				for i := 0; i < 50; i++ {
					select {
					case <-stop:
						return
					default:
					}
					snap(m1)
					m1.WriteTo(io.Discard) // a relay forwards the message it kept
				}
			}()
			go func() {
				defer wg.Done()
				for rep := 0; rep < 4 && rerr == nil; rep++ {
					rd.Seek(int64(len(wires[0])), 0)
					rerr = readRest()
				}
				close(stop)
			}()
			wg.Wait()
		}
		if rerr != nil {
			c.Fail(ev.Sig{"op": "setup"}, stream, nil, "reading the later messages: %v", rerr)
			return
		}
		after, err := snap(m1)
		if err != nil {
			c.Fail(ev.Sig{"op": "retained-render-panic"}, stream, nil, "rendering the retained message after further reads: %v", err)
			return
		}
		if !bytes.Equal(after.wire, before.wire) {
			at := firstDiff(after.wire, before.wire)
			c.Fail(ev.Sig{"op": "retained-changed", "what": "bytes"}, stream, map[string]any{"before": ev.Hex(before.wire), "after": ev.Hex(after.wire)},
				"the retained message changed after %d further reads (mode %d): its serialisation differs at byte %d", k-1, mode, at)
			return
		}
		if after.hdr != before.hdr {
			c.Fail(ev.Sig{"op": "retained-changed", "what": "header"}, stream, nil, "the header of the retained message changed after further reads and writes (mode %d): %+v -> %+v", mode, before.hdr, after.hdr)
			return
		}
		if after.str != before.str {
			c.Fail(ev.Sig{"op": "retained-changed", "what": "rendering"}, stream, nil, "the retained message renders differently after %d further reads (mode %d)", k-1, mode)
			return
		}
		c.Event("histories_checked", 1)
		c.Event("later_reads", k-1)
		if c.WantSample() && !big {
			c.Sample(map[string]any{"retained": refcodec.Describe(base), "later_messages": k - 1, "mode": mode})
		}
	}
	rec.Suite("histories", n, history)
	// the same histories on four goroutines at once (several connections keep messages while the
	// others go on receiving): what one reader returned must not be touched by another's reads
	rec.Suite("parallel-histories", n/8, func(c *ev.Case) {
		inParallel(rec, c, 4, func(gc *ev.Case, g int) {
			for k := 0; k < 3 && !gc.Failed(); k++ {
				history(gc)
			}
		})
		if c.I%64 == 0 && !rec.Race() {
			runtime.GC()
		}
	})

	// messages the reader may or may not accept: a valid message with one inner length or flag
	// changed (a group member that claims more or less than it has, a group whose payload is not
	// a list of AVPs, a fixed-width value of another size, a V bit flipped) under the generated
	// and the default dictionary (Failed-AVP with an offending member copied as received).  The
	// property is conditional: whatever the reader does return must not change afterwards
	dctx := defCtx(t)
	// an application that owns a message may write into the values it was given (fill in an
	// address it received as all-zero, mask a prefix, blank a secret): every returned message
	// is a private copy, so such a write is never seen through another message - nor through
	// the standard library's shared values.  Half of the fixed-size AVPs here carry a payload
	// of the wrong size (the decoder substitutes a value of the right size).
	rec.Suite("values-written-in-place", rec.N(3000, 300000), func(c *ev.Case) {
		r := c.R
		mk := func(j int) []byte {
			var nodes []*refcodec.Node
			for k := 2 + r.IntN(6); k > 0; k-- {
				code := []uint32{9015, 9016, 9017, 9001, 9023, 0x00E10001}[r.IntN(6)]
				n := &refcodec.Node{Code: code, Flags: 0x40, Kind: refcodec.Unknown}
				if code == 9023 {
					n.Flags, n.Vendor = 0x80, 10415
				}
				var sz int
				switch code {
				case 9015:
					sz = []int{6, 18, 6, 18, 6, 18, 6, 10}[r.IntN(8)]
				case 9016:
					sz = []int{4, 4, 4, 4, 4, 4, 3, 16}[r.IntN(8)]
				case 9017, 9023:
					sz = []int{16, 16, 0, 4, 15, 17}[r.IntN(6)]
				default:
					sz = r.IntN(24)
				}
				n.B = make([]byte, sz)
				if r.IntN(3) != 0 {
					for i := range n.B {
						n.B[i] = byte(r.Uint32())
					}
				}
				if code == 9015 && sz >= 2 {
					n.B[0], n.B[1] = 0, byte(1+r.IntN(2))
				}
				if r.IntN(4) == 0 {
					n = &refcodec.Node{Code: 9018, Flags: 0x40, Kind: refcodec.Grouped, Kids: []*refcodec.Node{n}}
				}
				nodes = append(nodes, n)
			}
			return refcodec.EncodeMessage(refcodec.Header{Version: 1, Flags: 0x80, Code: 8388000, HopByHop: uint32(j + 1), EndToEnd: 1}, nodes)
		}
		var kept []*diam.Message
		var before []snapshot
		K := 2 + r.IntN(4)
		for j := 0; j < K; j++ {
			w := mk(j)
			m, err := diam.ReadMessage(bytes.NewReader(w), ctx.Parser)
			if err != nil {
				c.Event("wrong_size_rejected", 1)
				continue
			}
			sn, err := snap(m)
			if err != nil {
				c.Fail(ev.Sig{"op": "setup"}, w, nil, "snapshot: %v", err)
				return
			}
			// the owner of an earlier message writes into its values ...
			if len(kept) > 0 && r.IntN(2) == 0 {
				v := r.IntN(len(kept))
				c06Scribble(kept[v].AVP, byte(0xA0+j))
				if sv, err := snap(kept[v]); err == nil {
					before[v] = sv
				}
			}
			kept = append(kept, m)
			before = append(before, sn)
		}
		if len(kept) < 2 {
			return
		}
		// ... and the owner of the last one into its own
		c06Scribble(kept[len(kept)-1].AVP, 0xEE)
		for v := 0; v < len(kept)-1; v++ {
			after, err := snap(kept[v])
			if err != nil || !bytes.Equal(after.wire, before[v].wire) || after.str != before[v].str {
				c.Fail(ev.Sig{"op": "retained-changed", "what": "written-through-another-message"}, before[v].wire, nil, "message %d of %d, kept by its owner, changed when the owner of another message wrote into the values of its own (err=%v; first difference of the images at byte %d)", v, len(kept), err, firstDiff(after.wire, before[v].wire))
				return
			}
		}
		if !net.IPv6zero.Equal(net.ParseIP("::")) || !net.IPv4zero.Equal(net.ParseIP("0.0.0.0")) || !net.IPv6unspecified.Equal(net.ParseIP("::")) || !net.IPv4bcast.Equal(net.ParseIP("255.255.255.255")) || !net.IPv6loopback.Equal(net.ParseIP("::1")) {
			c.Fail(ev.Sig{"op": "retained-changed", "what": "standard-library-value"}, nil, nil, "after an application wrote into the values of a message it owns, one of the net package's shared addresses is no longer what it was (IPv6zero=%v IPv4zero=%v)", net.IPv6zero, net.IPv4zero)
			copy(net.IPv6zero, make([]byte, 16))
			copy(net.IPv4zero, net.IPv4(0, 0, 0, 0))
			return
		}
		c.Class("values-written-in-place/kept=%d", len(kept))
		c.Event("retained_checked", len(kept)-1)
	})
	rec.Suite("doubtful-messages", rec.N(6000, 600000), func(c *ev.Case) {
		r := c.R
		cx, cmd := ctx, uint32(8388000)
		var nodes []*refcodec.Node
		if c.I%3 == 0 {
			// default dictionary: an answer with Result-Code, Origin-Host and a Failed-AVP
			cx, cmd = dctx, 257
			inner := []*refcodec.Node{{Code: 257, Flags: 0x40, Kind: refcodec.Address, Fam: 1, B: []byte{10, byte(r.Uint32()), 3, 4}},
				{Code: 0x00E10001, Flags: 0x80, Vendor: 31337, Kind: refcodec.Unknown, B: []byte{9, 8, 7, 6, 5, byte(r.Uint32())}}}
			nodes = []*refcodec.Node{peer.U32(peer.ResultCode, 5005), peer.Str(peer.OriginHost, refcodec.DiameterIdentity, "a.b"),
				{Code: 279, Flags: 0x40, Kind: refcodec.Grouped, Kids: inner},
				{Code: 257, Flags: 0x40, Kind: refcodec.Address, Fam: 2, B: []byte{0x20, 1, 0xd, 0xb8, 0, 0, 0, 0, 0, 0, 0, 0, 0, 0, 0, byte(r.Uint32())}}}
		} else {
			nodes = c06Tree(c, false)
		}
		h := refcodec.Header{Version: 1, Flags: 0x80, Code: cmd, HopByHop: 1, EndToEnd: 1}
		good := refcodec.EncodeMessage(h, nodes)
		w := append([]byte(nil), good...)
		// the length fields and flag bytes of every AVP at every depth
		type spot struct{ off, length, depth int }
		var spots []spot
		var walk func(off, end, depth int)
		walk = func(off, end, depth int) {
			for off+8 <= end {
				l := int(w[off+5])<<16 | int(w[off+6])<<8 | int(w[off+7])
				if l < 8 || off+l > end {
					return
				}
				spots = append(spots, spot{off, l, depth})
				hl := 8
				if w[off+4]&0x80 != 0 {
					hl = 12
				}
				code := binary.BigEndian.Uint32(w[off:])
				if code == 9018 || code == 279 {
					walk(off+hl, off+l, depth+1)
				}
				off += (l + 3) &^ 3
			}
		}
		walk(20, len(w), 0)
		if len(spots) == 0 {
			return
		}
		sp := spots[r.IntN(len(spots))]
		kind := r.IntN(6)
		switch kind {
		case 0:
			put24(w, sp.off+5, sp.length+1+r.IntN(40))
		case 1:
			put24(w, sp.off+5, max(0, sp.length-1-r.IntN(8)))
		case 2:
			w[sp.off+4] ^= 0x80
		case 3:
			put24(w, sp.off+5, 8+r.IntN(4))
		case 4:
			if sp.length > 8 {
				w[sp.off+8+r.IntN(sp.length-8)] ^= byte(1 + r.IntN(255))
			}
		case 5:
			binary.BigEndian.PutUint32(w[sp.off:], []uint32{9018, 279, 9009, 9015, 257}[r.IntN(5)])
		}
		c.Class("doubtful/%s/kind=%d/depth=%d", cx.Name, kind, sp.depth)
		var m1 *diam.Message
		var err error
		if p, bad := guard(func() { m1, err = diam.ReadMessage(bytes.NewReader(w), cx.Parser) }); bad {
			c.Fail(ev.Sig{"op": "panic", "site": panicSite(p)}, w, nil, "ReadMessage panicked: %s", p)
			return
		}
		if m1 == nil {
			c.Event("doubtful_refused", 1)
			return
		}
		// (a message handed out together with an error has been returned too: the application may
		// keep it, e.g. to log what was refused)
		if err != nil {
			c.Event("doubtful_returned_with_error", 1)
		}
		before, err := snap(m1)
		if err != nil {
			c.Event("doubtful_not_serialisable", 1)
			return
		}
		// later traffic: the valid message with other bytes, several times, and writes
		for j := 1; j <= 3; j++ {
			hh := h
			hh.HopByHop = uint32(j + 1)
			mj, err := diam.ReadMessage(bytes.NewReader(refcodec.EncodeMessage(hh, variant(nodes, byte(j)))), cx.Parser)
			if err != nil {
				c.Fail(ev.Sig{"op": "setup"}, nil, nil, "a later valid message was refused: %v", err)
				return
			}
			mj.WriteTo(io.Discard)
			mj.Answer(2001).WriteTo(io.Discard)
		}
		after, err := snap(m1)
		if err != nil {
			c.Fail(ev.Sig{"op": "retained-render-panic"}, w, nil, "rendering the retained message after further reads: %v", err)
			return
		}
		if !bytes.Equal(after.wire, before.wire) || after.str != before.str || after.hdr != before.hdr {
			c.Fail(ev.Sig{"op": "retained-changed", "what": "bytes", "how": "doubtful-message"}, w, map[string]any{"before": ev.Hex(before.wire), "after": ev.Hex(after.wire)},
				"a message that the reader accepted (a valid message with one inner field changed, kind %d at depth %d, dictionary %s) changed after three further reads: its serialisation differs at byte %d", kind, sp.depth, cx.Name, firstDiff(after.wire, before.wire))
			return
		}
		c.Event("doubtful_accepted_stable", 1)
		c.Event("histories_checked", 1)
	})

	// long retention: messages kept across tens of thousands of later reads (any amortised
	// allocation scheme inside the decoders has come round several times by then)
	rec.Suite("long-retention", rec.N(3, 60), func(c *ev.Case) {
		r := c.R
		total := 40000
		type kept struct {
			m      *diam.Message
			before snapshot
			wire   []byte
			at     int
		}
		var keep []kept
		for i := 0; i < total; i++ {
			nodes := []*refcodec.Node{
				{Code: 9015, Flags: 0x40, Kind: refcodec.Address, Fam: 1, B: []byte{10, byte(i >> 16), byte(i >> 8), byte(i)}},
				{Code: 9016, Flags: 0x40, Kind: refcodec.IPv4, B: []byte{192, byte(i >> 16), byte(i >> 8), byte(i)}},
				{Code: 9017, Flags: 0x40, Kind: refcodec.IPv6, B: append(bytes.Repeat([]byte{0x20}, 12), byte(i>>24), byte(i>>16), byte(i>>8), byte(i))},
				{Code: 0x00E10001, Kind: refcodec.Unknown, B: []byte{byte(i), byte(i >> 8), byte(i >> 16), 7}},
			}
			if r.IntN(8) == 0 {
				nodes = append(nodes, &refcodec.Node{Code: 9018, Flags: 0x40, Kind: refcodec.Grouped, Kids: []*refcodec.Node{
					{Code: 9015, Flags: 0x40, Kind: refcodec.Address, Fam: 2, B: append(bytes.Repeat([]byte{0xfd}, 12), byte(i>>24), byte(i>>16), byte(i>>8), byte(i))}}})
			}
			w := refcodec.EncodeMessage(refcodec.Header{Version: 1, Flags: 0x80, Code: 8388000, HopByHop: uint32(i), EndToEnd: 1}, nodes)
			m, err := diam.ReadMessage(bytes.NewReader(w), ctx.Parser)
			if err != nil {
				c.Fail(ev.Sig{"op": "setup"}, w, nil, "ReadMessage: %v", err)
				return
			}
			if i%797 == 0 {
				b, err := snap(m)
				if err != nil || !bytes.Equal(b.wire, w) {
					c.Fail(ev.Sig{"op": "setup"}, w, nil, "message %d does not round-trip: %v", i, err)
					return
				}
				keep = append(keep, kept{m, b, w, i})
			}
		}
		for _, k := range keep {
			after, err := snap(k.m)
			if err != nil || !bytes.Equal(after.wire, k.before.wire) || after.str != k.before.str || after.hdr != k.before.hdr {
				c.Fail(ev.Sig{"op": "retained-changed", "what": "bytes", "how": "long-retention"}, k.wire, map[string]any{"before": ev.Hex(k.before.wire), "after": ev.Hex(after.wire)},
					"message number %d of %d, kept while the rest were read, changed (err=%v): its serialisation differs at byte %d", k.at, total, err, firstDiff(after.wire, k.before.wire))
				return
			}
		}
		c.Class("long-retention/kept=%d", len(keep))
		c.Event("long_retention_runs", 1)
		c.Event("later_reads", total)
	})

	// the application lowered the public nesting limit diam.MaxGroupedAVPDepth: whatever
	// the decoder then does with groups at and beyond the limit (reject the message, or
	// keep it), a message it returned must not change
	rec.Suite("lowered-depth-limit", rec.N(600, 40000), func(c *ev.Case) {
		r := c.R
		limit := []int{1, 2, 3, 5}[r.IntN(4)]
		depth := 1 + r.IntN(limit+3)
		old := diam.MaxGroupedAVPDepth
		diam.MaxGroupedAVPDepth = limit
		defer func() { diam.MaxGroupedAVPDepth = old }()
		mk := func(j byte) []byte {
			leafs := []*refcodec.Node{
				{Code: 9015, Flags: 0x40, Kind: refcodec.Address, Fam: 1, B: []byte{10, j, 2, 3}},
				{Code: 0x00E10001, Kind: refcodec.Unknown, B: bytes.Repeat([]byte{j*17 + 3}, 5+int(j))},
				{Code: 9001, Flags: 0x40, Kind: refcodec.OctetString, B: bytes.Repeat([]byte{j*29 + 1}, 9)},
				{Code: 9016, Flags: 0x40, Kind: refcodec.IPv4, B: []byte{192, 0, j, 1}},
			}
			cur := leafs
			for d := 0; d < depth; d++ {
				cur = []*refcodec.Node{{Code: 9018, Flags: 0x40, Kind: refcodec.Grouped, Kids: cur}}
			}
			return refcodec.EncodeMessage(refcodec.Header{Version: 1, Flags: 0x80, Code: 8388000, HopByHop: uint32(j) + 1, EndToEnd: 1}, cur)
		}
		c.Class("lowered-limit=%d/depth=%d", limit, depth)
		w0 := mk(0)
		m1, err := diam.ReadMessage(bytes.NewReader(w0), ctx.Parser)
		if err != nil {
			if depth <= limit {
				c.Fail(ev.Sig{"op": "setup", "what": "rejected-within-limit"}, w0, nil, "groups nested %d deep rejected with MaxGroupedAVPDepth=%d: %v", depth, limit, err)
			}
			c.Event("rejected_beyond_lowered_limit", 1)
			return
		}
		before, err := snap(m1)
		if err != nil {
			c.Fail(ev.Sig{"op": "retained-render-panic"}, w0, nil, "rendering a message accepted with MaxGroupedAVPDepth=%d, depth %d: %v", limit, depth, err)
			return
		}
		for j := byte(1); j < 6; j++ {
			if mj, err := diam.ReadMessage(bytes.NewReader(mk(j)), ctx.Parser); err == nil {
				mj.WriteTo(io.Discard)
			}
		}
		after, err := snap(m1)
		if err != nil || !bytes.Equal(after.wire, before.wire) || after.str != before.str || after.hdr != before.hdr {
			c.Fail(ev.Sig{"op": "retained-changed", "what": "bytes", "how": "lowered-depth-limit"}, w0, map[string]any{"before": ev.Hex(before.wire), "after": ev.Hex(after.wire)},
				"MaxGroupedAVPDepth=%d, groups nested %d deep: the retained message changed after 5 further reads (err=%v, first difference at byte %d)", limit, depth, err, firstDiff(after.wire, before.wire))
			return
		}
		c.Event("retained_under_lowered_limit", 1)
	})

	// end-to-end: a handler keeps every message and hands it to a checker that
	// renders it again after further messages have been received.
	rec.Suite("conn-retain", rec.N(300, 60000), func(c *ev.Case) {
		r := c.R
		base := c06Tree(c, r.IntN(4) == 0)
		k := 3 + r.IntN(6)
		var wires [][]byte
		for j := 0; j < k; j++ {
			nodes := base
			if j > 0 {
				nodes = variant(base, byte(j))
			}
			wires = append(wires, refcodec.EncodeMessage(refcodec.Header{Version: 1, Flags: 0x80, Code: 8388000, HopByHop: uint32(j + 1), EndToEnd: 9}, nodes))
		}
		c.Class("conn-retain/k=%d", k)
		mapped := false
		gen.Walk(base, 0, func(n *refcodec.Node, d int) {
			if n.Kind == refcodec.Address && n.Fam == 2 && gen.IsV4Mapped(n.B) {
				mapped = true
			}
		})
		mc := memnet.NewConn()
		type kept struct {
			m *diam.Message
			s snapshot
		}
		keptCh := make(chan kept, k)
		h := diam.HandlerFunc(func(_ diam.Conn, m *diam.Message) {
			s, _ := snap(m)
			keptCh <- kept{m, s}
		})
		if _, err := diam.NewConn(mc, "peer", h, ctx.Parser); err != nil {
			c.Fail(ev.Sig{"op": "setup"}, nil, nil, "NewConn: %v", err)
			return
		}
		for _, w := range wires {
			mc.FeedSplit(w, randCuts(c, len(w)))
		}
		mc.FeedEOF()
		select {
		case <-mc.Closed():
		case <-time.After(60 * time.Second):
			c.Fail(ev.Sig{"op": "watchdog"}, nil, nil, "connection not closed 60 s after EOF")
			return
		}
		close(keptCh)
		i := 0
		for kp := range keptCh {
			if !mapped && !bytes.Equal(kp.s.wire, wires[i]) {
				c.Fail(ev.Sig{"op": "setup"}, wires[i], nil, "message %d as seen by the handler is not what was sent", i)
				return
			}
			now, err := snap(kp.m)
			if err != nil || !bytes.Equal(now.wire, kp.s.wire) || now.str != kp.s.str {
				c.Fail(ev.Sig{"op": "retained-changed", "what": "conn"}, wires[i], nil,
					"message %d kept by a handler changed after %d further messages were received (err=%v, first differing byte %d)", i, k-1-i, err, firstDiff(now.wire, kp.s.wire))
				return
			}
			i++
		}
		if i != k {
			c.Fail(ev.Sig{"op": "setup"}, nil, nil, "%d of %d messages reached the handler", i, k)
			return
		}
		c.Event("conn_histories", 1)
	})
}
