package props

import (
	"bytes"
	"context"
	"crypto/tls"
	"errors"
	"io"
	"net"
	"os"
	"strings"
	"sync"
	"sync/atomic"
	"testing"
	"testing/synctest"
	"time"

	"github.com/fiorix/go-diameter/v4/diam"
	"github.com/fiorix/go-diameter/v4/diam/datatype"
	"github.com/fiorix/go-diameter/v4/diam/sm"

	"verifharness/ev"
	"verifharness/lib"
	"verifharness/memnet"
	"verifharness/peer"
	"verifharness/sctpmem"
)

// events
const (
	eF  = 'F' // deliver the next fragment
	eNh = 'h' // arm: the next handler invocation requests CloseNotify
	eNo = 'o' // another goroutine requests CloseNotify now (the reader is blocked)
	eNt = 't' // CloseNotify requested after the termination
	// terminations
	tEOF   = 'E'
	tERR   = 'R'
	tBAD   = 'B' // undecodable message, nothing after it
	tBADT  = 'T' // undecodable message with trailing data in the same segment
	tLC    = 'L' // local Close
	tEOFd  = 'e' // the rest of the message in progress (or the next whole message) and EOF in the same Read
	tERRd  = 'r' // ... and a read error in the same Read
	tPANIC = 'P' // the handler of the next whole message panics (recovered by the library, connection closed)
	eW     = 'W' // a write that hits a temporary transport error and is resumed (the connection stays up)
	tTEMP  = 'M' // a transport read error that calls itself temporary (not a timeout): a read error all the same
)

const c14Terms = "ERBTLerPM"

func isTermination(e byte) bool { return strings.IndexByte(c14Terms, e) >= 0 }

const c14MsgLen = 32 // seqMsg(seq, 12)

// badMessage: a header whose command the dictionary does not define.
func badMessage(trailing bool) []byte {
	b := peer.Msg(0x80, 8388606, 0, 1, 1)
	if trailing {
		b = append(b, seqMsg(99, 12)...)
		b = append(b, 1, 2, 3, 4, 5)
	}
	return b
}

type notifySet struct {
	mu  sync.Mutex
	chs []<-chan struct{}
}

func (n *notifySet) add(ch <-chan struct{}) {
	n.mu.Lock()
	n.chs = append(n.chs, ch)
	n.mu.Unlock()
}
func (n *notifySet) state() (total, closed int) {
	n.mu.Lock()
	defer n.mu.Unlock()
	for _, ch := range n.chs {
		total++
		select {
		case <-ch:
			closed++
		default:
		}
	}
	return
}

// runC14 executes one ordering. waits=true: quiescence between events (the
// ordering is the schedule); waits=false: events are fired without waiting.
func runC14(c *ev.Case, ctx *lib.Ctx, order string, waits bool, lc *logCapture, sctpStream int) {
	sig := func(op string) ev.Sig {
		term := "?"
		for i := 0; i < len(order); i++ {
			if isTermination(order[i]) {
				term = string(order[i])
			}
		}
		if sctpStream >= 0 {
			return ev.Sig{"op": op, "termination": term, "waits": waits, "transport": "sctp"}
		}
		return ev.Sig{"op": op, "termination": term, "waits": waits}
	}
	nF := strings.Count(order, "F")
	// three numbered messages cut into nF fragments, cuts inside messages
	var stream []byte
	for s := 1; s <= 3; s++ {
		stream = append(stream, seqMsg(uint32(s), 12)...)
	}
	var frags [][]byte
	if nF > 0 {
		prev := 0
		for i := 1; i <= nF; i++ {
			end := i*len(stream)/nF - 5
			if i == nF {
				end = len(stream) - 7 // the last fragment ends inside message 3
			}
			if end <= prev {
				end = prev + 1
			}
			frags = append(frags, stream[prev:end])
			prev = end
		}
	}
	var failNext atomic.Bool
	// the transport: an in-memory TCP-like connection, or (sctpStream >= 0) an SCTP
	// association on which everything arrives on one stream
	var tr struct {
		feed        func(b []byte)
		feedErr     func(err error)
		feedWithErr func(b []byte, err error)
		closeCount  func() int
		rwc         net.Conn
	}
	if sctpStream < 0 {
		mc := memnet.NewConn()
		mc.Script = func(seq int, b []byte) memnet.Outcome {
			if failNext.CompareAndSwap(true, false) {
				return memnet.Outcome{Accept: 7, Err: &memnet.TempError{Msg: "temporary transport error"}, StallAt: -1}
			}
			return memnet.Outcome{Accept: -1, StallAt: -1}
		}
		tr.feed = func(b []byte) { mc.Feed(b) }
		tr.feedErr, tr.feedWithErr, tr.closeCount, tr.rwc = mc.FeedErr, mc.FeedWithErr, mc.CloseCount, mc
	} else {
		as := sctpmem.New()
		as.WriteScript = func(seq int, b []byte) (int, error) {
			if failNext.CompareAndSwap(true, false) {
				return 7, &memnet.TempError{Msg: "temporary transport error"}
			}
			return len(b), nil
		}
		msc := diam.VerifNewSCTPConn(as)
		defer diam.VerifRelease(msc)
		tr.feed = func(b []byte) { as.Feed(uint16(sctpStream), b) }
		tr.feedErr = as.FeedErr
		tr.feedWithErr = func(b []byte, err error) { as.Feed(uint16(sctpStream), b); as.FeedErr(err) }
		tr.closeCount, tr.rwc = as.CloseCount, msc
	}
	ns := &notifySet{}
	var hmu sync.Mutex
	var handled []uint32
	armed := 0
	var conn diam.Conn
	h := diam.HandlerFunc(func(dc diam.Conn, m *diam.Message) {
		if m.Header.HopByHopID == 0xDEAD {
			panic("handler blew up")
		}
		hmu.Lock()
		handled = append(handled, m.Header.HopByHopID)
		k := armed
		armed = 0
		hmu.Unlock()
		for ; k > 0; k-- {
			ns.add(dc.(diam.CloseNotifier).CloseNotify())
		}
	})
	before := len(lc.String())
	conn, err := diam.NewConn(tr.rwc, "peer", h, ctx.Parser)
	if err != nil {
		c.Fail(sig("setup"), nil, nil, "NewConn: %v", err)
		return
	}
	wait := func() {
		if waits {
			synctest.Wait()
		}
	}
	wait()
	delivered := 0
	fi := 0
	terminated := false
	for i := 0; i < len(order); i++ {
		e := order[i]
		switch e {
		case eF:
			tr.feed(frags[fi])
			delivered += len(frags[fi])
			fi++
		case eNh:
			hmu.Lock()
			armed++
			hmu.Unlock()
		case eNo, eNt:
			ns.add(conn.(diam.CloseNotifier).CloseNotify())
		case eW:
			// the first transport Write accepts 7 bytes and reports a temporary error
			failNext.Store(true)
			wm := diam.NewMessage(8388000, diam.RequestFlag, 0, 77, 78, ctx.Parser)
			if _, werr := wm.WriteToWithRetry(conn, 2); werr != nil {
				c.Fail(sig("setup"), nil, nil, "WriteToWithRetry after a temporary error: %v", werr)
				return
			}
		case tPANIC:
			if r := delivered % c14MsgLen; r != 0 {
				tr.feed(stream[delivered : delivered+c14MsgLen-r])
				delivered += c14MsgLen - r
			}
			tr.feed(seqMsg(0xDEAD, 12))
		case tEOF:
			tr.feedErr(io.EOF)
		case tERR:
			tr.feedErr(errors.New("connection reset by peer"))
		case tTEMP:
			tr.feedErr(&memnet.TempError{Msg: "temporary read error"})
		case tBAD, tBADT:
			// complete the message in progress first, so that the undecodable one starts on a boundary
			if r := delivered % c14MsgLen; r != 0 {
				tr.feed(stream[delivered : delivered+c14MsgLen-r])
				delivered += c14MsgLen - r
			}
			tr.feed(badMessage(e == tBADT))
			if e == tBADT {
				// more data already in flight behind the undecodable message
				tr.feed(seqMsg(98, 100))
				tr.feed(seqMsg(97, 4096))
			}
		case tLC:
			conn.Close()
		case tEOFd, tERRd:
			// n > 0 together with the error: legal for an io.Reader
			end := delivered + c14MsgLen - delivered%c14MsgLen
			if end > len(stream) {
				end = len(stream)
			}
			var rerr error = io.EOF
			if e == tERRd {
				rerr = errors.New("connection reset by peer")
			}
			tr.feedWithErr(stream[delivered:end], rerr)
			delivered = end
		}
		if isTermination(e) {
			terminated = true
		}
		wait()
		if waits {
			total, closed := ns.state()
			if !terminated && closed != 0 {
				c.Fail(sig("closed-before-termination"), nil, nil, "after event %d of %q, before the termination, %d of %d CloseNotify channels are already closed", i+1, order, closed, total)
				return
			}
			if terminated && closed != total {
				c.Fail(sig("not-closed-after-termination"), nil, nil, "after event %d (%c) of %q the connection has terminated but %d of %d CloseNotify channels are not closed at quiescence", i+1, e, order, total-closed, total)
				return
			}
		}
	}
	synctest.Wait()
	total, closed := ns.state()
	if closed != total {
		c.Fail(sig("not-closed-after-termination"), nil, nil, "ordering %q: the connection has terminated but %d of %d CloseNotify channels are not closed at quiescence", order, total-closed, total)
		return
	}
	// the handler log: the messages completely delivered before the termination
	want := delivered / c14MsgLen
	hmu.Lock()
	got := append([]uint32(nil), handled...)
	hmu.Unlock()
	okLog := len(got) == want
	for i := range got {
		if got[i] != uint32(i+1) {
			okLog = false
		}
	}
	if !waits && strings.ContainsAny(order, "L") {
		// without quiescence points a local Close races with the delivery of earlier fragments
		okLog = len(got) <= want
		for i := range got {
			if got[i] != uint32(i+1) {
				okLog = false
			}
		}
	}
	if !okLog {
		c.Fail(sig("message-log"), nil, nil, "ordering %q: the handler saw messages %v, but %d message(s) were completely delivered before the termination", order, got, want)
		return
	}
	if logs := lc.String()[before:]; strings.Contains(logs, "panic serving") != strings.Contains(order, "P") {
		c.Fail(sig("reader-panic"), nil, nil, "ordering %q: log says: %s", order, logs[:min(len(logs), 500)])
		return
	}
	if tr.closeCount() == 0 {
		c.Fail(sig("transport-not-closed"), nil, nil, "ordering %q: the transport was never closed", order)
		return
	}
	if gs := libGoroutines(); len(gs) != 0 {
		var where []string
		for _, g := range gs {
			where = append(where, topLibFrame(g.Stack))
		}
		c.Fail(sig("goroutine-left"), nil, gs[0].Stack, "ordering %q: %d library goroutine(s) still exist after the connection terminated: %v", order, len(gs), where)
		return
	}
	c.Event("orderings", 1)
	c.Event("channels_checked", total)
	c.Event("messages_logged", len(got))
}

// c14Orderings enumerates pre ∈ {F,h,o}* (#F<=4, #N<=3), one termination, post = t^k.
func c14Orderings(maxF, maxN int) []string {
	var out []string
	var pre func(cur string, f, n int)
	pre = func(cur string, f, n int) {
		for _, t := range c14Terms {
			for k := 0; k+n <= maxN; k++ {
				out = append(out, cur+string(t)+strings.Repeat("t", k))
			}
		}
		if f < maxF {
			pre(cur+"F", f+1, n)
		}
		if n < maxN {
			pre(cur+"h", f, n+1)
			pre(cur+"o", f, n+1)
		}
		if !strings.Contains(cur, "W") && len(cur) < 4 {
			pre(cur+"W", f, n)
		}
	}
	pre("", 0, 0)
	return out
}

// client with watchdog: the watchdog goroutine is itself a CloseNotify user
func runC14Client(c *ev.Case, ctx *lib.Ctx, term byte, exchanges int, lc *logCapture) {
	sig := func(op string) ev.Sig {
		return ev.Sig{"op": op, "termination": string(term), "variant": "client-watchdog"}
	}
	settings := &sm.Settings{OriginHost: "cli.local", OriginRealm: "realm.local", VendorID: 13, ProductName: "verif",
		HostIPAddresses: []datatype.Address{datatype.Address([]byte{192, 0, 2, 9})}}
	machine := sm.New(settings)
	cli := &sm.Client{Dict: ctx.Parser, Handler: machine, MaxRetransmits: 1, RetransmitInterval: time.Second,
		EnableWatchdog: true, WatchdogInterval: 3 * time.Second,
		AuthApplicationID: []*diam.AVP{diam.NewAVP(258, 0x40, 0, datatype.Unsigned32(4))}}
	mc := memnet.NewConn()
	var mu sync.Mutex
	dwrSeen := 0
	mc.OnWrite = func(w memnet.WriteRec) {
		msgs, _ := peer.SplitMessages(w.Data)
		if len(msgs) != 1 {
			return
		}
		h := peer.Header(msgs[0])
		switch {
		case h.Code == 257 && h.Flags&0x80 != 0:
			mc.Feed(peer.StdCEA(h.HopByHop, h.EndToEnd, 2001, 4))
		case h.Code == 280 && h.Flags&0x80 != 0:
			mu.Lock()
			dwrSeen++
			mu.Unlock()
			mc.Feed(peer.DWA(h.HopByHop, h.EndToEnd, 2001))
		}
	}
	before := len(lc.String())
	conn, err := cli.NewConn(mc, "peer:3868")
	if err != nil {
		c.Fail(sig("setup"), nil, nil, "handshake: %v", err)
		return
	}
	ch := conn.(diam.CloseNotifier).CloseNotify()
	time.Sleep(time.Duration(exchanges)*3*time.Second + 500*time.Millisecond)
	synctest.Wait()
	select {
	case <-ch:
		c.Fail(sig("closed-before-termination"), nil, nil, "CloseNotify channel closed while the connection is up (%d watchdog exchanges)", exchanges)
		return
	default:
	}
	switch term {
	case tEOF:
		mc.FeedEOF()
	case tERR:
		mc.FeedErr(errors.New("connection reset by peer"))
	case tBAD:
		mc.Feed(badMessage(false))
	case tBADT:
		mc.Feed(badMessage(true))
		mc.Feed(seqMsg(98, 100))
		mc.Feed(seqMsg(97, 4096))
	case tLC:
		conn.Close()
	}
	synctest.Wait()
	select {
	case <-ch:
	default:
		c.Fail(sig("not-closed-after-termination"), nil, nil, "client with watchdog, %d exchanges, termination %c: the CloseNotify channel is not closed at quiescence", exchanges, term)
		return
	}
	w0 := len(mc.Writes()) + mc.WritesAfterClose()
	time.Sleep(10 * time.Second) // several watchdog periods
	synctest.Wait()
	if w1 := len(mc.Writes()) + mc.WritesAfterClose(); w1 != w0 {
		c.Fail(sig("writes-after-termination"), nil, nil, "client with watchdog, termination %c: %d more writes during the 10 s after the connection terminated", term, w1-w0)
		return
	}
	if gs := libGoroutines(); len(gs) != 0 {
		c.Fail(sig("goroutine-left"), nil, gs[0].Stack, "client with watchdog, %d exchanges, termination %c: %d library goroutine(s) still exist 10 s after the termination, e.g. %s", exchanges, term, len(gs), topLibFrame(gs[0].Stack))
		return
	}
	if logs := lc.String()[before:]; strings.Contains(logs, "panic serving") {
		c.Fail(sig("reader-panic"), nil, nil, "the connection's goroutine panicked: %s", logs[:min(len(logs), 500)])
		return
	}
	c.Event("client_watchdog_scenarios", 1)
}

func TestC14(t *testing.T) {
	rec := ev.Open(t, "C14")
	defer rec.Close()
	ctx := genCtx(t)
	dctx := defCtx(t)
	lc, restore := captureLog()
	defer restore()
	orders := c14Orderings(4, 3)
	run := func(c *ev.Case, term string, f func()) {
		leak := runBubbleWD(t, rec, c, 30*time.Second, f)
		if leak != "" && !c.Failed() {
			c.Fail(ev.Sig{"op": "goroutine-left", "termination": term, "how": "bubble-end"}, nil, nil, "goroutines of the scenario are still blocked after everything else ended: %s", leak)
		}
	}
	term := func(o string) string {
		for i := 0; i < len(o); i++ {
			if isTermination(o[i]) {
				return string(o[i])
			}
		}
		return "?"
	}
	rec.Suite("orderings", len(orders), func(c *ev.Case) {
		o := orders[c.I]
		c.Class("term=%s/F=%d/h=%d/o=%d/t=%d", term(o), strings.Count(o, "F"), strings.Count(o, "h"), strings.Count(o, "o"), strings.Count(o, "t"))
		run(c, term(o), func() { runC14(c, ctx, o, true, lc, -1) })
		if c.WantSample() && len(o) > 5 {
			c.Sample(map[string]any{"ordering": o, "legend": "F fragment, h CloseNotify from the next handler, o CloseNotify from another goroutine, E/R/B/T/L = EOF / read error / undecodable / undecodable+trailing / local Close, t CloseNotify after termination"})
		}
	})
	rec.Exhaustive("orderings")
	// a sample of the orderings on an SCTP association (in-memory backend)
	rec.Suite("orderings-sctp", rec.N(600, 40000), func(c *ev.Case) {
		o := orders[c.R.IntN(len(orders))]
		c.Class("sctp/term=%s/F=%d/h=%d/o=%d/t=%d", term(o), strings.Count(o, "F"), min(strings.Count(o, "h"), 1), min(strings.Count(o, "o"), 1), min(strings.Count(o, "t"), 1))
		run(c, term(o), func() { runC14(c, ctx, o, c.R.IntN(4) != 0, lc, c.R.IntN(5)) })
	})
	// the same orderings without quiescence points, for the racing orders
	rec.Suite("racing", rec.N(1500, 100000), func(c *ev.Case) {
		o := orders[c.R.IntN(len(orders))]
		c.Class("racing/term=%s", term(o))
		run(c, term(o), func() { runC14(c, ctx, o, false, lc, -1) })
	})
	// two connections on one mux: while a handler of connection A is busy, connection B gets a
	// CloseNotify request from another goroutine (its reader is blocked), one more message and
	// then the peer's EOF: B's channel closes and B's reader exits without waiting for A
	rec.Suite("other-connection-busy", rec.N(8, 400), func(c *ev.Case) {
		viaMux := c.I%2 == 0
		c.Class("other-connection-busy/mux=%v", viaMux)
		run(c, "E", func() {
			sig := func(op string) ev.Sig {
				return ev.Sig{"op": op, "termination": "E", "variant": "other-connection-busy"}
			}
			release := make(chan struct{})
			var hmu sync.Mutex
			handled := map[string][]uint32{}
			hf := diam.HandlerFunc(func(dc diam.Conn, m *diam.Message) {
				hmu.Lock()
				handled[dc.RemoteAddr().String()] = append(handled[dc.RemoteAddr().String()], m.Header.HopByHopID)
				hmu.Unlock()
				if m.Header.HopByHopID == 0xA1 {
					<-release
				}
			})
			var h diam.Handler = hf
			if viaMux {
				mux := diam.NewServeMux()
				mux.Handle("ALL", hf)
				h = mux
			}
			mcA, mcB := memnet.NewConn(), memnet.NewConn()
			mcA.Remote = memnet.Addr{Net: "tcp", Str: "10.0.0.1:1"}
			mcB.Remote = memnet.Addr{Net: "tcp", Str: "10.0.0.2:1"}
			connA, errA := diam.NewConn(mcA, "a", h, ctx.Parser)
			connB, errB := diam.NewConn(mcB, "b", h, ctx.Parser)
			if errA != nil || errB != nil {
				c.Fail(sig("setup"), nil, nil, "NewConn: %v %v", errA, errB)
				return
			}
			defer func() {
				close(release)
				mcA.FeedEOF()
				connA.Close()
				connB.Close()
				synctest.Wait()
			}()
			mcB.Feed(seqMsg(1, 12))
			synctest.Wait()
			mcA.Feed(seqMsg(0xA1, 12)) // A's handler is now busy
			synctest.Wait()
			ch := connB.(diam.CloseNotifier).CloseNotify() // B's reader is blocked in Read
			synctest.Wait()
			select {
			case <-ch:
				c.Fail(sig("closed-before-termination"), nil, nil, "B's CloseNotify channel is closed while B is still connected")
				return
			default:
			}
			mcB.Feed(seqMsg(2, 12))
			mcB.FeedEOF()
			synctest.Wait()
			hmu.Lock()
			gotB := append([]uint32(nil), handled["10.0.0.2:1"]...)
			hmu.Unlock()
			if len(gotB) != 2 || gotB[0] != 1 || gotB[1] != 2 {
				c.Fail(sig("message-log"), nil, nil, "connection B's handler saw %v, messages 1 and 2 were delivered (a handler of connection A is busy)", gotB)
				return
			}
			select {
			case <-ch:
			default:
				c.Fail(sig("not-closed-after-termination"), nil, nil, "connection B's peer closed, but its CloseNotify channel is not closed at quiescence while a handler of connection A is still running")
				return
			}
			if mcB.CloseCount() == 0 {
				c.Fail(sig("transport-not-closed"), nil, nil, "connection B's transport was not closed after EOF (a handler of connection A is busy)")
				return
			}
			c.Event("other_connection_busy_runs", 1)
			c.Event("channels_checked", 1)
		})
	})
	// a handler that waits for the CloseNotify channel (what the channel is for: abandon the work
	// when the peer is gone) while the connection terminates: the channel is closed although the
	// handler has not returned
	handlerWaits := func(c *ev.Case, tm byte, earlier bool) {
		variant := "handler-waits-for-closenotify"
		if !earlier {
			variant = "handler-waits-same-invocation"
		}
		c.Class("handler-waits/term=%c/requested-in-an-earlier-handler=%v", tm, earlier)
		run(c, string(tm), func() {
			sig := func(op string) ev.Sig {
				return ev.Sig{"op": op, "termination": string(tm), "variant": variant}
			}
			var ch <-chan struct{}
			var woke, entered atomic.Bool
			giveUp := make(chan struct{})
			defer func() {
				close(giveUp) // a handler that was never told must not outlive the scenario
				synctest.Wait()
			}()
			hf := diam.HandlerFunc(func(dc diam.Conn, m *diam.Message) {
				switch m.Header.HopByHopID {
				case 1:
					if earlier {
						ch = dc.(diam.CloseNotifier).CloseNotify()
					}
				case 2:
					if !earlier {
						ch = dc.(diam.CloseNotifier).CloseNotify()
					}
					entered.Store(true)
					select {
					case <-ch:
						woke.Store(true)
					case <-giveUp:
					}
				}
			})
			mc := memnet.NewConn()
			conn, err := diam.NewConn(mc, "a", hf, ctx.Parser)
			if err != nil {
				c.Fail(sig("setup"), nil, nil, "NewConn: %v", err)
				return
			}
			mc.Feed(seqMsg(1, 12))
			synctest.Wait()
			mc.Feed(seqMsg(2, 100))
			synctest.Wait()
			if !entered.Load() || woke.Load() {
				c.Fail(sig("closed-before-termination"), nil, nil, "handler of message 2 entered=%v, woken=%v while the connection is up", entered.Load(), woke.Load())
				return
			}
			switch tm {
			case 'E':
				mc.FeedEOF()
			case 'R':
				mc.FeedErr(errors.New("memnet: connection reset by peer"))
			case 'L':
				conn.Close()
			}
			synctest.Wait()
			if !woke.Load() {
				c.Fail(sig("not-closed-after-termination"), nil, nil, "the connection terminated (%c) while a handler waits for the CloseNotify channel (requested in an earlier handler: %v): the channel is not closed at quiescence, the handler never learns that the peer is gone", tm, earlier)
				return
			}
			if mc.CloseCount() == 0 {
				c.Fail(sig("transport-not-closed"), nil, nil, "the transport was not closed after the termination")
				return
			}
			c.Event("handler_waits_runs", 1)
			c.Event("channels_checked", 1)
		})
	}
	rec.Suite("handler-waits-for-closenotify", 3*rec.N(2, 60), func(c *ev.Case) {
		handlerWaits(c, "ERL"[c.I%3], true)
	})
	// an order of three: the channel is first requested from outside a handler while the reader
	// is blocked in Read (as sm.Client's watchdog does); the next message arrives in that very
	// Read; its handler asks for the channel again and waits; the peer goes away
	rec.Suite("handler-waits-after-outside-request", 6*rec.N(2, 40), func(c *ev.Case) {
		tm := "ERL"[c.I%3]
		// the handler asks again and waits for what it gets, or waits for the channel the
		// application obtained before (it is the same channel: one per connection)
		stored := (c.I/3)%2 == 1
		c.Class("handler-waits-after-outside-request/term=%c/waits-for-the-channel-obtained-before=%v", tm, stored)
		run(c, string(tm), func() {
			sig := func(op string) ev.Sig {
				return ev.Sig{"op": op, "termination": string(tm), "variant": "handler-waits-after-outside-request"}
			}
			var woke, entered atomic.Bool
			giveUp := make(chan struct{})
			defer func() {
				close(giveUp)
				synctest.Wait()
			}()
			var mu sync.Mutex
			var before <-chan struct{}
			hf := diam.HandlerFunc(func(dc diam.Conn, m *diam.Message) {
				var ch <-chan struct{}
				if stored {
					mu.Lock()
					ch = before
					mu.Unlock()
				} else {
					ch = dc.(diam.CloseNotifier).CloseNotify()
				}
				entered.Store(true)
				select {
				case <-ch:
					woke.Store(true)
				case <-giveUp:
				}
			})
			mc := memnet.NewConn()
			conn, err := diam.NewConn(mc, "a", hf, ctx.Parser)
			if err != nil {
				c.Fail(sig("setup"), nil, nil, "NewConn: %v", err)
				return
			}
			synctest.Wait() // the reader is blocked in Read
			outside := conn.(diam.CloseNotifier).CloseNotify()
			mu.Lock()
			before = outside
			mu.Unlock()
			synctest.Wait()
			mc.Feed(seqMsg(1, 100))
			synctest.Wait()
			if !entered.Load() || woke.Load() {
				c.Fail(sig("closed-before-termination"), nil, nil, "handler entered=%v, woken=%v while the connection is up", entered.Load(), woke.Load())
				return
			}
			switch tm {
			case 'E':
				mc.FeedEOF()
			case 'R':
				mc.FeedErr(errors.New("memnet: connection reset by peer"))
			case 'L':
				conn.Close()
			}
			synctest.Wait()
			select {
			case <-outside:
			default:
				c.Fail(sig("not-closed-after-termination"), nil, nil, "the connection terminated (%c); CloseNotify had been requested from outside a handler while the reader was blocked, the next message's handler waits for it (asking again: %v): the channel is not closed at quiescence", tm, !stored)
				return
			}
			if !woke.Load() {
				c.Fail(sig("not-closed-after-termination"), nil, nil, "the connection terminated (%c) but the handler that waits for the CloseNotify channel was not woken", tm)
				return
			}
			c.Event("handler_waits_runs", 1)
			c.Event("channels_checked", 2)
		})
	})
	// the application's error reporter is told of undecodable input - the connection has been
	// closed by then - and looks at the connection it is given: it asks for CloseNotify and waits
	// for the channel (a clean-up routine shared with the handlers). The connection has terminated:
	// the channel is closed, the report returns, every goroutine exits.
	rec.Suite("error-reporter-waits-for-closenotify", 2*rec.N(1, 20), func(c *ev.Case) {
		body := c.I%2 == 1
		c.Class("error-reporter-waits-for-closenotify/undecodable-body=%v", body)
		run(c, "B", func() {
			sig := func(op string) ev.Sig {
				return ev.Sig{"op": op, "termination": "B", "variant": "error-reporter-waits-for-closenotify"}
			}
			var woke, entered atomic.Bool
			giveUp := make(chan struct{})
			defer func() {
				close(giveUp)
				synctest.Wait()
			}()
			rep := &c14Reporter{onError: func(er *diam.ErrorReport) {
				entered.Store(true)
				ch := er.Conn.(diam.CloseNotifier).CloseNotify()
				select {
				case <-ch:
					woke.Store(true)
				case <-giveUp:
				}
			}}
			mc := memnet.NewConn()
			_, err := diam.NewConn(mc, "a", rep, ctx.Parser)
			if err != nil {
				c.Fail(sig("setup"), nil, nil, "NewConn: %v", err)
				return
			}
			synctest.Wait()
			if body {
				b := seqMsg(1, 100)
				b[20+5], b[20+6], b[20+7] = 0, 0x40, 0 // the AVP claims 16 KiB
				mc.Feed(b)
			} else {
				mc.Feed(peer.Msg(0x80, 8388606, 0, 1, 1)) // a command nobody defined
			}
			synctest.Wait()
			if !entered.Load() {
				c.Fail(sig("setup"), nil, nil, "no error report was offered for undecodable input")
				return
			}
			if !woke.Load() {
				c.Fail(sig("not-closed-after-termination"), nil, nil, "undecodable input: the library closed the transport (%d Close calls) and handed the error report to the application's reporter, which asked the report's connection for CloseNotify and waits: the channel is not closed at quiescence", mc.CloseCount())
				return
			}
			c.Event("handler_waits_runs", 1)
			c.Event("channels_checked", 1)
		})
	})
	// the same with the channel requested by the very handler invocation that then waits for it
	// (D25, repaired in /repo 195ae7b: the copy routine that notices the end of the connection was
	// only started by the reader's next Read, i.e. after this handler had returned)
	rec.Suite("handler-waits-same-invocation", 3*rec.N(1, 20), func(c *ev.Case) {
		handlerWaits(c, "ERL"[c.I%3], false)
	})
	// CloseNotify armed on a connection accepted by a Server with a ReadTimeout whose handlers run
	// longer than that timeout; the peer is never silent for a whole ReadTimeout while the server
	// waits for it.  Requesting the channel must not lose messages nor end the connection
	// (D26, repaired in /repo 1dba6ae: the copy routine kept reading under the deadline that was
	// set for the previous message and reported a time-out while the handler ran)
	rec.Suite("closenotify-with-read-timeout", 38*rec.N(1, 20), func(c *ev.Case) {
		rt := []time.Duration{100 * time.Millisecond, 2 * time.Second}[c.I%2]
		// handlers that return just before a deadline armed earlier expires, on a transport on
		// which re-arming the deadline takes a moment (2 ms): the old deadline fires in between.
		// Swept: the handler returns 0..5 ms before a multiple of ReadTimeout.
		hd, rearm := 3*rt, time.Duration(0)
		if v := (c.I / 2) % 19; v > 0 {
			k, j := (v-1)/6+1, (v-1)%6
			hd, rearm = time.Duration(k)*rt-time.Duration(j)*time.Millisecond, 2*time.Millisecond
		}
		c.Class("closenotify-with-read-timeout/%v/handler=%v/rearm=%v", rt, hd, rearm)
		run(c, "none", func() {
			sig := func(op string) ev.Sig {
				return ev.Sig{"op": op, "termination": "none", "variant": "closenotify-with-read-timeout"}
			}
			var mu sync.Mutex
			var seen []uint32
			var ch <-chan struct{}
			hf := diam.HandlerFunc(func(dc diam.Conn, m *diam.Message) {
				mu.Lock()
				seen = append(seen, m.Header.HopByHopID)
				if ch == nil {
					ch = dc.(diam.CloseNotifier).CloseNotify()
				}
				mu.Unlock()
				time.Sleep(hd)
			})
			srv := &diam.Server{Handler: hf, Dict: ctx.Parser, ReadTimeout: rt}
			ln := memnet.NewListener()
			go srv.Serve(ln)
			mc := memnet.NewConn()
			mc.SetReadDeadlineDelay = rearm
			ln.Offer(mc)
			defer func() {
				mc.FeedEOF()
				ln.Close()
				time.Sleep(4 * rt)
				synctest.Wait()
			}()
			const n = 3
			for s := uint32(1); s <= n; s++ {
				mc.Feed(seqMsg(s, 12))
				time.Sleep(hd + rt/2) // the handler has returned half a ReadTimeout ago
				synctest.Wait()
				mu.Lock()
				got, c0 := len(seen), ch
				mu.Unlock()
				gone := false
				select {
				case <-c0:
					gone = true
				default:
				}
				if got != int(s) || gone || mc.CloseCount() != 0 {
					c.Fail(sig("lost-after-closenotify"), nil, nil, "ReadTimeout %v, handlers take %v, CloseNotify requested by the first handler, message k+1 sent %v after the handler of message k returned: after message %d, %d handler invocations, CloseNotify channel closed=%v, transport closed %d time(s) - the peer was never silent for a whole ReadTimeout while the server waited for it",
						rt, hd, rt/2, s, got, gone, mc.CloseCount())
					return
				}
			}
			c.Event("closenotify_read_timeout_runs", 1)
			c.Event("channels_checked", 1)
		})
	})
	// after CloseNotify has been requested, the transport delivers the traffic in reads of exactly
	// 4 KiB, 8 KiB, ... (a pipelined backlog, messages above 4 KiB in one piece): requesting the
	// channel never loses, duplicates or reorders inbound messages, and the channel stays open
	// until the peer really goes away
	rec.Suite("large-reads-after-closenotify", 7*2*rec.N(1, 20), func(c *ev.Case) {
		frag := []int{4096, 8192, 16384, 32768, 65536, 5000, 12288}[c.I%7]
		byHandler := (c.I/7)%2 == 0
		c.Class("large-reads-after-closenotify/read=%d/requested-by-handler=%v", frag, byHandler)
		run(c, "E", func() {
			sig := func(op string) ev.Sig {
				return ev.Sig{"op": op, "termination": "E", "variant": "large-reads-after-closenotify"}
			}
			var mu sync.Mutex
			var seen []uint32
			var ch <-chan struct{}
			hf := diam.HandlerFunc(func(dc diam.Conn, m *diam.Message) {
				mu.Lock()
				seen = append(seen, m.Header.HopByHopID)
				if byHandler && ch == nil {
					ch = dc.(diam.CloseNotifier).CloseNotify()
				}
				mu.Unlock()
			})
			mc := memnet.NewConn()
			conn, err := diam.NewConn(mc, "a", hf, ctx.Parser)
			if err != nil {
				c.Fail(sig("setup"), nil, nil, "NewConn: %v", err)
				return
			}
			mc.Feed(seqMsg(1, 12))
			synctest.Wait()
			if !byHandler {
				ch = conn.(diam.CloseNotifier).CloseNotify()
				synctest.Wait()
			}
			var stream []byte
			n := uint32(1)
			for len(stream) < 4*frag+70000 {
				n++
				stream = append(stream, seqMsg(n, []int{1000, 100, 4096, 12, 9000}[n%5])...)
			}
			for off := 0; off < len(stream); off += frag {
				mc.Feed(stream[off:min(off+frag, len(stream))])
				if (off/frag)%3 == 2 {
					synctest.Wait()
				}
			}
			synctest.Wait()
			mu.Lock()
			got := append([]uint32(nil), seen...)
			c0 := ch
			mu.Unlock()
			for i := range got {
				if got[i] != uint32(i+1) {
					c.Fail(sig("message-log"), nil, nil, "reads of %d bytes after CloseNotify was requested: message %d was followed by message %d (of %d sent, %d delivered)", frag, i, got[i], n, len(got))
					return
				}
			}
			select {
			case <-c0:
				c.Fail(sig("closed-before-termination"), nil, nil, "reads of %d bytes after CloseNotify was requested: the channel is closed while the peer is connected and sending valid messages (%d of %d delivered)", frag, len(got), n)
				return
			default:
			}
			if len(got) != int(n) || mc.CloseCount() != 0 {
				c.Fail(sig("message-log"), nil, nil, "reads of %d bytes after CloseNotify was requested: %d of %d messages delivered, transport closed %d time(s)", frag, len(got), n, mc.CloseCount())
				return
			}
			mc.FeedEOF()
			synctest.Wait()
			select {
			case <-c0:
			default:
				c.Fail(sig("not-closed-after-termination"), nil, nil, "the channel is not closed at quiescence after EOF")
				return
			}
			c.Event("large_read_runs", 1)
			c.Event("channels_checked", 1)
		})
	})
	// the application keeps a context of its own on the connection (SetContext: a request-scoped
	// value, a context with a cancel or a deadline).  The CloseNotify channel tells about the
	// connection, not about that context: it does not fire when the context is cancelled and it
	// does fire when the peer goes away
	rec.Suite("closenotify-with-own-context", 6*rec.N(2, 40), func(c *ev.Case) {
		variant := c.I % 6
		c.Class("closenotify-with-own-context/variant=%d", variant)
		run(c, "E", func() {
			sig := func(op string) ev.Sig {
				return ev.Sig{"op": op, "termination": "E", "variant": "closenotify-with-own-context"}
			}
			var mu sync.Mutex
			var seen []uint32
			hf := diam.HandlerFunc(func(dc diam.Conn, m *diam.Message) {
				mu.Lock()
				seen = append(seen, m.Header.HopByHopID)
				mu.Unlock()
			})
			mc := memnet.NewConn()
			conn, err := diam.NewConn(mc, "a", hf, ctx.Parser)
			if err != nil {
				c.Fail(sig("setup"), nil, nil, "NewConn: %v", err)
				return
			}
			type key struct{}
			var cancel context.CancelFunc = func() {}
			set := func() {
				switch variant % 3 {
				case 0:
					conn.SetContext(context.WithValue(context.Background(), key{}, 1))
				case 1:
					var cx context.Context
					cx, cancel = context.WithCancel(conn.Context())
					conn.SetContext(cx)
				case 2:
					var cx context.Context
					cx, cancel = context.WithTimeout(context.Background(), time.Second)
					conn.SetContext(cx)
				}
			}
			var ch <-chan struct{}
			if variant < 3 {
				set()
				ch = conn.(diam.CloseNotifier).CloseNotify()
			} else {
				ch = conn.(diam.CloseNotifier).CloseNotify()
				set()
			}
			mc.Feed(seqMsg(1, 12))
			synctest.Wait()
			cancel()
			time.Sleep(3 * time.Second) // virtual: the application's context has been cancelled / has expired
			synctest.Wait()
			select {
			case <-ch:
				c.Fail(sig("closed-before-termination"), nil, nil, "the CloseNotify channel is closed although the connection is up: only the context that the application put on the connection (variant %d) was cancelled or expired", variant)
				return
			default:
			}
			mc.Feed(seqMsg(2, 12))
			synctest.Wait()
			mu.Lock()
			n := len(seen)
			mu.Unlock()
			if n != 2 || mc.CloseCount() != 0 {
				c.Fail(sig("message-log"), nil, nil, "after the application's own context ended, %d of 2 messages were delivered and the transport was closed %d time(s)", n, mc.CloseCount())
				return
			}
			mc.FeedEOF()
			synctest.Wait()
			select {
			case <-ch:
			default:
				c.Fail(sig("not-closed-after-termination"), nil, nil, "the peer closed; the CloseNotify channel of a connection that carries a context of the application (variant %d) is not closed at quiescence", variant)
				return
			}
			c.Event("own_context_runs", 1)
			c.Event("channels_checked", 1)
		})
	})
	// local Close while a Write of another goroutine is blocked in the transport (the peer has
	// stopped reading): Close terminates the connection all the same
	rec.Suite("local-close-while-write-blocked", 2*2*rec.N(2, 60), func(c *ev.Case) {
		before := c.I%2 == 0 // CloseNotify requested before / after the write blocks
		partial := (c.I/2)%2 == 0
		c.Class("close-while-write-blocked/requested-before=%v/partial=%v", before, partial)
		leak := runBubbleWD(t, rec, c, 15*time.Second, func() {
			sig := func(op string) ev.Sig {
				return ev.Sig{"op": op, "termination": "L", "variant": "local-close-while-write-blocked"}
			}
			mc := memnet.NewConn()
			mc.Script = func(seq int, b []byte) memnet.Outcome {
				o := memnet.Outcome{Accept: -1, StallAt: -1, UntilClosed: true}
				if partial {
					o.StallAt = len(b) / 2
				}
				return o
			}
			conn, err := diam.NewConn(mc, "a", diam.HandlerFunc(func(diam.Conn, *diam.Message) {}), ctx.Parser)
			if err != nil {
				c.Fail(sig("setup"), nil, nil, "NewConn: %v", err)
				return
			}
			var ch <-chan struct{}
			if before {
				ch = conn.(diam.CloseNotifier).CloseNotify()
			}
			var werr error
			wdone := make(chan struct{})
			go func() {
				m, _ := diam.ReadMessage(bytes.NewReader(seqMsg(9, 1000)), ctx.Parser)
				_, werr = m.WriteTo(conn)
				close(wdone)
			}()
			synctest.Wait()
			if !before {
				ch = conn.(diam.CloseNotifier).CloseNotify()
				synctest.Wait()
			}
			select {
			case <-wdone:
				c.Fail(sig("setup"), nil, nil, "the scripted write did not block")
				return
			default:
			}
			closed := make(chan struct{})
			go func() {
				conn.Close()
				close(closed)
			}()
			synctest.Wait()
			select {
			case <-closed:
			default:
				c.Fail(sig("close-blocked"), nil, nil, "Close has not returned at quiescence while a Write of another goroutine is blocked in the transport")
				return
			}
			select {
			case <-ch:
			default:
				c.Fail(sig("not-closed-after-termination"), nil, nil, "local Close while a Write is blocked in the transport: the CloseNotify channel is not closed at quiescence")
				return
			}
			select {
			case <-wdone:
				if werr == nil {
					c.Fail(sig("write-after-close"), nil, nil, "the blocked write reported success although the connection was closed under it")
					return
				}
			default:
				c.Fail(sig("goroutine-left"), nil, nil, "the blocked Write has not returned after Close")
				return
			}
			c.Event("close_while_write_blocked_runs", 1)
			c.Event("channels_checked", 1)
		})
		if leak != "" && !c.Failed() {
			c.Fail(ev.Sig{"op": "goroutine-left", "termination": "L", "how": "bubble-end", "variant": "local-close-while-write-blocked"}, nil, nil, "goroutines of the scenario are still blocked after everything else ended: %s", leak)
		}
	})
	// a TLS client connection whose handshake fails (DialTLS hands out the Conn before the
	// handshake has run): CloseNotify requested before, during or after the failure
	rec.Suite("tls-client-handshake-failure", 9*rec.N(2, 40), func(c *ev.Case) {
		when, kind := c.I%3, (c.I/3)%3
		c.Class("tls-client/requested=%s/failure=%s", []string{"before", "during", "after"}[when], []string{"garbage", "eof", "reset"}[kind])
		run(c, "tls-handshake", func() {
			sig := func(op string) ev.Sig {
				return ev.Sig{"op": op, "termination": "tls-handshake-failure", "variant": "tls-client"}
			}
			mc := memnet.NewConn()
			ns := &notifySet{}
			conn, err := diam.NewConn(tls.Client(mc, &tls.Config{InsecureSkipVerify: true}), "peer", diam.HandlerFunc(func(diam.Conn, *diam.Message) {}), ctx.Parser)
			if err != nil {
				c.Fail(sig("setup"), nil, nil, "NewConn: %v", err)
				return
			}
			if when == 0 {
				ns.add(conn.(diam.CloseNotifier).CloseNotify())
			}
			synctest.Wait()
			if len(mc.Written()) == 0 {
				c.Fail(sig("setup"), nil, nil, "the TLS client wrote nothing")
				return
			}
			if when == 1 {
				ns.add(conn.(diam.CloseNotifier).CloseNotify())
				synctest.Wait()
			}
			if _, closed := ns.state(); closed != 0 {
				c.Fail(sig("closed-before-termination"), nil, nil, "a CloseNotify channel is closed while the TLS handshake is still waiting for the peer")
				return
			}
			switch kind {
			case 0:
				mc.Feed([]byte("HTTP/1.0 400 Bad Request\r\n\r\n"))
			case 1:
				mc.FeedEOF()
			default:
				mc.FeedErr(errors.New("connection reset by peer"))
			}
			synctest.Wait()
			if when == 2 {
				ns.add(conn.(diam.CloseNotifier).CloseNotify())
				synctest.Wait()
			}
			mc.FeedEOF()
			synctest.Wait()
			if total, closed := ns.state(); closed != total {
				c.Fail(sig("not-closed-after-termination"), nil, nil, "the TLS handshake of a client connection failed (%s) but the CloseNotify channel requested %s is not closed at quiescence",
					[]string{"garbage from the peer", "EOF", "connection reset"}[kind], []string{"before", "during the handshake", "after the failure"}[when])
				return
			}
			if mc.CloseCount() == 0 {
				c.Fail(sig("transport-not-closed"), nil, nil, "the transport was never closed after the failed TLS handshake")
				return
			}
			if gs := libGoroutines(); len(gs) != 0 {
				c.Fail(sig("goroutine-left"), nil, gs[0].Stack, "%d library goroutine(s) still exist after the failed TLS handshake: %s", len(gs), topLibFrame(gs[0].Stack))
				return
			}
			c.Event("tls_client_failures", 1)
			c.Event("channels_checked", 1)
		})
	})
	// CloseNotify requested from other goroutines exactly while the connection
	// terminates, on the real scheduler (no bubble): thousands of rounds with a
	// swept delay. A round that does not finish is decided by the goroutine dump.
	rec.Suite("notify-vs-termination-stress", rec.N(240, 6000), func(c *ev.Case) {
		c.Class("stress/kind=%d", c.I%3)
		rounds := 400
		var notClosed atomic.Bool
		for round := 0; round < rounds; round++ {
			mc := memnet.NewConn()
			conn, err := diam.NewConn(mc, "peer", diam.HandlerFunc(func(diam.Conn, *diam.Message) {}), ctx.Parser)
			if err != nil {
				c.Fail(ev.Sig{"op": "setup"}, nil, nil, "NewConn: %v", err)
				return
			}
			const W = 4
			done := make(chan struct{}, W+1)
			spin := func(n int) {
				x := 0
				for i := 0; i < n; i++ {
					x += i
				}
				_ = x
			}
			d := (round*7 + c.I) % 300
			go func() {
				spin(d * 20)
				switch c.I % 3 {
				case 0:
					conn.Close()
				case 1:
					mc.FeedEOF()
				default:
					mc.Feed(badMessage(false))
				}
				done <- struct{}{}
			}()
			for w := 0; w < W; w++ {
				go func(w int) {
					spin(((round+w*37)%300)*20 + w)
					ch := conn.(diam.CloseNotifier).CloseNotify()
					select {
					case <-ch:
					case <-time.After(20 * time.Second):
						notClosed.Store(true)
					}
					done <- struct{}{}
				}(w)
			}
			deadline := time.After(30 * time.Second)
			for k := 0; k < W+1; k++ {
				select {
				case <-done:
				case <-deadline:
					var lockers []string
					for _, g := range libGoroutines() {
						if strings.Contains(g.Stack, "sync.(*Mutex).Lock") || strings.Contains(g.Stack, "sync.(*RWMutex)") {
							lockers = append(lockers, g.Stack)
						}
					}
					if len(lockers) > 0 {
						c.Fail(ev.Sig{"op": "deadlock-closenotify-vs-termination", "frame": topLibFrame(lockers[0])}, nil, nil,
							"round %d: CloseNotify requested while the connection terminates never returned; %d goroutines wait for library locks, e.g.\n%s\n---\n%s", round, len(lockers), lockers[0], lockers[len(lockers)-1])
					} else {
						c.Fail(ev.Sig{"op": "watchdog"}, nil, nil, "round %d did not finish within 30 s", round)
					}
					rec.Close()
					os.Exit(0)
				}
			}
			mc.FeedEOF()
			conn.Close()
			if notClosed.Load() {
				c.Fail(ev.Sig{"op": "not-closed-after-termination", "how": "stress"}, nil, nil, "round %d: a CloseNotify channel requested around the termination (kind %d) was not closed 20 s later", round, c.I%3)
				return
			}
		}
		// the connections' goroutines end asynchronously: wait for them, so that
		// nothing of this suite is still running when the next one looks at the
		// goroutine dump; whatever is still there after 30 s has leaked
		deadline := time.Now().Add(30 * time.Second)
		for len(libGoroutines()) != 0 {
			if time.Now().After(deadline) {
				gs := libGoroutines()
				c.Fail(ev.Sig{"op": "goroutine-left", "how": "after-stress"}, nil, gs[0].Stack, "%d library goroutine(s) still exist 30 s after %d connections were terminated, e.g. %s", len(gs), rounds, topLibFrame(gs[0].Stack))
				return
			}
			time.Sleep(2 * time.Millisecond)
		}
		c.Event("stress_rounds", rounds)
	})
	// undecodable input on eight connections of one ServeMux at the same moment (real scheduler),
	// the application not reading ErrorReports: every CloseNotify channel is closed, every reader
	// goroutine ends - offering a report never holds a connection's termination up
	rec.Suite("undecodable-input-at-once", rec.N(12, 600), func(c *ev.Case) {
		c.Class("undecodable-input-at-once")
		const K = 8
		rounds := 300
		mux := diam.NewServeMux()
		mux.HandleFunc("ALL", func(diam.Conn, *diam.Message) {})
		for round := 0; round < rounds; round++ {
			start := make(chan struct{})
			done := make(chan bool, K)
			conns := make([]*memnet.Conn, K)
			for k := 0; k < K; k++ {
				mc := memnet.NewConn()
				conns[k] = mc
				conn, err := diam.NewConn(mc, "peer", mux, ctx.Parser)
				if err != nil {
					c.Fail(ev.Sig{"op": "setup"}, nil, nil, "NewConn: %v", err)
					return
				}
				ch := conn.(diam.CloseNotifier).CloseNotify()
				go func() {
					<-start
					mc.Feed(badMessage(false))
					select {
					case <-ch:
						done <- true
					case <-time.After(20 * time.Second):
						done <- false
					}
				}()
			}
			close(start)
			ok := true
			for k := 0; k < K; k++ {
				if !<-done {
					ok = false
				}
			}
			for _, mc := range conns {
				mc.FeedEOF()
			}
			if !ok {
				stuck := ""
				if gs := libGoroutines(); len(gs) > 0 {
					stuck = topLibFrame(gs[0].Stack)
				}
				c.Fail(ev.Sig{"op": "not-closed-after-termination", "how": "undecodable-input-at-once"}, nil, nil, "round %d: %d connections of one ServeMux received undecodable input at the same moment (nobody reads ErrorReports): a CloseNotify channel was not closed 20 s later; a library goroutine is in %s", round, K, stuck)
				return
			}
		}
		deadline := time.Now().Add(30 * time.Second)
		for len(libGoroutines()) != 0 {
			if time.Now().After(deadline) {
				gs := libGoroutines()
				c.Fail(ev.Sig{"op": "goroutine-left", "how": "undecodable-input-at-once"}, nil, gs[0].Stack, "%d library goroutine(s) still exist 30 s after the connections were terminated, e.g. %s", len(gs), topLibFrame(gs[0].Stack))
				return
			}
			time.Sleep(2 * time.Millisecond)
		}
		c.Event("stress_rounds", rounds)
		c.Event("channels_checked", rounds*K)
	})
	// client + watchdog
	terms := []byte{tEOF, tERR, tBAD, tBADT, tLC}
	rec.Suite("client-watchdog", len(terms)*3*rec.N(2, 20), func(c *ev.Case) {
		tm := terms[c.I%len(terms)]
		ex := (c.I / len(terms)) % 3
		c.Class("client-watchdog/term=%c/exchanges=%d", tm, ex)
		run(c, string(tm), func() { runC14Client(c, dctx, tm, ex, lc) })
	})
	_ = bytes.Equal
}

// c14Reporter is a handler that also takes the error reports.
type c14Reporter struct {
	onError func(*diam.ErrorReport)
}

func (h *c14Reporter) ServeDIAM(diam.Conn, *diam.Message)     {}
func (h *c14Reporter) Error(er *diam.ErrorReport)             { h.onError(er) }
func (h *c14Reporter) ErrorReports() <-chan *diam.ErrorReport { return nil }
