package props

import (
	"bytes"
	"fmt"
	"runtime/debug"
	"sync"
	"testing"

	"verifharness/ev"
	"verifharness/gen"
	"verifharness/lib"
	"verifharness/refcodec"
	"verifharness/refdict"
)

var (
	ctxOnce sync.Once
	ctxAll  []*lib.Ctx
	ctxErr  error
)

// contexts returns the dictionary contexts used by the codec properties:
// the library's own default set, every embedded file alone on top of base,
// and the generated dictionary.
func contexts(t testing.TB) []*lib.Ctx {
	ctxOnce.Do(func() {
		def, err := lib.DefaultCtx()
		if err != nil {
			ctxErr = err
			return
		}
		ctxAll = append(ctxAll, def)
		fs, _ := lib.Embedded()
		for i, f := range fs {
			if i == 0 {
				c, err := lib.Load("base", fs[0])
				if err != nil {
					ctxErr = err
					return
				}
				ctxAll = append(ctxAll, c)
				continue
			}
			c, err := lib.Load("base+"+f.Name, fs[0], f)
			if err != nil {
				ctxErr = err
				return
			}
			ctxAll = append(ctxAll, c)
		}
		hf, err := refdict.Parse("hier", lib.HierXML)
		if err != nil {
			ctxErr = err
			return
		}
		hc, err := lib.Load("base+hier", fs[0], hf)
		if err != nil {
			ctxErr = err
			return
		}
		ctxAll = append(ctxAll, hc)
		// the same definitions, the parent applications loaded after their children
		hl1, err := refdict.Parse("hier-children", lib.HierLateXML1)
		if err != nil {
			ctxErr = err
			return
		}
		hl2, err := refdict.Parse("hier-parents", lib.HierLateXML2)
		if err != nil {
			ctxErr = err
			return
		}
		hlc, err := lib.Load("base+hier-parents-loaded-late", fs[0], hl1, hl2)
		if err != nil {
			ctxErr = err
			return
		}
		ctxAll = append(ctxAll, hlc)
		gf, err := refdict.Parse("gen", lib.GenXML)
		if err != nil {
			ctxErr = err
			return
		}
		c, err := lib.Load("gen", gf)
		if err != nil {
			ctxErr = err
			return
		}
		ctxAll = append(ctxAll, c)
	})
	if ctxErr != nil {
		t.Fatalf("contexts: %v", ctxErr)
	}
	return ctxAll
}

func genCtx(t testing.TB) *lib.Ctx {
	cs := contexts(t)
	return cs[len(cs)-1]
}

func defCtx(t testing.TB) *lib.Ctx { return contexts(t)[0] }

// guard runs f, converting a panic into (stack, true).
func guard(f func()) (p string, panicked bool) {
	defer func() {
		if r := recover(); r != nil {
			p = fmt.Sprintf("%v\n%s", r, debug.Stack())
			panicked = true
		}
	}()
	f()
	return
}

// panicSite extracts a short site from a panic text for signatures.
func panicSite(p string) string {
	lines := bytes.Split([]byte(p), []byte("\n"))
	// find first frame inside the library after the panic frames
	for i, l := range lines {
		if bytes.Contains(l, []byte("go-diameter")) || bytes.HasPrefix(l, []byte("github.com/fiorix")) {
			s := string(bytes.TrimSpace(l))
			if k := bytes.IndexByte([]byte(s), '('); k > 0 {
				s = s[:k]
			}
			_ = i
			return s
		}
	}
	return "?"
}

func classOfTree(c *ev.Case, ctx string, nodes []*refcodec.Node) {
	gen.Walk(nodes, 0, func(n *refcodec.Node, depth int) {
		l := len(n.Payload())
		v := 0
		if n.HasV() {
			v = 1
		}
		c.Class("%s/%s/len%%4=%d/depth=%d/V=%d", ctx, n.Kind, l%4, depth, v)
	})
}

func sampleMsg(ctx string, m *gen.Msg, wire []byte) map[string]any {
	return map[string]any{"dict": ctx, "header": fmt.Sprintf("%+v", m.H), "avps": refcodec.Describe(m.Nodes), "wire": ev.Hex(wire)}
}

// inParallel runs fn on G goroutines that start together, each with a stand-alone case of the
// same suite (its own PRNG stream): the per-case oracle is the one of the sequential suites, only
// the moment of execution is shared - what is correct from one goroutine must be correct from
// several that share a Parser, a ServeMux or a state machine.
func inParallel(rec *ev.Rec, c *ev.Case, G int, fn func(gc *ev.Case, g int)) {
	var wg sync.WaitGroup
	start := make(chan struct{})
	for g := 0; g < G; g++ {
		gc := rec.OneCase(c.Suite, c.I*G+g)
		wg.Add(1)
		go func(g int) {
			defer wg.Done()
			<-start
			fn(gc, g)
		}(g)
	}
	close(start)
	wg.Wait()
}
