package props

import (
	"bytes"
	"crypto/tls"
	"errors"
	"fmt"
	"net"
	"os"
	"path/filepath"
	"sync"
	"testing"
	"testing/synctest"
	"time"

	"github.com/fiorix/go-diameter/v4/diam"
	"github.com/fiorix/go-diameter/v4/diam/datatype"
	"github.com/fiorix/go-diameter/v4/diam/sm"
	"github.com/fiorix/go-diameter/v4/diam/sm/smparser"

	"verifharness/ev"
	"verifharness/lib"
	"verifharness/memnet"
	"verifharness/peer"
	"verifharness/refcodec"
)

// what the scripted peer does with the k-th CER it sees
const (
	rSilence       = iota
	rSuccess       // success CEA sharing an advertised application
	rFailure       // failing Result-Code
	rNoResultCode  // malformed: no Result-Code
	rNoOriginHost  // malformed: no Origin-Host
	rNoApplication // success CEA without any application AVP
	rUnknownApp    // success CEA whose only application is unknown to the dictionary
	rDisconnect    // EOF
	rVSUnknownApp  // success CEA whose only application is unknown and sits in a vendor-specific group after the Vendor-Id
	nReplies
)

var rNames = []string{"silence", "success", "failure", "no-result-code", "no-origin-host", "no-application", "unknown-application", "disconnect", "unknown-application-in-vendor-specific-group"}

// extra CEAs after a successful handshake
const (
	xDupSuccess = iota
	xLateFailure
	xMalformed
	nExtras
)

var xNames = []string{"duplicate-success", "late-failure", "malformed"}

type c12Script struct {
	N        int           // MaxRetransmits
	interval time.Duration // RetransmitInterval
	atCER    int           // 1-based index of the CER that gets the reply (0 = never)
	reply    int
	delta    time.Duration // reply delay after that CER (< interval)
	extras   []int
	late     time.Duration // the transport's Write of a CER returns this much after the peer saw the bytes
	apps     int           // 0..3 configured application kinds
	nAddrs   int           // configured addresses
	ipv6     bool          // local endpoint when none configured
	dress    int           // shape of the success CEA (successCEA)
}

func (s c12Script) String() string {
	ex := ""
	for _, x := range s.extras {
		ex += xNames[x] + " "
	}
	return fmt.Sprintf("MaxRetransmits=%d interval=%v: peer answers CER #%d with %s after %v; transport Write returns %v late; extra CEAs [%s]; client apps=%d addrs=%d ipv6=%v; success CEA shape %d",
		s.N, s.interval, s.atCER, rNames[s.reply], s.delta, s.late, ex, s.apps, s.nAddrs, s.ipv6, s.dress)
}

// successCEA: a success CEA that shares an application with the client, in one of the
// shapes RFC 6733 5.3.2 allows: 0 minimal; 1-3 with Inband-Security-Id AVPs ({TLS, NO},
// {NO, TLS}, {NO}); 4 Origin-State-Id, Supported-Vendor-Ids, Firmware-Revision; 5 further
// applications the client does not know next to the shared one; 6 applications first,
// Result-Code last; 7 a second (IPv6) Host-IP-Address and undefined AVPs; 8 the shared
// application is the accounting one; 9 it is inside a Vendor-Specific-Application-Id; 10, 11 that
// group also names an application nobody knows, after / before the shared one.
const nC12Dress = 12

func successCEA(dress int, hbh, e2e uint32) []byte {
	rc := peer.U32(peer.ResultCode, 2001)
	id := peer.Identity("srv.example", "example")
	rest := []*refcodec.Node{peer.Addr4(peer.HostIP, 10, 1, 2, 3), peer.U32(peer.VendorID, 99), peer.Str(peer.ProductName, refcodec.UTF8String, "srv")}
	app := peer.U32(peer.AuthApp, 4)
	avps := append(append([]*refcodec.Node{rc}, id...), rest...)
	switch dress {
	case 1:
		avps = append(avps, peer.U32(peer.InbandSec, 1), peer.U32(peer.InbandSec, 0), app)
	case 2:
		avps = append(avps, app, peer.U32(peer.InbandSec, 0), peer.U32(peer.InbandSec, 1))
	case 3:
		avps = append(avps, peer.U32(peer.InbandSec, 0), app)
	case 4:
		avps = append(avps, peer.U32(peer.OriginState, 1234567), peer.U32(peer.SupportedVnd, 10415), peer.U32(peer.SupportedVnd, 13019), app, peer.U32(peer.Firmware, 0xFFFFFFFF))
	case 5:
		avps = append(avps, peer.U32(peer.AuthApp, 999), peer.Group(peer.VSApp, peer.U32(peer.VendorID, 10415), peer.U32(peer.AuthApp, 99999)), app, peer.U32(peer.AcctApp, 998))
	case 6:
		avps = append(append(append([]*refcodec.Node{app}, rest...), id[1], id[0]), rc)
	case 7:
		v6 := &refcodec.Node{Code: peer.HostIP, Flags: 0x40, Kind: refcodec.Address, Fam: 2, B: net.ParseIP("2001:db8::5")}
		u := &refcodec.Node{Code: 0x00E00123, Flags: 0, Kind: refcodec.Unknown, B: []byte{1, 2, 3, 4, 5}}
		v := &refcodec.Node{Code: 0x00E00124, Flags: 0x80, Vendor: 4242, Kind: refcodec.Unknown, B: []byte("vendor")}
		avps = append(append([]*refcodec.Node{u}, avps...), v6, app, v)
	case 8:
		avps = append(avps, peer.U32(peer.AcctApp, 3))
	case 9:
		avps = append(avps, peer.U32(peer.SupportedVnd, 10415), peer.Group(peer.VSApp, peer.U32(peer.VendorID, 10415), peer.U32(peer.AuthApp, 16777251)))
	case 10: // a Vendor-Specific-Application-Id with both kinds of id: the shared one first, then one nobody knows
		avps = append(avps, peer.U32(peer.SupportedVnd, 10415), peer.Group(peer.VSApp, peer.U32(peer.VendorID, 10415), peer.U32(peer.AuthApp, 16777251), peer.U32(peer.AcctApp, 999999)))
	case 11: // ... the other way round
		avps = append(avps, peer.U32(peer.SupportedVnd, 10415), peer.Group(peer.VSApp, peer.U32(peer.AcctApp, 999999), peer.U32(peer.AuthApp, 16777251), peer.U32(peer.VendorID, 10415)))
	default:
		avps = append(avps, app)
	}
	return peer.Msg(0, 257, 0, hbh, e2e, avps...)
}

func ceaFor(reply int, dress int, hbh, e2e uint32) []byte {
	id := peer.Identity("srv.example", "example")
	rest := []*refcodec.Node{peer.Addr4(peer.HostIP, 10, 1, 2, 3), peer.U32(peer.VendorID, 99), peer.Str(peer.ProductName, refcodec.UTF8String, "srv")}
	switch reply {
	case rSuccess:
		return successCEA(dress, hbh, e2e)
	case rFailure:
		// permanent, transient and protocol-error codes alike end the handshake
		return peer.StdCEA(hbh, e2e, []uint32{5010, 3004, 5012, 4001, 3002, 5017, 3010, 4003}[dress%8])
	case rNoResultCode:
		return peer.Msg(0, 257, 0, hbh, e2e, append(append(id, rest...), peer.U32(peer.AuthApp, 4))...)
	case rNoOriginHost:
		return peer.Msg(0, 257, 0, hbh, e2e, append([]*refcodec.Node{peer.U32(peer.ResultCode, 2001), id[1]}, append(rest, peer.U32(peer.AuthApp, 4))...)...)
	case rNoApplication:
		return peer.StdCEA(hbh, e2e, 2001)
	case rUnknownApp:
		return peer.StdCEA(hbh, e2e, 2001, 999)
	case rVSUnknownApp:
		return peer.Msg(0, 257, 0, hbh, e2e, append(append([]*refcodec.Node{peer.U32(peer.ResultCode, 2001)}, id...), append(rest,
			peer.Group(peer.VSApp, peer.U32(peer.VendorID, 10415), peer.U32(peer.AuthApp, 999)))...)...)
	}
	return nil
}

func runC12(c *ev.Case, ctx *lib.Ctx, sc c12Script) {
	sig := func(op string) ev.Sig { return ev.Sig{"op": op, "reply": rNames[sc.reply], "extras": len(sc.extras)} }
	settings := &sm.Settings{OriginHost: "cli.local", OriginRealm: "realm.local", VendorID: 13, ProductName: "verif", OriginStateID: 7}
	conf := []datatype.Address{datatype.Address(net.IP{192, 0, 2, 9}), datatype.Address(net.ParseIP("2001:db8::9"))}
	settings.HostIPAddresses = conf[:sc.nAddrs]
	if sc.nAddrs == 1 && (c.I/5)%2 == 1 {
		// the same configuration through the deprecated singular field
		settings.HostIPAddresses, settings.HostIPAddress = nil, conf[0]
		c.Class("configured-through-deprecated-HostIPAddress")
	}
	machine := sm.New(settings)
	var mu sync.Mutex
	answers := 0
	machine.HandleFunc("CCA", func(_ diam.Conn, m *diam.Message) {
		mu.Lock()
		answers++
		mu.Unlock()
	})
	cli := &sm.Client{Dict: ctx.Parser, Handler: machine, MaxRetransmits: uint(sc.N), RetransmitInterval: sc.interval}
	// the applications the client is told to advertise
	if sc.apps >= 1 {
		cli.AuthApplicationID = []*diam.AVP{diam.NewAVP(258, 0x40, 0, datatype.Unsigned32(4))}
	}
	if sc.apps >= 2 {
		cli.AcctApplicationID = []*diam.AVP{diam.NewAVP(259, 0x40, 0, datatype.Unsigned32(3))}
	}
	if sc.apps >= 3 {
		cli.SupportedVendorID = []*diam.AVP{diam.NewAVP(265, 0x40, 0, datatype.Unsigned32(10415))}
		cli.VendorSpecificApplicationID = []*diam.AVP{diam.NewAVP(260, 0x40, 0, &diam.GroupedAVP{AVP: []*diam.AVP{
			diam.NewAVP(266, 0x40, 0, datatype.Unsigned32(10415)), diam.NewAVP(258, 0x40, 0, datatype.Unsigned32(16777251))}})}
	}
	mc := memnet.NewConn()
	if sc.ipv6 {
		mc.Local = memnet.Addr{Net: "tcp", Str: "[2001:db8::1]:40000"}
	} else {
		mc.Local = memnet.Addr{Net: "tcp", Str: "198.51.100.7:40000"}
	}
	cers := 0
	if sc.late > 0 {
		mc.Script = func(seq int, b []byte) memnet.Outcome {
			o := memnet.Outcome{Accept: -1, StallAt: -1}
			if len(b) >= 20 && peer.Header(b).Code == 257 {
				o.Late = sc.late
			}
			return o
		}
	}
	mc.OnWrite = func(w memnet.WriteRec) {
		msgs, _ := peer.SplitMessages(w.Data)
		if len(msgs) == 0 {
			return
		}
		h := peer.Header(msgs[0])
		if h.Code != 257 || h.Flags&0x80 == 0 {
			return
		}
		cers++
		if cers != sc.atCER {
			return
		}
		go func() {
			time.Sleep(sc.delta)
			if sc.reply == rDisconnect {
				mc.FeedEOF()
				return
			}
			if b := ceaFor(sc.reply, sc.dress, h.HopByHop, h.EndToEnd); b != nil {
				mc.Feed(b)
			}
		}()
	}
	var conn diam.Conn
	var err error
	done := make(chan struct{})
	go func() {
		conn, err = cli.NewConn(mc, "peer:3868")
		close(done)
	}()
	<-done
	synctest.Wait()
	defer func() {
		mc.FeedEOF()
		if conn != nil {
			conn.Close()
		}
		synctest.Wait()
	}()
	desc := sc.String()
	// --- the CERs on the transport
	var cerWrites []memnet.WriteRec
	for _, w := range mc.Writes() {
		msgs, rest := peer.SplitMessages(w.Data)
		if len(msgs) != 1 || len(rest) != 0 {
			c.Fail(sig("cer-framing"), w.Data, nil, "a write of %d bytes is not one whole message; %s", len(w.Data), desc)
			return
		}
		if h := peer.Header(msgs[0]); h.Code == 257 && h.Flags&0x80 != 0 {
			cerWrites = append(cerWrites, w)
		}
	}
	if len(cerWrites) == 0 || len(cerWrites) > sc.N+1 {
		c.Fail(sig("cer-count"), nil, nil, "%d CER transmissions, the budget is MaxRetransmits+1 = %d; %s", len(cerWrites), sc.N+1, desc)
		return
	}
	for i := 1; i < len(cerWrites); i++ {
		if !bytes.Equal(cerWrites[i].Data, cerWrites[0].Data) {
			c.Fail(sig("cer-not-identical"), cerWrites[i].Data, nil, "CER transmission %d differs from the first one; %s", i+1, desc)
			return
		}
		if gap := cerWrites[i].T0.Sub(cerWrites[i-1].T0); gap < sc.interval {
			c.Fail(sig("cer-spacing"), nil, nil, "CER transmissions %d and %d are %v apart, RetransmitInterval is %v; %s", i, i+1, gap, sc.interval, desc)
			return
		}
	}
	cer := cerWrites[0].Data
	if oh, or := peer.Find(cer, peer.OriginHost), peer.Find(cer, peer.OriginRealm); len(oh) != 1 || string(oh[0]) != "cli.local" || len(or) != 1 || string(or[0]) != "realm.local" {
		c.Fail(sig("cer-identity"), cer, nil, "CER identity %q / %q; %s", oh, or, desc)
		return
	}
	var wantAddrs [][]byte
	switch {
	case sc.nAddrs >= 1:
		wantAddrs = [][]byte{{0, 1, 192, 0, 2, 9}}
		if sc.nAddrs == 2 {
			wantAddrs = append(wantAddrs, append([]byte{0, 2}, net.ParseIP("2001:db8::9")...))
		}
	case sc.ipv6:
		wantAddrs = [][]byte{append([]byte{0, 2}, net.ParseIP("2001:db8::1")...)}
	default:
		wantAddrs = [][]byte{{0, 1, 198, 51, 100, 7}}
	}
	if got := peer.Find(cer, peer.HostIP); fmt.Sprintf("%x", got) != fmt.Sprintf("%x", wantAddrs) {
		c.Fail(sig("cer-host-ip"), cer, nil, "CER Host-IP-Address %x, expected %x; %s", got, wantAddrs, desc)
		return
	}
	wantAuth, wantAcct, wantVS := []uint32(nil), []uint32(nil), 0
	if sc.apps >= 1 {
		wantAuth = []uint32{4}
	}
	if sc.apps >= 2 {
		wantAcct = []uint32{3}
	}
	if sc.apps >= 3 {
		wantVS = 1
	}
	if fmt.Sprint(peer.FindU32(cer, peer.AuthApp)) != fmt.Sprint(wantAuth) || fmt.Sprint(peer.FindU32(cer, peer.AcctApp)) != fmt.Sprint(wantAcct) || len(peer.Find(cer, peer.VSApp)) != wantVS {
		c.Fail(sig("cer-applications"), cer, nil, "CER advertises auth %v acct %v and %d vendor-specific groups, configured auth %v acct %v vs %d; %s",
			peer.FindU32(cer, peer.AuthApp), peer.FindU32(cer, peer.AcctApp), len(peer.Find(cer, peer.VSApp)), wantAuth, wantAcct, wantVS, desc)
		return
	}
	if sc.apps >= 3 {
		g := peer.Find(cer, peer.VSApp)[0]
		recs, _, _ := refcodec.Frame(g)
		if len(recs) != 2 || recs[1].Code != peer.AuthApp {
			c.Fail(sig("cer-applications"), cer, nil, "vendor-specific application group has %d members; %s", len(recs), desc)
			return
		}
	}
	// --- outcome
	success := sc.reply == rSuccess && sc.atCER >= 1 && sc.atCER <= sc.N+1
	if success != (err == nil && conn != nil) {
		c.Fail(sig("outcome"), nil, nil, "dial returned conn=%v err=%v, the script says success=%v; %s", conn != nil, err, success, desc)
		return
	}
	if !success {
		var frc *smparser.ErrFailedResultCode
		class := "other"
		switch {
		case errors.Is(err, sm.ErrHandshakeTimeout):
			class = "timeout"
		case errors.As(err, &frc):
			class = "failed-result-code"
		case errors.Is(err, smparser.ErrMissingResultCode), errors.Is(err, smparser.ErrMissingOriginHost), errors.Is(err, smparser.ErrMissingOriginRealm):
			class = "malformed"
		case errors.Is(err, smparser.ErrMissingApplication), errors.Is(err, smparser.ErrNoCommonApplication):
			class = "no-application"
		}
		want := map[int]string{rSilence: "timeout", rFailure: "failed-result-code", rNoResultCode: "malformed", rNoOriginHost: "malformed", rNoApplication: "no-application", rUnknownApp: "no-application", rVSUnknownApp: "no-application"}[sc.reply]
		if sc.atCER == 0 || sc.atCER > sc.N+1 || sc.reply == rSuccess {
			want = "timeout"
		}
		if sc.reply == rDisconnect {
			want = "" // any error
		}
		if want != "" && class != want {
			c.Fail(sig("error-class"), nil, nil, "dial failed with %v (class %s), the script calls for %s; %s", err, class, want, desc)
			return
		}
		if mc.CloseCount() < 1 {
			c.Fail(sig("not-closed-after-failure"), nil, nil, "dial failed (%v) but the transport was not closed; %s", err, desc)
			return
		}
		c.Event("failed_handshakes", 1)
		c.Event("scripts", 1)
		return
	}
	// --- after a successful handshake: extra CEAs, then an application answer
	for _, x := range sc.extras {
		switch x {
		case xDupSuccess:
			mc.Feed(peer.StdCEA(1, 1, 2001, 4))
		case xLateFailure:
			mc.Feed(peer.StdCEA(1, 1, 5012))
		case xMalformed:
			mc.Feed(ceaFor(rNoResultCode, 0, 1, 1))
		}
		time.Sleep(time.Second)
		synctest.Wait()
	}
	mc.Feed(peer.Msg(0x40, 272, 4, 9, 9, peer.Str(peer.SessionID, refcodec.UTF8String, "s;1"), peer.U32(peer.ResultCode, 2001)))
	synctest.Wait()
	if n := mc.CloseCount(); n != 0 {
		c.Fail(sig("closed-after-handshake"), nil, nil, "after a successful handshake the transport was closed %d time(s) although the peer only sent further CEAs; %s", n, desc)
		return
	}
	mu.Lock()
	a := answers
	mu.Unlock()
	if a != 1 {
		c.Fail(sig("answer-not-dispatched"), nil, nil, "the application answer sent after the handshake (and %d extra CEAs) reached the application's handler %d times; %s", len(sc.extras), a, desc)
		return
	}
	c.Event("successful_handshakes", 1)
	c.Event("extra_ceas", len(sc.extras))
	c.Event("scripts", 1)
	if c.WantSample() && len(sc.extras) > 0 {
		c.Sample(map[string]any{"script": desc, "cer_transmissions": len(cerWrites), "cer": ev.Hex(cer)})
	}
}

// runC12WhileRegistering: the application registers handlers on the state machine (for other
// commands) from another goroutine while the client dials; the peer answers the CER at once
// with a success CEA.  The dial succeeds and answers reach the application afterwards.
func runC12WhileRegistering(c *ev.Case, ctx *lib.Ctx, trials int) {
	sig := func(op string) ev.Sig { return ev.Sig{"op": op, "suite": "dial-while-registering"} }
	for trial := 0; trial < trials; trial++ {
		settings := &sm.Settings{OriginHost: "cli.local", OriginRealm: "realm.local", VendorID: 13, ProductName: "verif",
			HostIPAddresses: []datatype.Address{datatype.Address(net.IP{192, 0, 2, 9})}}
		machine := sm.New(settings)
		var mu sync.Mutex
		answers := 0
		machine.HandleFunc("CCA", func(_ diam.Conn, m *diam.Message) {
			mu.Lock()
			answers++
			mu.Unlock()
		})
		cli := &sm.Client{Dict: ctx.Parser, Handler: machine, MaxRetransmits: 1, RetransmitInterval: time.Second,
			AuthApplicationID: []*diam.AVP{diam.NewAVP(258, 0x40, 0, datatype.Unsigned32(4))}}
		mc := memnet.NewConn()
		mc.OnWrite = func(w memnet.WriteRec) {
			msgs, _ := peer.SplitMessages(w.Data)
			if len(msgs) == 1 {
				if h := peer.Header(msgs[0]); h.Code == 257 && h.Flags&0x80 != 0 {
					mc.Feed(peer.StdCEA(h.HopByHop, h.EndToEnd, 2001, 4))
				}
			}
		}
		start := make(chan struct{})
		regDone := make(chan struct{})
		go func() {
			defer close(regDone)
			<-start
			nop := func(diam.Conn, *diam.Message) {}
			for i := 0; i < 1500; i++ {
				if i%2 == 0 {
					machine.HandleFunc(fmt.Sprintf("X%dR", i%40), nop)
				} else {
					machine.HandleIdx(diam.CommandIndex{AppID: 4, Code: uint32(5000 + i%40), Request: true}, diam.HandlerFunc(nop))
				}
			}
		}()
		close(start)
		conn, err := cli.NewConn(mc, "peer:3868")
		<-regDone
		synctest.Wait()
		if err != nil || conn == nil {
			c.Fail(sig("outcome"), nil, nil, "the peer answered the CER at once with a success CEA sharing application 4, handlers for other commands were being registered on the state machine from another goroutine meanwhile: dial returned conn=%v err=%v (trial %d)", conn != nil, err, trial)
			mc.FeedEOF()
			synctest.Wait()
			return
		}
		mc.Feed(peer.Msg(0x40, 272, 4, 9, 9, peer.Str(peer.SessionID, refcodec.UTF8String, "s;1"), peer.U32(peer.ResultCode, 2001)))
		synctest.Wait()
		mu.Lock()
		a := answers
		mu.Unlock()
		if a != 1 {
			c.Fail(sig("answer-not-dispatched"), nil, nil, "after a dial that overlapped handler registrations the application answer reached its handler %d times (trial %d)", a, trial)
		}
		mc.FeedEOF()
		conn.Close()
		synctest.Wait()
		if c.Failed() {
			return
		}
		c.Event("successful_handshakes", 1)
	}
}

// runC12Second: the same sm.Client dials a second peer while its first
// connection is up and the first peer repeats its CEA during that handshake.
func runC12Second(c *ev.Case, ctx *lib.Ctx, peer2Answers bool, dupAt time.Duration) {
	sig := func(op string) ev.Sig { return ev.Sig{"op": op, "suite": "second-dial"} }
	settings := &sm.Settings{OriginHost: "cli.local", OriginRealm: "realm.local", VendorID: 13, ProductName: "verif",
		HostIPAddresses: []datatype.Address{datatype.Address(net.IP{192, 0, 2, 9})}}
	machine := sm.New(settings)
	var mu sync.Mutex
	answers := map[string]int{}
	machine.HandleFunc("CCA", func(dc diam.Conn, m *diam.Message) {
		mu.Lock()
		answers[dc.RemoteAddr().String()]++
		mu.Unlock()
	})
	cli := &sm.Client{Dict: ctx.Parser, Handler: machine, MaxRetransmits: 0, RetransmitInterval: time.Second,
		AuthApplicationID: []*diam.AVP{diam.NewAVP(258, 0x40, 0, datatype.Unsigned32(4))}}
	mk := func(name string, answer bool, delay time.Duration) *memnet.Conn {
		mc := memnet.NewConn()
		mc.Remote = memnet.Addr{Net: "tcp", Str: name}
		mc.OnWrite = func(w memnet.WriteRec) {
			msgs, _ := peer.SplitMessages(w.Data)
			if len(msgs) == 1 && peer.Header(msgs[0]).Code == 257 && answer {
				h := peer.Header(msgs[0])
				go func() {
					time.Sleep(delay)
					mc.Feed(peer.StdCEA(h.HopByHop, h.EndToEnd, 2001, 4))
				}()
			}
		}
		return mc
	}
	mc1 := mk("10.0.0.1:3868", true, 0)
	conn1, err := cli.NewConn(mc1, "peer1:3868")
	if err != nil {
		c.Fail(sig("setup"), nil, nil, "first dial: %v", err)
		return
	}
	mc2 := mk("10.0.0.2:3868", peer2Answers, 600*time.Millisecond)
	var conn2 diam.Conn
	var err2 error
	done := make(chan struct{})
	go func() {
		conn2, err2 = cli.NewConn(mc2, "peer2:3868")
		close(done)
	}()
	time.Sleep(dupAt)
	mc1.Feed(peer.StdCEA(0x77, 0x78, 2001, 4)) // peer 1 repeats its CEA on the first connection
	<-done
	synctest.Wait()
	defer func() {
		mc1.FeedEOF()
		mc2.FeedEOF()
		conn1.Close()
		if conn2 != nil {
			conn2.Close()
		}
		synctest.Wait()
	}()
	desc := fmt.Sprintf("second dial of the same client (peer 2 answers after 600 ms: %v), peer 1 repeats its success CEA %v into that handshake", peer2Answers, dupAt)
	if peer2Answers != (err2 == nil && conn2 != nil) {
		c.Fail(sig("outcome"), nil, nil, "second dial returned conn=%v err=%v; %s", conn2 != nil, err2, desc)
		return
	}
	if mc1.CloseCount() != 0 {
		c.Fail(sig("closed-after-handshake"), nil, nil, "the first connection was closed; %s", desc)
		return
	}
	ans := peer.Msg(0x40, 272, 4, 9, 9, peer.Str(peer.SessionID, refcodec.UTF8String, "s;1"), peer.U32(peer.ResultCode, 2001))
	mc1.Feed(ans)
	if conn2 != nil {
		mc2.Feed(ans)
	}
	synctest.Wait()
	mu.Lock()
	a1, a2 := answers["10.0.0.1:3868"], answers["10.0.0.2:3868"]
	mu.Unlock()
	want2 := 0
	if peer2Answers {
		want2 = 1
	}
	if a1 != 1 || a2 != want2 {
		c.Fail(sig("answer-not-dispatched"), nil, nil, "answers dispatched: %d on the first connection (expected 1), %d on the second (expected %d); %s", a1, a2, want2, desc)
		return
	}
	if !peer2Answers && mc2.CloseCount() < 1 {
		c.Fail(sig("not-closed-after-failure"), nil, nil, "the second dial failed but its transport was not closed; %s", desc)
		return
	}
	c.Event("second_dial_scenarios", 1)
}

// runC12Entry: every dial entry point of sm.Client against a scripted peer on a real
// loopback socket (plain or TLS, tcp or unix). After the handshake the connection
// idles for several times the dial timeout, then the peer sends an answer: it must be
// dispatched, and the connection must still be open.
func runC12Entry(c *ev.Case, ctx *lib.Ctx, entry int) {
	names := []string{"Dial", "DialNetwork(tcp)", "DialTimeout", "DialTLS", "DialTLSTimeout", "DialNetworkTLS", "DialExt(timeout)", "DialTLSExt(timeout)", "DialNetwork(unix)", "DialNetworkBind"}
	sig := func(op string) ev.Sig { return ev.Sig{"op": op, "suite": "dial-entry-points", "entry": names[entry]} }
	useTLS := entry == 3 || entry == 4 || entry == 5 || entry == 7
	network, addr := "tcp", "127.0.0.1:0"
	if entry == 8 {
		network, addr = "unix", filepath.Join(os.Getenv("VERIF_TMP"), fmt.Sprintf("c12-%d-%d.sock", os.Getpid(), c.I))
		os.Remove(addr)
		defer os.Remove(addr)
	}
	ln, err := net.Listen(network, addr)
	if err != nil {
		c.Fail(sig("setup"), nil, nil, "listen: %v", err)
		return
	}
	defer ln.Close()
	if useTLS {
		cfg, err := c15TLSConfig()
		if err != nil {
			c.Fail(sig("setup"), nil, nil, "certificate: %v", err)
			return
		}
		ln = tls.NewListener(ln, cfg)
	}
	const timeout = 150 * time.Millisecond
	sendAnswer := make(chan struct{})
	peerDone := make(chan string, 1)
	go func() {
		pc, err := ln.Accept()
		if err != nil {
			peerDone <- "accept: " + err.Error()
			return
		}
		defer pc.Close()
		pc.SetDeadline(time.Now().Add(120 * time.Second))
		var buf []byte
		tmp := make([]byte, 4096)
		for {
			msgs, _ := peer.SplitMessages(buf)
			if len(msgs) > 0 {
				h := peer.Header(msgs[0])
				if _, err := pc.Write(peer.StdCEA(h.HopByHop, h.EndToEnd, 2001, 4)); err != nil {
					peerDone <- "write CEA: " + err.Error()
					return
				}
				break
			}
			n, err := pc.Read(tmp)
			if err != nil {
				peerDone <- "read CER: " + err.Error()
				return
			}
			buf = append(buf, tmp[:n]...)
		}
		<-sendAnswer
		if _, err := pc.Write(peer.Msg(0x40, 272, 4, 7, 8, peer.Str(peer.SessionID, refcodec.UTF8String, "s;1"), peer.U32(peer.ResultCode, 2001))); err != nil {
			peerDone <- "write answer: " + err.Error()
			return
		}
		// the client must not have closed: the next read blocks until the test closes the connection
		pc.SetReadDeadline(time.Now().Add(300 * time.Millisecond))
		if _, err := pc.Read(tmp); err == nil || !os.IsTimeout(err) {
			peerDone <- fmt.Sprintf("after the answer the peer's read returned %v (connection closed by the client?)", err)
			return
		}
		peerDone <- ""
	}()
	settings := &sm.Settings{OriginHost: "cli.local", OriginRealm: "realm.local", VendorID: 13, ProductName: "verif"}
	if network == "unix" {
		// a unix socket has no IP address to derive Host-IP-Address from
		settings.HostIPAddresses = []datatype.Address{datatype.Address(net.IP{192, 0, 2, 9})}
	}
	machine := sm.New(settings)
	got := make(chan struct{}, 4)
	machine.HandleFunc("CCA", func(diam.Conn, *diam.Message) { got <- struct{}{} })
	cli := &sm.Client{Dict: ctx.Parser, Handler: machine, MaxRetransmits: 1, RetransmitInterval: 2 * time.Second,
		AuthApplicationID: []*diam.AVP{diam.NewAVP(258, 0x40, 0, datatype.Unsigned32(4))}}
	a := ln.Addr().String()
	var conn diam.Conn
	switch entry {
	case 0:
		conn, err = cli.Dial(a)
	case 1:
		conn, err = cli.DialNetwork("tcp", a)
	case 2:
		conn, err = cli.DialTimeout(a, timeout)
	case 3:
		conn, err = cli.DialTLS(a, "", "")
	case 4:
		conn, err = cli.DialTLSTimeout(a, "", "", timeout)
	case 5:
		conn, err = cli.DialNetworkTLS("tcp", a, "", "", nil)
	case 6:
		conn, err = cli.DialExt("tcp", a, timeout, nil)
	case 7:
		conn, err = cli.DialTLSExt("tcp", a, "", "", timeout, nil)
	case 8:
		conn, err = cli.DialNetwork("unix", a)
	case 9:
		conn, err = cli.DialNetworkBind("tcp", "127.0.0.1:0", a)
	}
	if err != nil {
		c.Fail(sig("outcome"), nil, nil, "%s to a peer that answers the CER with a success CEA failed: %v", names[entry], err)
		close(sendAnswer)
		<-peerDone
		return
	}
	defer conn.Close()
	time.Sleep(4 * timeout) // idle well beyond the dial timeout
	close(sendAnswer)
	select {
	case <-got:
	case <-time.After(30 * time.Second):
		c.Fail(sig("answer-not-dispatched"), nil, nil, "%s: an answer sent %v after the handshake (dial timeout %v where the entry point takes one) was not dispatched within 30 s", names[entry], 4*timeout, timeout)
		<-peerDone
		return
	}
	if msg := <-peerDone; msg != "" {
		c.Fail(sig("closed-after-handshake"), nil, nil, "%s: %s", names[entry], msg)
		return
	}
	c.Event("dial_entry_points", 1)
}

func TestC12(t *testing.T) {
	rec := ev.Open(t, "C12")
	defer rec.Close()
	ctx := defCtx(t)
	lc, restore := captureLog()
	defer restore()
	var scripts []c12Script
	intervals := []time.Duration{time.Second, 2500 * time.Millisecond}
	maxN, exLen := 3, 3
	if !rec.Quick() {
		intervals = append(intervals, 300*time.Millisecond, 7*time.Second)
		maxN, exLen = 6, 5
	}
	var extraSeqs [][]int
	var bx func(cur []int)
	bx = func(cur []int) {
		extraSeqs = append(extraSeqs, append([]int(nil), cur...))
		if len(cur) == exLen {
			return
		}
		for x := 0; x < nExtras; x++ {
			bx(append(cur, x))
		}
	}
	bx(nil)
	k := 0
	for N := 0; N <= maxN; N++ {
		for _, iv := range intervals {
			for at := 0; at <= N+2; at++ {
				for reply := 0; reply < nReplies; reply++ {
					if at == 0 && reply != rSilence {
						continue
					}
					if at != 0 && reply == rSilence {
						continue
					}
					deltas := []time.Duration{0, iv / 2, iv - time.Millisecond}
					for _, d := range deltas {
						base := c12Script{N: N, interval: iv, atCER: at, reply: reply, delta: d}
						if reply == rSuccess && at <= N+1 {
							for _, ex := range extraSeqs {
								s := base
								s.extras = ex
								k++
								s.apps, s.nAddrs, s.ipv6 = 1+k%3, k%3, (k/3)%2 == 1
								scripts = append(scripts, s)
							}
						} else {
							k++
							base.apps, base.nAddrs, base.ipv6 = k%4, k%3, (k/3)%2 == 1
							scripts = append(scripts, base)
						}
					}
				}
			}
		}
	}
	// transports with back-pressure: the Write of a CER returns late, the answer
	// arrives while it is still running or shortly after
	for N := 0; N <= 2; N++ {
		for _, iv := range intervals {
			for _, late := range []time.Duration{iv / 2, iv + iv/2, 3 * iv} {
				for _, d := range []time.Duration{0, iv / 2, late + iv/2} {
					for at := 1; at <= N+1; at++ {
						for rep := 0; rep < 3; rep++ {
							k++
							scripts = append(scripts, c12Script{N: N, interval: iv, atCER: at, reply: rSuccess, delta: d, late: late, apps: 1 + k%3, nAddrs: k % 3})
						}
					}
				}
			}
		}
	}
	rec.Suite("scripts", len(scripts), func(c *ev.Case) {
		sc := scripts[c.I]
		c.Class("N=%d/at=%d/reply=%s/extras=%d/late=%v", sc.N, sc.atCER, rNames[sc.reply], len(sc.extras), sc.late > 0)
		if sc.reply == rFailure {
			sc.dress = c.I / 3
			c.Class("failure-cea-code-index=%d", sc.dress%8)
		}
		if sc.reply == rSuccess {
			sc.dress = (c.I + c.I/nC12Dress) % nC12Dress
			if (sc.dress == 8 && sc.apps < 2) || (sc.dress >= 9 && sc.apps < 3) {
				sc.dress = 1 + c.I%7
			}
			c.Class("success-cea-shape=%d", sc.dress)
		}
		before := len(lc.String())
		leak := runBubbleWD(t, rec, c, 60*time.Second, func() { runC12(c, ctx, sc) })
		if leak != "" && !c.Failed() {
			c.Fail(ev.Sig{"op": "bubble-leak", "reply": rNames[sc.reply], "extras": len(sc.extras)}, nil, nil, "goroutines left blocked after the scenario: %s; %s", leak, sc.String())
		}
		if logs := lc.String()[before:]; bytes.Contains([]byte(logs), []byte("panic serving")) && !c.Failed() {
			c.Fail(ev.Sig{"op": "reader-panic", "reply": rNames[sc.reply], "extras": len(sc.extras)}, nil, nil, "the connection's reader panicked: %s; %s", logs[:min(len(logs), 600)], sc.String())
		}
	})
	rec.Exhaustive("scripts")
	hugeN := []uint{^uint(0), ^uint(0) - 1, 1 << 63, 1<<63 - 1, 1 << 62}
	rec.Suite("huge-budgets", len(hugeN)*3, func(c *ev.Case) {
		b, at := hugeN[c.I%len(hugeN)], 1+c.I/len(hugeN)
		c.Class("huge-budget/%d/answers-cer=%d", c.I%len(hugeN), at)
		leak := runBubbleWD(t, rec, c, 60*time.Second, func() { runHugeBudget(c, ctx, "C12", b, at, 1, false) })
		if leak != "" && !c.Failed() {
			c.Fail(ev.Sig{"op": "bubble-leak"}, nil, nil, "goroutines left blocked: %s", leak)
		}
	})
	rec.Suite("dial-entry-points", 10*rec.N(1, 20), func(c *ev.Case) {
		entry := c.I % 10
		c.Class("dial-entry/%d", entry)
		runC12Entry(c, ctx, entry)
	})
	rec.Suite("dial-while-registering", rec.N(24, 2000), func(c *ev.Case) {
		c.Class("dial-while-registering")
		leak := runBubbleWD(t, rec, c, 60*time.Second, func() { runC12WhileRegistering(c, ctx, 8) })
		if leak != "" && !c.Failed() {
			c.Fail(ev.Sig{"op": "bubble-leak", "suite": "dial-while-registering"}, nil, nil, "goroutines left blocked after the scenario: %s", leak)
		}
	})
	rec.Suite("second-dial", 2*4*rec.N(2, 200), func(c *ev.Case) {
		answers := c.I%2 == 0
		dupAt := []time.Duration{0, 100 * time.Millisecond, 500 * time.Millisecond, 900 * time.Millisecond}[(c.I/2)%4]
		c.Class("second-dial/peer2-answers=%v/dup-at=%v", answers, dupAt)
		before := len(lc.String())
		leak := runBubbleWD(t, rec, c, 60*time.Second, func() { runC12Second(c, ctx, answers, dupAt) })
		if leak != "" && !c.Failed() {
			c.Fail(ev.Sig{"op": "bubble-leak", "suite": "second-dial"}, nil, nil, "goroutines left blocked after the scenario: %s", leak)
		}
		if logs := lc.String()[before:]; bytes.Contains([]byte(logs), []byte("panic serving")) && !c.Failed() {
			c.Fail(ev.Sig{"op": "reader-panic", "suite": "second-dial"}, nil, nil, "a connection's reader panicked: %s", logs[:min(len(logs), 600)])
		}
	})
}
