package props

import (
	"crypto/tls"
	"fmt"
	"io"
	"net"
	"sync"
	"testing"
	"time"

	"github.com/fiorix/go-diameter/v4/diam"
	"github.com/fiorix/go-diameter/v4/diam/datatype"
	"github.com/fiorix/go-diameter/v4/diam/sm"

	"verifharness/ev"
	"verifharness/peer"
	"verifharness/refcodec"
)

// TestC12Net: the client's dial entry points over the loopback interface (TCP and TLS on real
// sockets, with and without a dial timeout, with and without a local address), the one C12
// workload on the real clock: "returns a usable connection ... the connection stays open
// afterwards" must also hold once more time than the dial timeout has passed since the dial.
// After the handshake the application exchanges a request at once, idles for the dial timeout
// and a bit, and exchanges again, twice; the peer pushes a request of its own after each.
//
// Verdicts do not rest on deadlines: a healthy loopback connection has none, so a write that
// fails, or a connection that ends, is the violation; waiting for an answer has no limit but the
// driver's watchdog (inconclusive).  A dial that fails on a busy machine is counted, not judged.
func TestC12Net(t *testing.T) {
	rec := ev.Open(t, "C12")
	defer rec.Close()
	ctx := defCtx(t)
	_, restore := captureLog()
	defer restore()
	cfg, err := c15TLSConfig()
	if err != nil {
		t.Fatal(err)
	}
	// the scripted peer: success CEA, an answer to every request, and a request of its own
	// after each answer
	servePeer := func(nc net.Conn) {
		defer nc.Close()
		pushed := uint32(0)
		for {
			h := make([]byte, 20)
			if _, err := io.ReadFull(nc, h); err != nil {
				return
			}
			n := int(h[1])<<16 | int(h[2])<<8 | int(h[3])
			if n < 20 || n > 1<<20 {
				return
			}
			m := append(h, make([]byte, n-20)...)
			if _, err := io.ReadFull(nc, m[20:]); err != nil {
				return
			}
			hd := peer.Header(m)
			switch {
			case hd.Code == 257 && hd.Flags&0x80 != 0:
				nc.Write(peer.StdCEA(hd.HopByHop, hd.EndToEnd, 2001, 4))
			case hd.Code == 272 && hd.Flags&0x80 != 0:
				nc.Write(peer.Msg(0x40, 272, 4, hd.HopByHop, hd.EndToEnd, peer.Str(peer.SessionID, refcodec.UTF8String, "s;1"), peer.U32(peer.ResultCode, 2001)))
				pushed++
				nc.Write(peer.Msg(0xC0, 272, 4, 0x5000+pushed, 1, peer.Str(peer.SessionID, refcodec.UTF8String, "s;push")))
			}
		}
	}
	listen := func(secure bool) (net.Listener, error) {
		ln, err := net.Listen("tcp", "127.0.0.1:0")
		if err != nil {
			return nil, err
		}
		go func() {
			for {
				nc, err := ln.Accept()
				if err != nil {
					return
				}
				if secure {
					nc = tls.Server(nc, cfg)
				}
				go servePeer(nc)
			}
		}()
		return ln, nil
	}
	plainLn, err := listen(false)
	if err != nil {
		t.Skipf("no loopback listener: %v", err)
	}
	defer plainLn.Close()
	tlsLn, err := listen(true)
	if err != nil {
		t.Skipf("no loopback listener: %v", err)
	}
	defer tlsLn.Close()
	const dialTimeout = 1200 * time.Millisecond
	type how struct {
		name string
		dial func(cli *sm.Client) (diam.Conn, error)
		idle time.Duration
	}
	pa, ta := plainLn.Addr().String(), tlsLn.Addr().String()
	loop := &net.TCPAddr{IP: net.IPv4(127, 0, 0, 1)}
	hows := []how{
		{"Dial", func(cli *sm.Client) (diam.Conn, error) { return cli.Dial(pa) }, 300 * time.Millisecond},
		{"DialTimeout", func(cli *sm.Client) (diam.Conn, error) { return cli.DialTimeout(pa, dialTimeout) }, dialTimeout + 400*time.Millisecond},
		{"DialNetwork", func(cli *sm.Client) (diam.Conn, error) { return cli.DialNetwork("tcp", pa) }, 300 * time.Millisecond},
		{"DialNetworkBind", func(cli *sm.Client) (diam.Conn, error) { return cli.DialNetworkBind("tcp", "127.0.0.1:0", pa) }, 300 * time.Millisecond},
		{"DialExt(timeout, local address)", func(cli *sm.Client) (diam.Conn, error) { return cli.DialExt("tcp", pa, dialTimeout, loop) }, dialTimeout + 400*time.Millisecond},
		{"DialTLS", func(cli *sm.Client) (diam.Conn, error) { return cli.DialTLS(ta, "", "") }, 300 * time.Millisecond},
		{"DialTLSTimeout", func(cli *sm.Client) (diam.Conn, error) { return cli.DialTLSTimeout(ta, "", "", dialTimeout) }, dialTimeout + 400*time.Millisecond},
		{"DialNetworkTLS", func(cli *sm.Client) (diam.Conn, error) { return cli.DialNetworkTLS("tcp", ta, "", "", nil) }, 300 * time.Millisecond},
		{"DialTLSExt(timeout, local address)", func(cli *sm.Client) (diam.Conn, error) {
			return cli.DialTLSExt("tcp", ta, "", "", dialTimeout, loop)
		}, dialTimeout + 400*time.Millisecond},
	}
	rec.Suite("dial-entry-points-on-loopback", rec.N(1, 3), func(c0 *ev.Case) {
		inParallel(rec, c0, len(hows), func(c *ev.Case, g int) {
			hw := hows[g]
			sig := func(op string) ev.Sig { return ev.Sig{"op": op, "suite": "dial-entry-points-on-loopback", "how": hw.name} }
			c.Class("loopback/%s", hw.name)
			settings := &sm.Settings{OriginHost: datatype.DiameterIdentity(fmt.Sprintf("cli%d.local", g)), OriginRealm: "realm.local", VendorID: 13, ProductName: "verif"}
			machine := sm.New(settings)
			var mu sync.Mutex
			answers, pushes := map[uint32]bool{}, map[uint32]bool{}
			got := make(chan struct{}, 64)
			machine.HandleFunc("CCA", func(_ diam.Conn, m *diam.Message) {
				mu.Lock()
				answers[m.Header.HopByHopID] = true
				mu.Unlock()
				got <- struct{}{}
			})
			machine.HandleFunc("CCR", func(_ diam.Conn, m *diam.Message) {
				mu.Lock()
				pushes[m.Header.HopByHopID] = true
				mu.Unlock()
				got <- struct{}{}
			})
			cli := &sm.Client{Dict: ctx.Parser, Handler: machine, MaxRetransmits: 1, RetransmitInterval: 10 * time.Second,
				AuthApplicationID: []*diam.AVP{diam.NewAVP(258, 0x40, 0, datatype.Unsigned32(4))}}
			conn, err := hw.dial(cli)
			if err != nil {
				// (a dial or handshake that does not complete in time on a busy machine)
				rec.Note(fmt.Sprintf("inconclusive: %s failed: %v", hw.name, err))
				c.Event("inconclusive_dial_failed", 1)
				return
			}
			defer conn.Close()
			closed := conn.(diam.CloseNotifier).CloseNotify()
			for k := 1; k <= 3; k++ {
				if k > 1 {
					time.Sleep(hw.idle)
				}
				req := diam.NewRequest(272, 4, ctx.Parser)
				req.Header.HopByHopID = uint32(0x100 + k)
				req.NewAVP(263, 0x40, 0, datatype.UTF8String("s;1"))
				if _, err := req.WriteTo(conn); err != nil {
					c.Fail(sig("write-after-idle"), nil, nil, "%s succeeded, then request %d, written %v after the previous exchange, failed: %v - the connection returned by the dial is not usable", hw.name, k, hw.idle, err)
					return
				}
				for seen := 0; seen < 2; {
					select {
					case <-got:
						seen++
					case <-closed:
						c.Fail(sig("closed-after-idle"), nil, nil, "%s succeeded, then the connection ended while the answer to request %d (and the peer's own request) were awaited, %v after the previous exchange", hw.name, k, hw.idle)
						return
					}
				}
				mu.Lock()
				ok := answers[uint32(0x100+k)] && pushes[uint32(0x5000+k)]
				mu.Unlock()
				if !ok {
					c.Fail(sig("dispatch-after-idle"), nil, nil, "%s: after request %d the handlers saw answers %v and peer requests %v", hw.name, k, answers, pushes)
					return
				}
				c.Event("exchanges", 1)
			}
			c.Event("dials", 1)
			c.Event("accepted", 1)
		})
	})
}
