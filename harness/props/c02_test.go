package props

import (
	"bytes"
	"encoding/binary"
	"fmt"
	"math"
	"strings"
	"testing"
	"time"

	"github.com/fiorix/go-diameter/v4/diam"
	"github.com/fiorix/go-diameter/v4/diam/datatype"

	"verifharness/ev"
	"verifharness/gen"
	"verifharness/lib"
	"verifharness/memnet"
	"verifharness/refcodec"
	"verifharness/refdict"
)

func TestC02(t *testing.T) {
	rec := runCodec(t, "C02", false, true)
	opsSuite(t, rec)
	// marshal operations into two messages from one struct value, then adds on each (see C18)
	gfan := genCtx(t)
	rec.Suite("marshal-after-load", rec.N(8, 400), func(c *ev.Case) { marshalAfterLoad(c, c.I%2) })
	// values handed to the API as sub-slices of one buffer (a relay that cuts the payloads out of
	// what it received): the image is the reference image and the buffer is left as it was
	rec.Suite("payloads-sliced-from-one-buffer", rec.N(600, 60000), func(c *ev.Case) {
		r := c.R
		n := 2 + r.IntN(5)
		buf := make([]byte, 0, 512)
		var spans [][2]int
		for i := 0; i < n; i++ {
			l := r.IntN(23)
			start := len(buf)
			for k := 0; k < l; k++ {
				buf = append(buf, byte(0x41+i))
			}
			spans = append(spans, [2]int{start, len(buf)})
		}
		orig := append([]byte(nil), buf...)
		m := diam.NewMessage(8388000, diam.RequestFlag, 0, 1, 2, gfan.Parser)
		var nodes []*refcodec.Node
		for i, sp := range spans {
			v := buf[sp[0]:sp[1]] // capacity runs on into the following payloads
			switch (c.I + i) % 3 {
			case 0:
				m.NewAVP(0x00E10000+uint32(i), 0, 0, datatype.Unknown(v))
				nodes = append(nodes, &refcodec.Node{Code: 0x00E10000 + uint32(i), Kind: refcodec.Unknown, B: append([]byte(nil), orig[sp[0]:sp[1]]...)})
			case 1:
				m.NewAVP(9001, 0x40, 0, datatype.OctetString(v))
				nodes = append(nodes, &refcodec.Node{Code: 9001, Flags: 0x40, Kind: refcodec.OctetString, B: append([]byte(nil), orig[sp[0]:sp[1]]...)})
			default:
				m.NewAVP(0x00E10100+uint32(i), 0x80, 4242, datatype.Unknown(v))
				nodes = append(nodes, &refcodec.Node{Code: 0x00E10100 + uint32(i), Flags: 0x80, Vendor: 4242, Kind: refcodec.Unknown, B: append([]byte(nil), orig[sp[0]:sp[1]]...)})
			}
		}
		c.Class("sliced-payloads/n=%d", n)
		want := refcodec.EncodeMessage(refcodec.Header{Version: 1, Flags: 0x80, Code: 8388000, HopByHop: 1, EndToEnd: 2}, nodes)
		for round := 0; round < 2; round++ {
			got, err := m.Serialize()
			if err != nil || !bytes.Equal(got, want) {
				c.Fail(ev.Sig{"op": "sliced-payloads", "what": "image"}, want, nil, "a message whose opaque payloads are sub-slices of one buffer: Serialize (round %d) err=%v, image differs from the reference at byte %d", round, err, firstDiff(got, want))
				return
			}
			if !bytes.Equal(buf, orig) {
				c.Fail(ev.Sig{"op": "sliced-payloads", "what": "caller-buffer"}, nil, nil, "serialising a message wrote into the caller's buffer behind a payload (first difference at byte %d of %d)", firstDiff(buf, orig), len(orig))
				return
			}
		}
		c.Event("api_built", 1)
	})
	rec.Suite("marshal-fan-out", rec.N(300, 30000), func(c *ev.Case) { fanOutRound(c, gfan) })
	// diam.MessageBufferLength is an exported variable: an application may change it while it is
	// running. What WriteTo hands to the transport is the reference image before and after,
	// whatever buffers earlier emissions left behind.
	rec.Suite("buffer-length-changed-at-run-time", 12, func(c *ev.Case) {
		oldLen := diam.MessageBufferLength
		defer func() { diam.MessageBufferLength = oldLen }()
		lens := [][2]int{{1024, 8192}, {1024, 4096}, {512, 2048}, {2048, 1 << 16}, {4096, 1024}, {64, 1024}}[c.I%6]
		c.Class("buffer-length %d->%d", lens[0], lens[1])
		for round := 0; round < 200; round++ {
			diam.MessageBufferLength = lens[round%2]
			lo, hi := lens[0], lens[1]
			if lo > hi {
				lo, hi = hi, lo
			}
			for k, payload := range []int{1, 90, lo + 1 + c.R.IntN(hi-lo), hi - 40, lo - 40} {
				if payload < 0 {
					payload = 3
				}
				if round%2 == 0 && k >= 2 {
					payload = 5 + k // small messages while the variable has its first value
				}
				val := randASCII(c.R, payload)
				m := diam.NewMessage(8388000, diam.RequestFlag, 0, uint32(round)+1, uint32(k)+1, gfan.Parser)
				m.NewAVP(9001, 0x40, 0, datatype.OctetString(val))
				want := refcodec.EncodeMessage(refcodec.Header{Version: 1, Flags: 0x80, Code: 8388000, HopByHop: uint32(round) + 1, EndToEnd: uint32(k) + 1},
					[]*refcodec.Node{{Code: 9001, Flags: 0x40, Kind: refcodec.OctetString, B: val}})
				var out bytes.Buffer
				var err error
				if p, bad := guard(func() { _, err = m.WriteTo(&out) }); bad || err != nil || !bytes.Equal(out.Bytes(), want) {
					c.Fail(ev.Sig{"op": "emit", "how": "buffer-length-changed"}, want, nil, "diam.MessageBufferLength set to %d after messages had been written with %d: WriteTo of a %d-byte message: err=%v, %d bytes written, first difference from the reference image at %d %s", diam.MessageBufferLength, lens[(round+1)%2], len(want), err, out.Len(), firstDiff(out.Bytes(), want), p)
					return
				}
				c.Event("api_built", 1)
			}
		}
	})
	if rec.Race() {
		// marshal operations from several goroutines at once, on a struct type that is used for
		// the first time (see C18, suite concurrent-first-use): the header length equals the
		// serialised size and the image reads back
		g := genCtx(t)
		rec.Suite("concurrent-first-marshal", rec.N(100, 10000), func(c *ev.Case) { freshTypeRound(c, rec, g) })
	}
	rec.Close()
}

type c02Inner struct {
	U uint32 `avp:"G-U32"`
}
type c02Marshal struct {
	Oct  datatype.OctetString `avp:"G-Octets"`
	S    []string             `avp:"G-UTF8"`
	U64  uint64               `avp:"G-U64"`
	G2   c02Inner             `avp:"G-Group2"`
	Skip *int32               `avp:"G-I32"`
}

// opsSuite: random sequences of NewAVP / AddAVP / InsertAVP / Marshal; after
// every step the header's MessageLength, Len() and the serialised size agree
// and the bytes are what the reference encoder produces for the same list.
func opsSuite(t *testing.T, rec *ev.Rec) {
	ctxs := []*lib.Ctx{genCtx(t), defCtx(t)}
	rec.Suite("ops", rec.N(8000, 400000), func(c *ev.Case) {
		ctx := ctxs[c.I%2]
		r := c.R
		h, _ := ctx.Header(r, ctx.Cmds)
		m := diam.NewMessage(h.Code, h.Flags, h.App, h.HopByHop, h.EndToEnd, ctx.Parser)
		h.HopByHop, h.EndToEnd = m.Header.HopByHopID, m.Header.EndToEndID
		var ref []*refcodec.Node
		vis := ctx.Visible(h.App)
		o := &gen.Opts{MaxDepth: 3, MaxAVPs: 3}
		var trace []string
		var lastWant []byte
		lateMember := false
		steps := 1 + r.IntN(12)
		for s := 0; s < steps; s++ {
			def := vis[r.IntN(len(vis))]
			k, _ := refcodec.KindOf(def.Type)
			n := &refcodec.Node{Code: def.Code, Vendor: def.Vendor, Flags: uint8(r.Uint32()) & 0x60}
			if def.Vendor != 0 {
				n.Flags |= refcodec.AVPFlagV
			}
			sub := ctx.Tree
			gen.Value(r, n, k, o, 1, func(d int) []*refcodec.Node {
				oo := *o
				oo.MaxDepth = 2
				return sub(r, h.App, &oo)
			})
			if n.Kind == refcodec.Address && gen.RiskAddress(n.Fam, n.B) {
				continue
			}
			op := r.IntN(11)
			var err error
			p, bad := guard(func() {
				switch op {
				case 0:
					trace = append(trace, fmt.Sprintf("NewAVP(int %d)", n.Code))
					if n.Code > math.MaxInt32 {
						op = 1
					}
					_, err = m.NewAVP(int(n.Code), n.Flags, n.Vendor, lib.FromNode(n))
					ref = append(ref, n)
				case 1, 2:
					trace = append(trace, fmt.Sprintf("NewAVP(uint32 %d)", n.Code))
					_, err = m.NewAVP(n.Code, n.Flags, n.Vendor, lib.FromNode(n))
					ref = append(ref, n)
				case 3:
					// by name: the reference resolver says which code the name means
					rd, ok := ctx.Ix.FindAVPByName(h.App, def.Name, def.Vendor)
					if !ok {
						return
					}
					trace = append(trace, fmt.Sprintf("NewAVP(%q)", def.Name))
					n.Code = rd.Code
					if kk, _ := refcodec.KindOf(rd.Type); kk != n.Kind {
						// the name resolves to another definition with another type: any
						// value may be attached by the caller; keep ours
						_ = kk
					}
					_, err = m.NewAVP(def.Name, n.Flags, n.Vendor, lib.FromNode(n))
					ref = append(ref, n)
				case 4:
					trace = append(trace, "NewAVP(unknown name)")
					before := len(m.AVP)
					_, e := m.NewAVP("No-Such-AVP-Name", n.Flags, 0, lib.FromNode(n))
					if e == nil || len(m.AVP) != before {
						err = fmt.Errorf("NewAVP with an unknown name: err=%v, %d AVPs before, %d after", e, before, len(m.AVP))
					}
				case 5:
					trace = append(trace, fmt.Sprintf("AddAVP(%d)", n.Code))
					m.AddAVP(diam.NewAVP(n.Code, n.Flags, n.Vendor, lib.FromNode(n)))
					ref = append(ref, n)
				case 6:
					trace = append(trace, fmt.Sprintf("InsertAVP(%d)", n.Code))
					m.InsertAVP(diam.NewAVP(n.Code, n.Flags, n.Vendor, lib.FromNode(n)))
					ref = append([]*refcodec.Node{n}, ref...)
				case 7:
					if ctx.Name != "gen" || h.App != 0 {
						return
					}
					src := &c02Marshal{Oct: datatype.OctetString(randStr(r, r.IntN(9))), U64: r.Uint64(), G2: c02Inner{U: r.Uint32()}}
					for i := r.IntN(3); i > 0; i-- {
						src.S = append(src.S, string(randASCII(r, r.IntN(7))))
					}
					trace = append(trace, fmt.Sprintf("Marshal(%+v)", *src))
					err = m.Marshal(src)
					ref = nil
					ref = append(ref, &refcodec.Node{Code: 9001, Flags: 0x40, Kind: refcodec.OctetString, B: []byte(src.Oct)})
					for _, s := range src.S {
						ref = append(ref, &refcodec.Node{Code: 9002, Flags: 0x40, Kind: refcodec.UTF8String, B: []byte(s)})
					}
					ref = append(ref, &refcodec.Node{Code: 9010, Flags: 0x40, Kind: refcodec.Unsigned64, U: src.U64})
					ref = append(ref, &refcodec.Node{Code: 9019, Flags: 0x40, Kind: refcodec.Grouped, Kids: []*refcodec.Node{
						{Code: 9009, Flags: 0x40, Kind: refcodec.Unsigned32, U: uint64(src.G2.U)}}})
				case 8:
					// a Marshal the library refuses: the message keeps what it carried
					var e error
					switch which := r.IntN(4); which {
					case 0:
						trace = append(trace, "Marshal(refused: unknown AVP name in a tag)")
						e = m.Marshal(&struct {
							A uint32 `avp:"No-Such-AVP-Name"`
						}{A: r.Uint32()})
					case 1:
						trace = append(trace, "Marshal(refused: pointer to a non-struct)")
						x := r.Uint32()
						e = m.Marshal(&x)
					case 2:
						trace = append(trace, "Marshal(refused: not a pointer)")
						e = m.Marshal(struct{}{})
					case 3:
						trace = append(trace, "Marshal(refused: unknown AVP name after a good field)")
						e = m.Marshal(&struct {
							H datatype.DiameterIdentity `avp:"Origin-Host"`
							A uint32                    `avp:"No-Such-AVP-Name"`
						}{H: "h.example", A: 1})
					}
					if e == nil {
						err = fmt.Errorf("a Marshal that cannot be carried out returned no error")
					}
				case 9:
					// a group assembled top-down: the inner group is put into the outer
					// one first and filled afterwards, then the outer one joins the message
					trace = append(trace, "NewAVP(group filled after it was nested)")
					inner := &diam.GroupedAVP{}
					outer := &diam.GroupedAVP{}
					oc, ic := 70000+r.Uint32N(1000), 71000+r.Uint32N(1000)
					pre := &refcodec.Node{Code: 72000, Flags: 0x40, Kind: refcodec.OctetString, B: randASCII(r, r.IntN(6))}
					if r.IntN(2) == 0 {
						outer.AddAVP(diam.NewAVP(pre.Code, pre.Flags, 0, datatype.OctetString(pre.B)))
					} else {
						pre = nil
					}
					outer.AddAVP(diam.NewAVP(ic, 0x40, 0, inner))
					in := &refcodec.Node{Code: ic, Flags: 0x40, Kind: refcodec.Grouped}
					for k := 1 + r.IntN(3); k > 0; k-- {
						leaf := &refcodec.Node{Code: 73000 + r.Uint32N(10), Flags: 0x40, Kind: refcodec.OctetString, B: randASCII(r, r.IntN(9))}
						inner.AddAVP(diam.NewAVP(leaf.Code, leaf.Flags, 0, datatype.OctetString(leaf.B)))
						in.Kids = append(in.Kids, leaf)
					}
					on := &refcodec.Node{Code: oc, Flags: 0x40, Kind: refcodec.Grouped}
					if pre != nil {
						on.Kids = append(on.Kids, pre)
					}
					on.Kids = append(on.Kids, in)
					if r.IntN(2) == 0 {
						_, err = m.NewAVP(oc, 0x40, 0, outer)
					} else {
						m.AddAVP(diam.NewAVP(oc, 0x40, 0, outer))
					}
					ref = append(ref, on)
				case 10:
					// a member added to a group that has already joined the message (the
					// message cannot know): what is emitted is still the image of what the
					// message holds now, its length field included. Header.MessageLength is
					// not brought up to date by this (it is by NewAVP / AddAVP / InsertAVP /
					// Marshal on the message), so that comparison ends here for this message.
					trace = append(trace, "NewAVP(group), then a member added to the group")
					grp := &diam.GroupedAVP{}
					gc := 74000 + r.Uint32N(1000)
					if _, err = m.NewAVP(gc, 0x40, 0, grp); err != nil {
						return
					}
					gn := &refcodec.Node{Code: gc, Flags: 0x40, Kind: refcodec.Grouped}
					for k := 1 + r.IntN(2); k > 0; k-- {
						leaf := &refcodec.Node{Code: 75000 + r.Uint32N(10), Flags: 0x40, Kind: refcodec.OctetString, B: randASCII(r, r.IntN(9))}
						grp.AddAVP(diam.NewAVP(leaf.Code, leaf.Flags, 0, datatype.OctetString(leaf.B)))
						gn.Kids = append(gn.Kids, leaf)
					}
					ref = append(ref, gn)
					lateMember = true
				}
			})
			if len(trace) == 0 {
				continue
			}
			c.Class("op=%d/%s", op, ctx.Name)
			sig := ev.Sig{"op": "ops-sequence", "step": trace[len(trace)-1][:strings.IndexAny(trace[len(trace)-1]+"(", "(")]}
			if bad {
				c.Fail(sig, nil, trace, "operation panicked: %s", p)
				return
			}
			if err != nil {
				c.Fail(sig, nil, trace, "operation failed: %v", err)
				return
			}
			var wire []byte
			if p, bad := guard(func() { wire, err = m.Serialize() }); bad || err != nil {
				c.Fail(sig, nil, trace, "Serialize after %v: err=%v %s", trace, err, p)
				return
			}
			if (!lateMember && int(m.Header.MessageLength) != len(wire)) || m.Len() != len(wire) {
				c.Fail(ev.Sig{"op": "length-bookkeeping", "step": sig["step"]}, wire, trace, "after %v: Header.MessageLength=%d, Len()=%d, serialised size=%d", trace, m.Header.MessageLength, m.Len(), len(wire))
				return
			}
			want := refcodec.EncodeMessage(h, ref)
			if !bytes.Equal(wire, want) {
				c.Fail(ev.Sig{"op": "ops-bytes", "step": sig["step"]}, want, map[string]any{"trace": trace, "lib": ev.Hex(wire)}, "after %v the serialisation differs from the reference at byte %d", trace, firstDiff(wire, want))
				return
			}
			c.Event("ops_steps_checked", 1)
			lastWant = want
		}
		// the bytes that reach a transport which interrupts the emission: each attempt
		// accepts part of what it is offered and reports a temporary error, within the
		// retry budget; what arrived in total must be the reference image, once
		if lastWant != nil {
			fw := &faultyWriter{}
			for k := r.IntN(4); k > 0; k-- {
				fw.plan = append(fw.plan, r.IntN(len(lastWant)+1))
			}
			retries := uint(len(fw.plan) + r.IntN(2))
			var nn int64
			var err error
			if p, bad := guard(func() { nn, err = m.WriteToWithRetry(fw, retries) }); bad {
				c.Fail(ev.Sig{"op": "emit-interrupted", "how": "panic"}, lastWant, map[string]any{"accepted_per_attempt": fw.plan}, "WriteToWithRetry(retries=%d) panicked on a transport accepting %v bytes per interrupted attempt: %s", retries, fw.plan, p)
				return
			}
			if err != nil || int(nn) != len(lastWant) || !bytes.Equal(fw.got, lastWant) {
				c.Fail(ev.Sig{"op": "emit-interrupted", "how": "bytes"}, lastWant, map[string]any{"accepted_per_attempt": fw.plan, "arrived": ev.Hex(fw.got)},
					"WriteToWithRetry(retries=%d) on a transport accepting %v bytes per interrupted attempt: n=%d err=%v, %d bytes arrived, first difference from the reference image at %d", retries, fw.plan, nn, err, len(fw.got), firstDiff(fw.got, lastWant))
				return
			}
			c.Event("interrupted_emissions_checked", 1)
		}
	})
}

// faultyWriter accepts plan[i] bytes of the i-th attempt and reports a temporary
// error; once the plan is used up it accepts everything.
type faultyWriter struct {
	plan []int
	i    int
	got  []byte
}

func (w *faultyWriter) Write(b []byte) (int, error) {
	if w.i < len(w.plan) {
		k := min(w.plan[w.i], len(b))
		w.i++
		w.got = append(w.got, b[:k]...)
		if k == len(b) {
			return k, nil
		}
		return k, &memnet.TempError{Msg: "temporary transport error"}
	}
	w.got = append(w.got, b...)
	return len(b), nil
}

func randStr(r interface{ Uint32() uint32 }, n int) string {
	b := make([]byte, n)
	for i := range b {
		b[i] = byte(r.Uint32())
	}
	return string(b)
}

func randASCII(r interface{ IntN(int) int }, n int) []byte {
	b := make([]byte, n)
	for i := range b {
		b[i] = byte('a' + r.IntN(26))
	}
	return b
}

var _ = refdict.AnyVendor

// ---------------------------------------------------------------------------
// Sweeps

func TestC02Sweeps(t *testing.T) {
	rec := ev.Open(t, "C02")
	defer rec.Close()
	ctx := genCtx(t)

	// 1. all 2^24 message lengths and command codes through Header.Serialize / DecodeHeader
	rec.Suite("sweep-header-24bit", 256, func(c *ev.Case) {
		c.Class("sweep/header-length-24bit")
		c.Class("sweep/header-command-24bit")
		for v := uint32(c.I) << 16; v < uint32(c.I+1)<<16; v++ {
			h := diam.Header{Version: 1, MessageLength: v, CommandFlags: byte(v), CommandCode: v ^ 0xABCDEF&0xFFFFFF, ApplicationID: v * 2654435761, HopByHopID: ^v, EndToEndID: v}
			h.CommandCode &= 0xFFFFFF
			b := h.Serialize()
			want := refcodec.EncodeHeader(refcodec.Header{Version: 1, Length: v, Flags: byte(v), Code: h.CommandCode, App: h.ApplicationID, HopByHop: h.HopByHopID, EndToEnd: h.EndToEndID})
			if !bytes.Equal(b, want) {
				c.Fail(ev.Sig{"op": "sweep-header-encode"}, want, ev.Hex(b), "Header.Serialize for length %d / command %d differs from the reference", v, h.CommandCode)
				return
			}
			d, err := diam.DecodeHeader(want)
			if err != nil || *d != h {
				c.Fail(ev.Sig{"op": "sweep-header-decode"}, want, nil, "DecodeHeader: %+v err=%v, want %+v", d, err, h)
				return
			}
		}
		c.Event("header_values_swept", 1<<16)
	})
	rec.Exhaustive("sweep-header-24bit")

	// 2. all 2^24 AVP length values: the decoded Length of a bare AVP header
	rec.Suite("sweep-avp-length-24bit", 256, func(c *ev.Case) {
		c.Class("sweep/avp-length-24bit")
		hdr := make([]byte, 8)
		binary.BigEndian.PutUint32(hdr, 9001)
		for v := uint32(c.I) << 16; v < uint32(c.I+1)<<16; v++ {
			hdr[4] = 0x40
			hdr[5], hdr[6], hdr[7] = byte(v>>16), byte(v>>8), byte(v)
			a, err := diam.DecodeAVP(hdr, 0, ctx.Parser)
			if a == nil {
				c.Fail(ev.Sig{"op": "sweep-avp-length"}, hdr, nil, "DecodeAVP returned a nil AVP for declared length %d (err=%v)", v, err)
				return
			}
			if a.Length != int(v) {
				c.Fail(ev.Sig{"op": "sweep-avp-length"}, hdr, nil, "declared length %d decoded as %d", v, a.Length)
				return
			}
			if v == 8 && err != nil {
				c.Fail(ev.Sig{"op": "sweep-avp-length"}, hdr, nil, "bare AVP of length 8: %v", err)
				return
			}
			if v != 8 && err == nil {
				c.Fail(ev.Sig{"op": "sweep-avp-length"}, hdr, nil, "8 bytes of data accepted for declared length %d", v)
				return
			}
		}
		c.Event("avp_lengths_swept", 1<<16)
	})
	rec.Exhaustive("sweep-avp-length-24bit")

	// 3. pad-to-4 and length arithmetic for every payload length 0..2^24-13 of
	//    every string-like type (one backing string, sliced: no allocation)
	big := strings.Repeat("x", 1<<24)
	bigB := []byte(big)
	mk := []struct {
		name string
		f    func(n int) datatype.Type
	}{
		{"OctetString", func(n int) datatype.Type { return datatype.OctetString(big[:n]) }},
		{"UTF8String", func(n int) datatype.Type { return datatype.UTF8String(big[:n]) }},
		{"DiameterIdentity", func(n int) datatype.Type { return datatype.DiameterIdentity(big[:n]) }},
		{"DiameterURI", func(n int) datatype.Type { return datatype.DiameterURI(big[:n]) }},
		{"IPFilterRule", func(n int) datatype.Type { return datatype.IPFilterRule(big[:n]) }},
		{"QoSFilterRule", func(n int) datatype.Type { return datatype.QoSFilterRule(big[:n]) }},
		{"Unknown", func(n int) datatype.Type { return datatype.Unknown(bigB[:n]) }},
	}
	rec.Suite("sweep-pad4", 256, func(c *ev.Case) {
		for _, t := range mk {
			c.Class("sweep/pad4/%s", t.name)
			for n := c.I << 16; n < (c.I+1)<<16 && n <= 1<<24-32; n++ {
				d := t.f(n)
				wantPad := (4 - n%4) % 4
				if d.Len() != n || d.Padding() != wantPad {
					c.Fail(ev.Sig{"op": "sweep-pad4", "type": t.name}, nil, nil, "%s of %d bytes: Len()=%d Padding()=%d, want %d and %d", t.name, n, d.Len(), d.Padding(), n, wantPad)
					return
				}
				hl := 8 + 4*(n&1)
				var vendor uint32
				if hl == 12 {
					vendor = 10415
				}
				a := diam.NewAVP(9001, 0x40, vendor, d)
				if a.Len() != hl+n+wantPad {
					c.Fail(ev.Sig{"op": "sweep-pad4", "type": t.name}, nil, nil, "AVP with %d-byte %s payload (vendor %d): Len()=%d, want %d", n, t.name, vendor, a.Len(), hl+n+wantPad)
					return
				}
			}
		}
		c.Event("pad4_lengths_swept", 7<<16)
	})
	rec.Exhaustive("sweep-pad4")

	// 3b. full encode of string payloads on a length grid up to the 24-bit limit
	grid := []int{0, 1, 2, 3, 4, 5, 1023, 1024, 1025, 65535, 65536, 65537, 1<<20 + 3, 1<<24 - 32, 1<<24 - 33, 1<<24 - 35}
	rec.Suite("grid-big-avp", len(grid), func(c *ev.Case) {
		n := grid[c.I]
		c.Class("grid/len=%d", n)
		node := &refcodec.Node{Code: 9001, Flags: 0x40, Kind: refcodec.OctetString, B: bigB[:n]}
		m := &gen.Msg{H: refcodec.Header{Version: 1, Flags: 0x80, Code: 8388000, HopByHop: 1, EndToEnd: 2}, Nodes: []*refcodec.Node{node}}
		codecCase(c, ctx, m, c.I, true, true, "")
	})

	// 4. every / sampled 32-bit payload of the six 4-byte types
	shards := 4096
	per := uint64(1<<32) / uint64(shards)
	full := !rec.Quick()
	types4 := []string{"Unsigned32", "Integer32", "Enumerated", "Float32", "Time", "IPv4"}
	rec.Suite("sweep-32bit-payloads", shards, func(c *ev.Case) {
		lo := uint64(c.I) * per
		step := uint64(1)
		if !full {
			step = 4099 // prime stride: ~256 values per shard and type, plus the shard edges
		}
		buf := make([]byte, 4)
		for _, tn := range types4 {
			c.Class("sweep/32bit/%s", tn)
		}
		check := func(w uint32) bool {
			binary.BigEndian.PutUint32(buf, w)
			for ti, tn := range types4 {
				var d datatype.Type
				var err error
				ok := true
				switch ti {
				case 0:
					d, err = datatype.DecodeUnsigned32(buf)
					ok = err == nil && d == datatype.Unsigned32(w)
				case 1:
					d, err = datatype.DecodeInteger32(buf)
					ok = err == nil && d == datatype.Integer32(int32(w))
				case 2:
					d, err = datatype.DecodeEnumerated(buf)
					ok = err == nil && d == datatype.Enumerated(int32(w))
				case 3:
					d, err = datatype.DecodeFloat32(buf)
					if err == nil {
						f, isF := d.(datatype.Float32)
						ok = isF && math.Float32bits(float32(f)) == w
					} else {
						ok = false
					}
				case 4:
					d, err = datatype.DecodeTime(buf)
					if err == nil {
						tv, isT := d.(datatype.Time)
						ok = isT && time.Time(tv).Unix() == refcodec.TimeFromWire(w)
					} else {
						ok = false
					}
				case 5:
					d, err = datatype.DecodeIPv4(buf)
					if err == nil {
						ip, isIP := d.(datatype.IPv4)
						ok = isIP && len(ip) == 4 && binary.BigEndian.Uint32(ip) == w
					} else {
						ok = false
					}
				}
				if !ok {
					c.Fail(ev.Sig{"op": "sweep-32bit-decode", "type": tn}, buf, nil, "%s payload %#08x decoded as %v (err=%v)", tn, w, d, err)
					return false
				}
				out := d.Serialize()
				if len(out) != 4 || binary.BigEndian.Uint32(out) != w || d.Len() != 4 || d.Padding() != 0 {
					c.Fail(ev.Sig{"op": "sweep-32bit-encode", "type": tn}, buf, nil, "%s payload %#08x re-encoded as %x (Len %d, Padding %d)", tn, w, out, d.Len(), d.Padding())
					return false
				}
			}
			return true
		}
		cnt := 0
		for v := lo; v < lo+per; v += step {
			if !check(uint32(v)) {
				return
			}
			cnt++
		}
		if !full {
			if !check(uint32(lo+per-1)) || !check(uint32(lo)) {
				return
			}
		}
		c.Event("payloads32_checked", cnt*6)
	})
	if full {
		rec.Exhaustive("sweep-32bit-payloads")
	}

	// 5. 64-bit types: boundaries and random values
	rec.Suite("sample-64bit-payloads", rec.N(64, 4096), func(c *ev.Case) {
		c.Class("sample/64bit")
		buf := make([]byte, 8)
		vals := []uint64{0, 1, math.MaxUint64, 1 << 63, 1<<63 - 1, 1 << 32, 0x7ff0000000000000, 0x7ff8000000000001, 0xfff0000000000000, 0x8000000000000000}
		for i := 0; i < 4096; i++ {
			var w uint64
			if c.I == 0 && i < len(vals) {
				w = vals[i]
			} else {
				w = c.R.Uint64()
			}
			binary.BigEndian.PutUint64(buf, w)
			u, _ := datatype.DecodeUnsigned64(buf)
			s, _ := datatype.DecodeInteger64(buf)
			f, _ := datatype.DecodeFloat64(buf)
			ff, _ := f.(datatype.Float64)
			if u != datatype.Unsigned64(w) || s != datatype.Integer64(int64(w)) || math.Float64bits(float64(ff)) != w {
				c.Fail(ev.Sig{"op": "sample-64bit-decode"}, buf, nil, "payload %#016x decoded as %v / %v / %v", w, u, s, f)
				return
			}
			for _, d := range []datatype.Type{u, s, f} {
				if o := d.Serialize(); len(o) != 8 || binary.BigEndian.Uint64(o) != w || d.Len() != 8 || d.Padding() != 0 {
					c.Fail(ev.Sig{"op": "sample-64bit-encode"}, buf, nil, "%T payload %#016x re-encoded as %x", d, w, o)
					return
				}
			}
		}
		c.Event("payloads64_checked", 4096*3)
	})
}
