package props

import (
	"fmt"
	"sort"
	"sync"
	"testing"
	"testing/synctest"
	"time"

	"github.com/fiorix/go-diameter/v4/diam"
	"github.com/fiorix/go-diameter/v4/diam/datatype"
	"github.com/fiorix/go-diameter/v4/diam/sm"

	"verifharness/ev"
	"verifharness/lib"
	"verifharness/memnet"
	"verifharness/peer"
	"verifharness/refcodec"
)

// peer message alphabet
const (
	pCERok = iota
	pCERbad
	pCERretx
	pDWR
	pReqA  // Accounting request, application 3: handler registered by short name "ACR"
	pReqB  // Credit-Control request, application 4: handler registered by index
	pAns   // Credit-Control answer: only the catch-all applies
	pUnreg // Session-Termination request: only the catch-all applies
	nPeerMsgs
	// only in random sequences: base commands under a non-zero application id
	// (dispatched by short name because no index is registered for them)
	pCERokApp = nPeerMsgs
	pDWRApp   = nPeerMsgs + 1
)

var pNames = []string{"CER-ok", "CER-bad", "CER-retx", "DWR", "ReqA(name)", "ReqB(index)", "Answer", "Unregistered", "CER-ok(app 4)", "DWR(app 4)"}

func c10Wire(kind int, hbh uint32) []byte {
	sess := peer.Str(peer.SessionID, refcodec.UTF8String, "s;1")
	switch kind {
	case pCERok, pCERretx:
		return peer.StdCER(hbh, hbh, 4)
	case pCERbad:
		// the ways a CER can be unacceptable rotate with the identifier
		switch hbh % 7 {
		case 5: // acceptable but for the missing Origin-Host
			b := peer.StdCER(hbh, hbh, 4)
			return cutAVP(b, peer.OriginHost)
		case 6: // acceptable but for the missing Origin-Realm
			b := peer.StdCER(hbh, hbh, 4)
			return cutAVP(b, peer.OriginRealm)
		case 1: // the application only inside a Vendor-Specific-Application-Id, Vendor-Id first, unsupported
			return peer.CERWith(hbh, hbh, peer.Group(peer.VSApp, peer.U32(peer.VendorID, 10415), peer.U32(peer.AuthApp, 99999)))
		case 2: // a Vendor-Specific-Application-Id without any application id
			return peer.CERWith(hbh, hbh, peer.Group(peer.VSApp, peer.U32(peer.VendorID, 10415)))
		case 3: // no application at all
			return peer.CERWith(hbh, hbh)
		case 4: // a supported application, but in-band security required
			return peer.CERWith(hbh, hbh, peer.U32(peer.AuthApp, 4), peer.U32(peer.InbandSec, 1))
		}
		return peer.StdCER(hbh, hbh, 999)
	case pDWR:
		if (int(hbh)+c10Dress)%3 != 0 {
			// with the optional Origin-State-Id, growing from one DWR to the next (identifiers grow
			// along the sequence): a peer that restarted, nothing more
			return peer.Msg(0x80, peer.CodeDW, 0, hbh, hbh, append(peer.Identity("peer.example", "example"), peer.U32(peer.OriginState, hbh))...)
		}
		return peer.DWR(hbh, hbh)
	case pCERokApp:
		b := peer.StdCER(hbh, hbh, 4)
		b[11] = 4 // application id 4
		return b
	case pDWRApp:
		b := peer.DWR(hbh, hbh)
		b[11] = 4
		return b
	case pReqA:
		return c10App(true, 271, 3, hbh, sess)
	case pReqB:
		return c10App(true, 272, 4, hbh, sess)
	case pAns:
		return c10App(false, 272, 4, hbh, sess, peer.U32(peer.ResultCode, 2001))
	default:
		// a base request nobody registered a handler for (catch-all only): Session-Termination,
		// Disconnect-Peer, Abort-Session or Re-Auth in turn - gated like every other message
		return c10App(true, []uint32{275, 282, 274, 258}[(int(hbh)+c10Dress/3)%4], 0, hbh, sess)
	}
}

// c10Dress is set per case (from the case index): together with the identifier it decides
// which optional AVPs and header flags an application message carries.
var c10Dress int

// c10App builds an application message.  What it carries besides the Session-Id rotates:
// nothing; the adjacent peer's own Origin-Host; the Origin-Host of a node behind the peer
// (what every relay or proxy forwards, RFC 6733 6.3) with Route-Record; routing AVPs and a
// Proxy-Info group; undefined and vendor-specific AVPs; the receiver's own identity.  The
// P, T and E header bits rotate too.  None of this may influence whether the handler runs.
func c10App(request bool, code, app, hbh uint32, avps ...*refcodec.Node) []byte {
	d := int(hbh) + c10Dress
	id := func(code uint32, v string) *refcodec.Node { return peer.Str(code, refcodec.DiameterIdentity, v) }
	switch d % 7 {
	case 1:
		avps = append(avps, id(peer.OriginHost, "peer.example"), id(peer.OriginRealm, "example"))
	case 2:
		avps = append(avps, id(peer.OriginHost, "client7.far.example"), id(peer.OriginRealm, "far.example"), id(282, "relay1.example"))
	case 3:
		avps = append(avps, id(peer.OriginHost, "mme.visited.example"), id(peer.OriginRealm, "visited.example"), id(293, "srv.local"), id(283, "realm.local"),
			peer.Group(284, id(280, "proxy.example"), peer.Str(33, refcodec.OctetString, "state")))
	case 4:
		u := &refcodec.Node{Code: 0x00E00123, Flags: 0, Kind: refcodec.Unknown, B: []byte{1, 2, 3, 4, 5}}
		v := &refcodec.Node{Code: 0x00E00124, Flags: 0x80, Vendor: 4242, Kind: refcodec.Unknown, B: []byte("vendor")}
		avps = append([]*refcodec.Node{u}, append(avps, v)...)
	case 5:
		avps = append(avps, id(peer.OriginHost, "srv.example"), id(peer.OriginRealm, "example"))
	case 6:
		avps = append(avps, id(peer.OriginHost, "srv.local"), id(peer.OriginRealm, "realm.local"))
	}
	var flags uint8
	if request {
		flags = []uint8{0xC0, 0x80, 0xD0, 0x90}[(d/7)%4]
	} else {
		flags = []uint8{0x40, 0x00, 0x60, 0x20}[(d/7)%4]
	}
	return peer.Msg(flags, code, app, hbh, hbh, avps...)
}

// cutAVP removes the first top-level AVP with the given code from a message image.
func cutAVP(msg []byte, code uint32) []byte {
	recs, _, err := refcodec.Frame(msg[20:])
	if err != nil {
		return msg
	}
	for _, r := range recs {
		if r.Code == code {
			end := 20 + r.Off + (int(r.Length)+3)&^3
			out := append(append([]byte(nil), msg[:20+r.Off]...), msg[end:]...)
			out[1], out[2], out[3] = byte(len(out)>>16), byte(len(out)>>8), byte(len(out))
			return out
		}
	}
	return msg
}

type hlog struct {
	mu      sync.Mutex
	entries []string
	refused int
}

func (l *hlog) add(key string, m *diam.Message) {
	l.mu.Lock()
	l.entries = append(l.entries, fmt.Sprintf("%s:%d", key, m.Header.HopByHopID))
	l.mu.Unlock()
}
func (l *hlog) snapshot() []string {
	l.mu.Lock()
	defer l.mu.Unlock()
	return append([]string(nil), l.entries...)
}

// instrument registers the application's handlers on a state machine and tries
// to replace the built-in ones.
func instrument(machine *sm.StateMachine, l *hlog, allByIdx bool) {
	h := func(key string) diam.HandlerFunc {
		return func(_ diam.Conn, m *diam.Message) { l.add(key, m) }
	}
	if allByIdx {
		// the application subscribed to handshake notifications once and does not read them
		_ = machine.HandshakeNotify()
	}
	machine.HandleFunc("ACR", h("name"))
	machine.HandleIdx(diam.CommandIndex{AppID: 4, Code: 272, Request: true}, h("index"))
	if allByIdx {
		machine.HandleIdx(diam.ALL_CMD_INDEX, h("all"))
	} else {
		machine.HandleFunc("ALL", h("all"))
	}
	spy := func(_ diam.Conn, m *diam.Message) {
		l.mu.Lock()
		l.refused++
		l.mu.Unlock()
	}
	for _, n := range []string{"CER", "CEA", "DWR"} {
		machine.HandleFunc(n, spy)
		select {
		case <-machine.ErrorReports():
		default:
		}
	}
	for _, idx := range []diam.CommandIndex{{AppID: 0, Code: 257, Request: true}, {AppID: 0, Code: 257, Request: false}, {AppID: 0, Code: 280, Request: true},
		// the same commands under the id of an application (peers send CERs and DWRs with such headers)
		{AppID: 4, Code: 257, Request: true}, {AppID: 4, Code: 257, Request: false}, {AppID: 4, Code: 280, Request: true}} {
		machine.HandleIdx(idx, diam.HandlerFunc(spy))
		select {
		case <-machine.ErrorReports():
		default:
		}
	}
}

func appKey(kind int) string {
	switch kind {
	case pReqA:
		return "name"
	case pReqB:
		return "index"
	default:
		return "all"
	}
}

// runC10Several: several peers on one state machine, one after the other: a peer whose CER is
// acceptable, then a peer whose CER is unacceptable in way `bad` (c10Wire rotates the ways with
// the identifier), then another acceptable one.  What the first peer presented must not help the
// second: its application messages never reach a handler and it gets a failure CEA; the third
// peer is served as usual.
func runC10Several(c *ev.Case, ctx *lib.Ctx, bad int, allByIdx bool, goodFirst int) {
	sig := func(op string) ev.Sig { return ev.Sig{"op": op, "role": "server", "suite": "several-peers"} }
	settings := &sm.Settings{OriginHost: "srv.local", OriginRealm: "realm.local", VendorID: 13, ProductName: "verif",
		HostIPAddresses: []datatype.Address{datatype.Address([]byte{192, 0, 2, 1})}}
	machine := sm.New(settings)
	l := &hlog{}
	instrument(machine, l, allByIdx)
	ln := memnet.NewListener()
	srv := &diam.Server{Handler: machine, Dict: ctx.Parser}
	go srv.Serve(ln)
	var conns []*memnet.Conn
	open := func(i int) *memnet.Conn {
		mc := memnet.NewConn()
		mc.Remote = memnet.Addr{Net: "tcp", Str: fmt.Sprintf("10.0.0.%d:4000", i+1)}
		conns = append(conns, mc)
		ln.Offer(mc)
		return mc
	}
	defer func() {
		for _, mc := range conns {
			mc.FeedEOF()
		}
		ln.Close()
		synctest.Wait()
	}()
	var want []string
	next := uint32(7000)
	good := func(i int) bool {
		mc := open(i)
		cer := next
		mc.Feed(c10Wire(pCERok, cer))
		next++
		for _, k := range []int{pReqA, pReqB, pUnreg} {
			mc.Feed(c10Wire(k, next))
			want = append(want, fmt.Sprintf("%s:%d", appKey(k), next))
			next++
		}
		synctest.Wait()
		msgs, _ := peer.SplitMessages(mc.Written())
		if len(msgs) != 1 || len(peer.FindU32(msgs[0], peer.ResultCode)) != 1 || peer.FindU32(msgs[0], peer.ResultCode)[0] != 2001 || mc.CloseCount() != 0 {
			c.Fail(sig("good-peer-refused"), nil, nil, "peer %d sent an acceptable CER and three requests: %d messages written back, closed %d times", i, len(msgs), mc.CloseCount())
			return false
		}
		return true
	}
	for i := 0; i < goodFirst; i++ {
		if !good(i) {
			return
		}
	}
	// the unacceptable one
	mc := open(goodFirst)
	hbh := next + uint32(7+bad) - next%7 // hbh % 7 == bad
	next = hbh + 1
	cer := c10Wire(pCERbad, hbh)
	mc.Feed(cer)
	var gated []uint32
	for _, k := range []int{pReqA, pReqB, pUnreg, pAns} {
		mc.Feed(c10Wire(k, next))
		gated = append(gated, next)
		next++
	}
	synctest.Wait()
	msgs, _ := peer.SplitMessages(mc.Written())
	if len(msgs) != 1 || peer.Header(msgs[0]).Code != 257 {
		c.Fail(sig("cea-count"), cer, nil, "an unacceptable CER (way %d) from the peer after %d accepted ones: %d messages written back", bad, goodFirst, len(msgs))
		return
	}
	if rc := peer.FindU32(msgs[0], peer.ResultCode); len(rc) != 1 || rc[0] == 2001 {
		c.Fail(sig("accepted-unacceptable-cer"), cer, nil, "an unacceptable CER (way %d) was answered with Result-Code %v after %d other peers had completed their handshakes on the same state machine", bad, rc, goodFirst)
		return
	}
	if mc.CloseCount() == 0 {
		c.Fail(sig("not-closed-after-failure"), cer, nil, "the connection of the refused peer (way %d) was not closed", bad)
		return
	}
	c.Event("gated_messages", len(gated))
	if !good(goodFirst + 1) {
		return
	}
	got := l.snapshot()
	sort.Strings(got)
	w := append([]string(nil), want...)
	sort.Strings(w)
	if fmt.Sprint(got) != fmt.Sprint(w) {
		c.Fail(sig("handler-log-differs"), nil, nil, "application handlers ran for %v, expected exactly the requests of the accepted peers %v (the refused peer, way %d, sent %v)", got, w, bad, gated)
		return
	}
	c.Event("app_invocations", len(got))
	c.Event("server_sequences", 1)
}

// runC10AtOnce: K peers that have completed the capabilities exchange on one state machine send
// bursts of different application messages at the same moment: every message reaches exactly
// the handler that the dispatch rule selects for it, once.
func runC10AtOnce(c *ev.Case, ctx *lib.Ctx, K, per int, allByIdx bool) {
	sig := func(op string) ev.Sig { return ev.Sig{"op": op, "role": "server", "suite": "peers-at-once"} }
	settings := &sm.Settings{OriginHost: "srv.local", OriginRealm: "realm.local", VendorID: 13, ProductName: "verif",
		HostIPAddresses: []datatype.Address{datatype.Address([]byte{192, 0, 2, 1})}}
	machine := sm.New(settings)
	l := &hlog{}
	instrument(machine, l, allByIdx)
	ln := memnet.NewListener()
	srv := &diam.Server{Handler: machine, Dict: ctx.Parser}
	go srv.Serve(ln)
	conns := make([]*memnet.Conn, K)
	for i := range conns {
		conns[i] = memnet.NewConn()
		conns[i].Remote = memnet.Addr{Net: "tcp", Str: fmt.Sprintf("10.0.0.%d:4100", i+1)}
		ln.Offer(conns[i])
		conns[i].Feed(c10Wire(pCERok, uint32(9000+i)))
	}
	synctest.Wait()
	defer func() {
		for _, mc := range conns {
			mc.FeedEOF()
		}
		ln.Close()
		synctest.Wait()
	}()
	kinds := []int{pReqA, pReqB, pAns, pUnreg, pDWR}
	var want []string
	bursts := make([][]byte, K)
	for i := range conns {
		for k := 0; k < per; k++ {
			kind := kinds[(i+k*(i+1))%len(kinds)]
			hbh := uint32(20000 + i*1000 + k)
			bursts[i] = append(bursts[i], c10Wire(kind, hbh)...)
			if kind != pDWR {
				want = append(want, fmt.Sprintf("%s:%d", appKey(kind), hbh))
			}
		}
	}
	for i, mc := range conns {
		mc.Feed(bursts[i])
	}
	synctest.Wait()
	got := l.snapshot()
	sort.Strings(got)
	sort.Strings(want)
	if fmt.Sprint(got) != fmt.Sprint(want) {
		missing, extra := diffSorted(want, got)
		c.Fail(sig("handler-log-differs"), nil, nil, "%d handshaken peers sent %d messages each at the same moment: %d expected handler invocations did not happen (e.g. %v), %d unexpected ones did (e.g. %v)", K, per, len(missing), head(missing), len(extra), head(extra))
		return
	}
	c.Event("app_invocations", len(got))
	c.Event("server_sequences", 1)
}

func diffSorted(want, got []string) (missing, extra []string) {
	w := map[string]int{}
	for _, s := range want {
		w[s]++
	}
	for _, s := range got {
		if w[s] > 0 {
			w[s]--
		} else {
			extra = append(extra, s)
		}
	}
	for s, n := range w {
		for ; n > 0; n-- {
			missing = append(missing, s)
		}
	}
	return
}

func head(s []string) []string {
	if len(s) > 3 {
		return s[:3]
	}
	return s
}

// runC10BaseWithinApp: the application registers an index for {0, STR, request} and a catch-all.
// After the handshake a Session-Termination request with application id 0 goes to the index
// handler, the same command sent under application 4 (no index, no name registered for it) to
// the catch-all - an index names an application id, it is not a fallback for the others.
func runC10BaseWithinApp(c *ev.Case, ctx *lib.Ctx, allByIdx bool) {
	sig := func(op string) ev.Sig {
		return ev.Sig{"op": op, "role": "server", "suite": "base-command-within-application"}
	}
	machine := sm.New(&sm.Settings{OriginHost: "srv.local", OriginRealm: "realm.local", VendorID: 13, ProductName: "verif",
		HostIPAddresses: []datatype.Address{datatype.Address([]byte{192, 0, 2, 1})}})
	l := &hlog{}
	h := func(key string) diam.HandlerFunc {
		return func(_ diam.Conn, m *diam.Message) { l.add(key, m) }
	}
	machine.HandleIdx(diam.CommandIndex{AppID: 0, Code: 275, Request: true}, h("idx0"))
	machine.HandleIdx(diam.CommandIndex{AppID: 0, Code: 258, Request: true}, h("idx0"))
	if allByIdx {
		machine.HandleIdx(diam.ALL_CMD_INDEX, h("all"))
	} else {
		machine.HandleFunc("ALL", h("all"))
	}
	mc := memnet.NewConn()
	ln := memnet.NewListener()
	srv := &diam.Server{Handler: machine, Dict: ctx.Parser}
	go srv.Serve(ln)
	ln.Offer(mc)
	defer func() {
		mc.FeedEOF()
		ln.Close()
		synctest.Wait()
	}()
	sess := peer.Str(peer.SessionID, refcodec.UTF8String, "s;1")
	mc.Feed(peer.StdCER(1, 1, 4))
	mc.Feed(peer.Msg(0xC0, 275, 0, 11, 11, sess))
	mc.Feed(peer.Msg(0xC0, 275, 4, 12, 12, sess))
	mc.Feed(peer.Msg(0xC0, 258, 4, 13, 13, sess))
	mc.Feed(peer.Msg(0xC0, 258, 0, 14, 14, sess))
	mc.Feed(peer.Msg(0xC0, 274, 4, 15, 15, sess))
	synctest.Wait()
	got := fmt.Sprint(l.snapshot())
	if want := "[idx0:11 all:12 all:13 idx0:14 all:15]"; got != want {
		c.Fail(sig("handler-log-differs"), nil, nil, "handlers registered for index {0,275,request}, {0,258,request} and as catch-all; STR(app 0), STR(app 4), RAR(app 4), RAR(app 0), ASR(app 4) after the handshake: handler invocations %s, expected %s", got, want)
		return
	}
	c.Event("app_invocations", 5)
	c.Event("server_sequences", 1)
}

func runC10Server(c *ev.Case, ctx *lib.Ctx, seq []int, oneSegment bool, allByIdx bool) {
	settings := &sm.Settings{OriginHost: "srv.local", OriginRealm: "realm.local", VendorID: 13, ProductName: "verif",
		HostIPAddresses: []datatype.Address{datatype.Address([]byte{192, 0, 2, 1})}}
	machine := sm.New(settings)
	l := &hlog{}
	instrument(machine, l, allByIdx)
	mc := memnet.NewConn()
	ln := memnet.NewListener()
	srv := &diam.Server{Handler: machine, Dict: ctx.Parser}
	go srv.Serve(ln)
	ln.Offer(mc)
	defer func() {
		mc.FeedEOF()
		ln.Close()
		synctest.Wait()
	}()
	// reference gate
	state := "pre"
	var want []string
	wantCEAok, wantCEAbad, wantDWAmin := 0, 0, 0
	var stream []byte
	for i, k := range seq {
		hbh := uint32(100 + i)
		w := c10Wire(k, hbh)
		stream = append(stream, w...)
		switch state {
		case "pre":
			switch k {
			case pCERok, pCERretx, pCERokApp:
				state = "ok"
				wantCEAok++
			case pCERbad:
				state = "closed"
				wantCEAbad++
			}
		case "ok":
			switch k {
			case pReqA, pReqB, pAns, pUnreg:
				want = append(want, fmt.Sprintf("%s:%d", appKey(k), hbh))
			case pDWR, pDWRApp:
				wantDWAmin++
			}
		}
		if !oneSegment {
			mc.Feed(w)
			synctest.Wait()
		}
	}
	if oneSegment {
		mc.Feed(stream)
		synctest.Wait()
	}
	desc := func() string {
		s := ""
		for i, k := range seq {
			if i > 0 {
				s += " "
			}
			s += pNames[k]
		}
		return fmt.Sprintf("peer sequence [%s], one segment=%v, catch-all by index=%v", s, oneSegment, allByIdx)
	}
	sig := func(op string) ev.Sig { return ev.Sig{"op": op, "role": "server", "one_segment": oneSegment} }
	got := l.snapshot()
	if fmt.Sprint(got) != fmt.Sprint(want) {
		op := "handler-log-differs"
		if len(got) > len(want) {
			op = "handler-ran-outside-handshake"
		}
		c.Fail(sig(op), stream, nil, "application handler invocations %v, the reference gate allows exactly %v; %s", got, want, desc())
		return
	}
	l.mu.Lock()
	refused := l.refused
	l.mu.Unlock()
	if refused != 0 {
		c.Fail(sig("builtin-replaced"), stream, nil, "a handler registered for CER/CEA/DWR by the application was invoked %d times; %s", refused, desc())
		return
	}
	// built-in processing still there: CEA / DWA on the transport
	msgs, rest := peer.SplitMessages(mc.Written())
	okCEA, badCEA, dwa := 0, 0, 0
	for _, m := range msgs {
		h := peer.Header(m)
		rc := peer.FindU32(m, peer.ResultCode)
		switch {
		case h.Code == 257 && h.Flags&0x80 == 0 && len(rc) == 1 && rc[0] == 2001:
			okCEA++
		case h.Code == 257 && h.Flags&0x80 == 0:
			badCEA++
		case h.Code == 280 && h.Flags&0x80 == 0 && len(rc) == 1 && rc[0] == 2001:
			dwa++
		}
	}
	if len(rest) != 0 || okCEA != wantCEAok || badCEA != wantCEAbad || dwa < wantDWAmin {
		c.Fail(sig("builtin-answers"), stream, nil, "built-in answers on the transport: %d success CEA, %d failure CEA, %d DWA (+%d stray bytes); expected %d, %d, at least %d; %s", okCEA, badCEA, dwa, len(rest), wantCEAok, wantCEAbad, wantDWAmin, desc())
		return
	}
	if (state == "closed") != (mc.CloseCount() > 0) {
		c.Fail(sig("close-state"), stream, nil, "transport close count %d in reference state %s; %s", mc.CloseCount(), state, desc())
		return
	}
	c.Event("server_sequences", 1)
	c.Event("app_invocations", len(got))
	c.Event("gated_messages", gatedCount(seq))
}

func gatedCount(seq []int) int {
	n := 0
	state := "pre"
	for _, k := range seq {
		if state != "ok" && (k == pReqA || k == pReqB || k == pAns || k == pUnreg) {
			n++
		}
		if state == "pre" {
			if k == pCERok || k == pCERretx || k == pCERokApp {
				state = "ok"
			} else if k == pCERbad {
				state = "closed"
			}
		}
	}
	return n
}

// client role: the peer answers the client's CER with a scripted sequence.
const (
	qCEAok = iota
	qCEAbad
	qReqA
	qReqB
	qAns
	qUnreg
	qDWR
	qCER    // the peer sends a capabilities-exchange request of its own (a client does not answer it: no handshake results from it)
	qCERApp // ... with a non-zero application id in its header
	nClientMsgs
)

var qNames = []string{"CEA-ok", "CEA-bad", "ReqA(name)", "ReqB(index)", "Answer", "Unregistered", "DWR", "CER-from-peer", "CER-from-peer(app 4)"}

func runC10Client(c *ev.Case, ctx *lib.Ctx, seq []int, allByIdx bool, peerStopsReading bool) {
	settings := &sm.Settings{OriginHost: "cli.local", OriginRealm: "realm.local", VendorID: 13, ProductName: "verif",
		HostIPAddresses: []datatype.Address{datatype.Address([]byte{192, 0, 2, 9})}}
	machine := sm.New(settings)
	l := &hlog{}
	instrument(machine, l, allByIdx)
	cli := &sm.Client{Dict: ctx.Parser, Handler: machine, MaxRetransmits: 0, RetransmitInterval: time.Second,
		AuthApplicationID: []*diam.AVP{diam.NewAVP(258, 0x40, 0, datatype.Unsigned32(4))}}
	mc := memnet.NewConn()
	var want []string
	state := "pre"
	var stream []byte
	for i, k := range seq {
		hbh := uint32(200 + i)
		var w []byte
		switch k {
		case qCEAok:
			w = nil // built when the CER is seen (needs its ids)
		case qCEAbad:
			w = nil
		case qReqA:
			w = c10Wire(pReqA, hbh)
		case qReqB:
			w = c10Wire(pReqB, hbh)
		case qAns:
			w = c10Wire(pAns, hbh)
		case qUnreg:
			w = c10Wire(pUnreg, hbh)
		case qDWR:
			w = c10Wire(pDWR, hbh)
		case qCER:
			w = c10Wire(pCERok, hbh)
		case qCERApp:
			w = c10Wire(pCERokApp, hbh)
		}
		_ = w
		if state == "ok" && (k == qReqA || k == qReqB || k == qAns || k == qUnreg) {
			kk := map[int]int{qReqA: pReqA, qReqB: pReqB, qAns: pAns, qUnreg: pUnreg}[k]
			want = append(want, fmt.Sprintf("%s:%d", appKey(kk), hbh))
		}
		if state == "pre" {
			if k == qCEAok {
				state = "ok"
			} else if k == qCEAbad {
				state = "closed"
			} else if k == qDWR && peerStopsReading {
				// the answer to this DWR cannot be written: the reader is stuck in that write
				// until the dial times out and closes; what is buffered behind it - a success
				// CEA included - arrives on a connection the client has given up
				state = "gave-up"
			}
		}
	}
	fired := false
	mc.OnWrite = func(w memnet.WriteRec) {
		if fired {
			return
		}
		msgs, _ := peer.SplitMessages(w.Data)
		if len(msgs) == 0 || peer.Header(msgs[0]).Code != 257 {
			return
		}
		fired = true
		ch := peer.Header(msgs[0])
		for i, k := range seq {
			hbh := uint32(200 + i)
			switch k {
			case qCEAok:
				stream = append(stream, peer.StdCEA(ch.HopByHop, ch.EndToEnd, 2001, 4)...)
			case qCEAbad:
				stream = append(stream, peer.StdCEA(ch.HopByHop, ch.EndToEnd, 5010)...)
			case qReqA:
				stream = append(stream, c10Wire(pReqA, hbh)...)
			case qReqB:
				stream = append(stream, c10Wire(pReqB, hbh)...)
			case qAns:
				stream = append(stream, c10Wire(pAns, hbh)...)
			case qUnreg:
				stream = append(stream, c10Wire(pUnreg, hbh)...)
			case qDWR:
				stream = append(stream, c10Wire(pDWR, hbh)...)
			case qCER:
				stream = append(stream, c10Wire(pCERok, hbh)...)
			case qCERApp:
				stream = append(stream, c10Wire(pCERokApp, hbh)...)
			}
		}
		mc.Feed(stream)
	}
	if peerStopsReading {
		// the peer takes the CER and reads nothing more: whatever the client writes after it
		// (a DWA, a CEA to the peer's own CER) blocks until the client gives the connection up
		mc.Script = func(seq int, b []byte) memnet.Outcome {
			if seq == 0 {
				return memnet.Outcome{Accept: -1, StallAt: -1}
			}
			return memnet.Outcome{Accept: -1, StallAt: 0, UntilClosed: true}
		}
	}
	var conn diam.Conn
	var err error
	done := make(chan struct{})
	go func() {
		conn, err = cli.NewConn(mc, "peer:3868")
		close(done)
	}()
	<-done
	synctest.Wait()
	desc := func() string {
		s := ""
		for i, k := range seq {
			if i > 0 {
				s += " "
			}
			s += qNames[k]
		}
		return fmt.Sprintf("peer replies to the CER with [%s] in one segment, catch-all by index=%v, peer stops reading after the CER=%v", s, allByIdx, peerStopsReading)
	}
	sig := func(op string) ev.Sig { return ev.Sig{"op": op, "role": "client"} }
	defer func() {
		mc.FeedEOF()
		if conn != nil {
			conn.Close()
		}
		synctest.Wait()
	}()
	got := l.snapshot()
	if fmt.Sprint(got) != fmt.Sprint(want) {
		op := "handler-log-differs"
		if len(got) > len(want) {
			op = "handler-ran-outside-handshake"
		}
		c.Fail(sig(op), stream, nil, "application handler invocations %v, the reference gate allows exactly %v (dial err=%v); %s", got, want, err, desc())
		return
	}
	if (state == "ok") != (err == nil) {
		c.Fail(sig("dial-outcome"), stream, nil, "dial returned err=%v in reference state %s; %s", err, state, desc())
		return
	}
	l.mu.Lock()
	refused := l.refused
	l.mu.Unlock()
	if refused != 0 {
		c.Fail(sig("builtin-replaced"), stream, nil, "a handler registered for CER/CEA/DWR by the application was invoked %d times; %s", refused, desc())
		return
	}
	c.Event("client_sequences", 1)
	c.Event("app_invocations", len(got))
}

func TestC10(t *testing.T) {
	rec := ev.Open(t, "C10")
	defer rec.Close()
	ctx := defCtx(t)
	_, restore := captureLog()
	defer restore()
	maxLen := 4
	if !rec.Quick() {
		maxLen = 6
	}
	var seqs [][]int
	var build func(cur []int)
	build = func(cur []int) {
		if len(cur) > 0 {
			seqs = append(seqs, append([]int(nil), cur...))
		}
		if len(cur) == maxLen {
			return
		}
		for k := 0; k < nPeerMsgs; k++ {
			build(append(cur, k))
		}
	}
	build(nil)
	run := func(c *ev.Case, f func()) {
		leak := runBubbleWD(t, rec, c, 60*time.Second, f)
		if leak != "" && !c.Failed() {
			c.Fail(ev.Sig{"op": "bubble-leak"}, nil, nil, "goroutines left blocked after the scenario: %s", leak)
		}
	}
	rec.Suite("server-exhaustive", len(seqs)*2, func(c *ev.Case) {
		seq := seqs[c.I/2]
		one := c.I%2 == 1
		c.Class("server/len=%d/first=%s/one-segment=%v", len(seq), pNames[seq[0]], one)
		c10Dress = c.I/4 + c.I%4*7
		run(c, func() { runC10Server(c, ctx, seq, one, (c.I/2)%2 == 0) })
	})
	rec.Exhaustive("server-exhaustive")
	rec.Suite("server-random", rec.N(1500, 2000000), func(c *ev.Case) {
		n := 5 + c.R.IntN(26)
		seq := make([]int, n)
		for i := range seq {
			seq[i] = c.R.IntN(nPeerMsgs + 2)
			if seq[i] == pCERbad && c.R.IntN(3) != 0 {
				seq[i] = pReqA
			}
		}
		c.Class("server-random/len=%d", n/5*5)
		c10Dress = c.I/4 + c.I%4*7
		run(c, func() { runC10Server(c, ctx, seq, c.R.IntN(2) == 0, c.R.IntN(2) == 0) })
	})
	rec.Suite("several-peers", 7*2*3, func(c *ev.Case) {
		bad, byIdx, goodFirst := c.I%7, (c.I/7)%2 == 0, (c.I / 14)
		c.Class("several-peers/bad-way=%d/accepted-before=%d", bad, goodFirst)
		c10Dress = c.I
		run(c, func() { runC10Several(c, ctx, bad, byIdx, goodFirst) })
	})
	rec.Exhaustive("several-peers")
	rec.Suite("base-command-within-application", 2, func(c *ev.Case) {
		c.Class("base-command-within-application/all-by-index=%v", c.I == 0)
		run(c, func() { runC10BaseWithinApp(c, ctx, c.I == 0) })
	})
	rec.Suite("peers-at-once", rec.N(60, 20000), func(c *ev.Case) {
		K := 2 + c.I%5
		c.Class("peers-at-once/K=%d", K)
		c10Dress = c.I
		run(c, func() { runC10AtOnce(c, ctx, K, 30, c.I%2 == 0) })
	})
	// client role: all sequences up to length 4 with at most two CEAs (a refusal followed by a
	// success in the same segment leaves the connection refused; a success followed by
	// anything leaves it accepted)
	var cseqs [][]int
	var cbuild func(cur []int, ceas int)
	cbuild = func(cur []int, ceas int) {
		if len(cur) > 0 {
			cseqs = append(cseqs, append([]int(nil), cur...))
		}
		if len(cur) == 4 {
			return
		}
		for k := 0; k < nClientMsgs; k++ {
			if (k == qCEAok || k == qCEAbad) && ceas > 1 {
				continue
			}
			nc := ceas
			if k == qCEAok || k == qCEAbad {
				nc++
			}
			cbuild(append(cur, k), nc)
		}
	}
	cbuild(nil, 0)
	rec.Suite("client-exhaustive", len(cseqs), func(c *ev.Case) {
		seq := cseqs[c.I]
		c.Class("client/len=%d/first=%s", len(seq), qNames[seq[0]])
		c10Dress = c.I/4 + c.I%4*7
		run(c, func() { runC10Client(c, ctx, seq, c.I%2 == 0, false) })
	})
	rec.Exhaustive("client-exhaustive")
	// the same replies from a peer that stops reading once it has the CER (sequences in which no
	// success CEA comes before the first DWR: the dial fails - by the refusal, or by the time-out
	// while the reader is stuck writing the DWA - and what is still buffered then, a late success
	// CEA included, belongs to a connection that never completed the exchange)
	var stuck [][]int
	for _, q := range cseqs {
		ok := false
		for _, k := range q {
			if k == qDWR {
				break // the reader is stuck answering this one: a CEA behind it comes too late
			}
			ok = ok || k == qCEAok
		}
		if !ok {
			stuck = append(stuck, q)
		}
	}
	rec.Suite("client-peer-stops-reading", len(stuck), func(c *ev.Case) {
		seq := stuck[c.I]
		c.Class("client-peer-stops-reading/len=%d/first=%s", len(seq), qNames[seq[0]])
		c10Dress = c.I/4 + c.I%4*7
		run(c, func() { runC10Client(c, ctx, seq, c.I%2 == 0, true) })
	})
	rec.Exhaustive("client-peer-stops-reading")
}
