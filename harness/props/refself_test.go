package props

import (
	"bytes"
	"fmt"
	"go/ast"
	"go/parser"
	"go/token"
	"path/filepath"
	"strconv"
	"testing"

	"verifharness/refcodec"
	"verifharness/refdict"
)

// repoFixture extracts a `var name = []byte{...}` literal from one of the
// repository's own test files.
func repoFixture(file, name string) ([]byte, error) {
	fset := token.NewFileSet()
	f, err := parser.ParseFile(fset, filepath.Join(refdict.RepoDir(), file), nil, 0)
	if err != nil {
		return nil, err
	}
	var out []byte
	found := false
	ast.Inspect(f, func(n ast.Node) bool {
		vs, ok := n.(*ast.ValueSpec)
		if !ok || len(vs.Names) != 1 || vs.Names[0].Name != name || len(vs.Values) != 1 {
			return true
		}
		cl, ok := vs.Values[0].(*ast.CompositeLit)
		if !ok {
			return true
		}
		for _, e := range cl.Elts {
			if bl, ok := e.(*ast.BasicLit); ok {
				v, _ := strconv.ParseUint(bl.Value, 0, 8)
				out = append(out, byte(v))
			}
		}
		found = true
		return false
	})
	if !found {
		return nil, fmt.Errorf("%s: no fixture %s", file, name)
	}
	return out, nil
}

// refcodecSelfCheck: the reference codec must decode the CER fixture quoted in
// the repository's own tests to the tree its comment documents, and re-encode
// it to the same bytes. Run by every codec property before it trusts refcodec.
func refcodecSelfCheck(t testing.TB) {
	fx, err := repoFixture("diam/message_test.go", "testMessage")
	if err != nil {
		t.Fatalf("refcodec self-check: %v", err)
	}
	ctx := defCtx(t)
	h, nodes, err := refcodec.DecodeMessage(fx, ctx.TypeFunc(0))
	if err != nil {
		t.Fatalf("refcodec self-check: cannot decode the repository's CER fixture: %v", err)
	}
	if h.Code != 257 || h.Flags != 0x80 || h.Length != 204 || h.HopByHop != 0xa8cc407d || h.EndToEnd != 0xa8c1b2b4 || len(nodes) != 12 {
		t.Fatalf("refcodec self-check: fixture header/tree: %+v, %d AVPs", h, len(nodes))
	}
	want := "264:DiameterIdentity[4] 296:DiameterIdentity[9] 257:Address=(1,0a010001) 266:Unsigned32=13 269:UTF8String[11] 278:Unsigned32=1397760650 265:Unsigned32=10415 265:Unsigned32=13 258:Unsigned32=4 299:Unsigned32=0 260:Grouped{258:Unsigned32=4 266:Unsigned32=10415} 267:Unsigned32=1"
	if got := refcodec.Describe(nodes); got != want {
		t.Fatalf("refcodec self-check: fixture decodes to\n%s\nwant\n%s", got, want)
	}
	if out := refcodec.EncodeMessage(h, nodes); !bytes.Equal(out, fx) {
		t.Fatalf("refcodec self-check: re-encoding the fixture differs at byte %d", firstDiff(out, fx))
	}
	// Time: RFC 6733 4.3.1 / RFC 5905 era handling at the documented instants
	for _, tc := range []struct {
		wire uint32
		unix int64
	}{{0x80000000, -61505152}, {0xFFFFFFFF, 2085978495}, {0, 2085978496}, {0x7FFFFFFF, 4233462143}, {2208988800, 0}} {
		if refcodec.TimeFromWire(tc.wire) != tc.unix || refcodec.TimeToWire(tc.unix) != tc.wire {
			t.Fatalf("refcodec self-check: Time %#x <-> %d", tc.wire, tc.unix)
		}
	}
}

func TestRefcodecSelf(t *testing.T) { refcodecSelfCheck(t) }
