package props

import (
	"bytes"
	"crypto/tls"
	"errors"
	"fmt"
	"hash/fnv"
	"io"
	"os"
	"strings"
	"sync"
	"sync/atomic"
	"testing"
	"testing/synctest"
	"time"

	"github.com/fiorix/go-diameter/v4/diam"
	"github.com/fiorix/go-diameter/v4/diam/datatype"
	"github.com/fiorix/go-diameter/v4/diam/sm"

	"verifharness/ev"
	"verifharness/lib"
	"verifharness/memnet"
	"verifharness/peer"
	"verifharness/refcodec"
	"verifharness/sctpmem"
)

// connMonitor is the online per-connection monitor: in-flight handlers and
// arrival order. Its own state is atomics / a mutex, so it cannot be the race.
// globalOrder records the interleaving of handler entries across connections.
type globalOrder struct {
	mu  sync.Mutex
	seq []byte
}

func (g *globalOrder) add(conn int) {
	g.mu.Lock()
	g.seq = append(g.seq, byte(conn))
	g.mu.Unlock()
}

type connMonitor struct {
	inflight atomic.Int32
	mu       sync.Mutex
	seen     []uint32
	problem  string
	maxIn    int32
}

func (cm *connMonitor) enter(seq uint32) {
	n := cm.inflight.Add(1)
	cm.mu.Lock()
	if n > cm.maxIn {
		cm.maxIn = n
	}
	if n != 1 && cm.problem == "" {
		cm.problem = fmt.Sprintf("handler for message %d started while %d other handler(s) of the same connection had not returned", seq, n-1)
	}
	if want := uint32(len(cm.seen) + 1); seq != want && cm.problem == "" {
		cm.problem = fmt.Sprintf("handler saw message %d, expected message %d (order seen so far %v)", seq, want, cm.seen)
	}
	cm.seen = append(cm.seen, seq)
	cm.mu.Unlock()
}
func (cm *connMonitor) leave() { cm.inflight.Add(-1) }
func (cm *connMonitor) count() int {
	cm.mu.Lock()
	defer cm.mu.Unlock()
	return len(cm.seen)
}

type c08Scenario struct {
	K        int
	dialled  bool
	pattern  int // 0 burst, 1 one byte at a time, 2 interleaved across connections
	handler  int // 0 instantaneous, 1 virtual sleep, 2 block until released, 3 the first handler of EVERY connection blocks until released
	perConn  []int
	holdConn int
	holdSeq  uint32
	mux      bool // handlers registered by short name on a shared ServeMux, several commands
	// earlier events in the life of the server / mux: 1 = a connection whose TLS handshake
	// failed, 2 = a connection whose handler panicked, followed by a handler registration
	prelude int
	// the connections are SCTP associations (in-memory backend); consecutive messages
	// arrive on different streams
	sctp bool
	// while the held handler blocks, the application registers a handler on the shared mux
	// (as every sm.Client.Dial does) and only then do the other connections' messages arrive
	regWhileHeld bool
	// the held handler has asked for CloseNotify, and the peer closes (EOF behind the burst that is
	// already buffered) while it is blocked: the following handlers still wait for it
	eofWhileHeld bool
	// the held handler blocks inside Parser.Load of the connection's dictionary, on a source
	// that stays silent and then fails (an operator dictionary fetched on demand)
	loadWhileHeld bool
}

// c08Body: body size of message s on connection i (below, at and above the 1 KiB pooled read buffer)
func c08Body(i, s int) int { return []int{0, 12, 100, 1024, 1028, 4096}[(i+s)%6] }

// the commands of the generated dictionary used by C08: (code, application)
var c08Cmds = [][2]uint32{{8388000, 0}, {257, 0}, {8388002, 8388001}}

// c08Msg: message number seq of a connection; the command rotates with conn+seq.
func c08Msg(conn int, seq uint32, body int, rotate bool) []byte {
	b := seqMsg(seq, body)
	if !rotate && seq%3 == 0 {
		b[4] &^= 0x80 // every third message is an answer: answers and requests share the one-at-a-time order
	}
	if rotate {
		cmd := c08Cmds[(conn+int(seq))%len(c08Cmds)]
		b[5], b[6], b[7] = byte(cmd[0]>>16), byte(cmd[0]>>8), byte(cmd[0])
		b[8], b[9], b[10], b[11] = byte(cmd[1]>>24), byte(cmd[1]>>16), byte(cmd[1]>>8), byte(cmd[1])
	}
	return b
}

func runC08(c *ev.Case, ctx *lib.Ctx, sc c08Scenario) {
	order := &globalOrder{}
	mons := make([]*connMonitor, sc.K)
	conns := make([]*memnet.Conn, sc.K)
	byAddr := map[string]int{}
	release := make(chan struct{})
	held := make(chan struct{}, 1)
	hf := diam.HandlerFunc(func(dc diam.Conn, m *diam.Message) {
		seq := m.Header.HopByHopID
		if seq == 0xdeadbeef {
			panic("verif: handler panic on an earlier connection")
		}
		i := byAddr[dc.RemoteAddr().String()]
		order.add(i)
		mons[i].enter(seq)
		// the message must be the one that was sent on this connection (no bytes of another connection)
		if b, err := m.Serialize(); err != nil || !bytes.Equal(b, c08Msg(i, seq, c08Body(i, int(seq)), sc.mux)) {
			mons[i].mu.Lock()
			if mons[i].problem == "" {
				mons[i].problem = fmt.Sprintf("message %d was delivered with other bytes than were sent on this connection (err=%v)", seq, err)
			}
			mons[i].mu.Unlock()
		}
		switch sc.handler {
		case 1:
			time.Sleep(time.Duration(1+seq%3) * time.Millisecond)
		case 2:
			if i == sc.holdConn && seq == sc.holdSeq {
				if sc.eofWhileHeld {
					_ = dc.(diam.CloseNotifier).CloseNotify()
				}
				held <- struct{}{}
				if sc.loadWhileHeld {
					pr, pw := io.Pipe()
					go func() {
						<-release
						pw.CloseWithError(errors.New("verif: the dictionary source went away"))
					}()
					ctx.Parser.Load(pr) // fails before anything is defined
				} else {
					<-release
				}
			}
		case 3:
			if seq == 1 {
				<-release
			}
		}
		mons[i].leave()
	})
	var h diam.Handler = hf
	var mux *diam.ServeMux
	if sc.mux {
		mux = diam.NewServeMux()
		for _, n := range []string{"GTR", "CER", "GAR"} {
			mux.Handle(n, hf)
		}
		h = mux
	}
	for i := range conns {
		conns[i] = memnet.NewConn()
		conns[i].Remote = memnet.Addr{Net: "tcp", Str: fmt.Sprintf("10.0.%d.%d:1000", (i+1)/250, (i+1)%250)}
		byAddr[conns[i].Remote.String()] = i
		mons[i] = &connMonitor{}
	}
	if sc.sctp {
		runC08SCTP(c, ctx, sc, h, mons, byAddr, held, release)
		return
	}
	ln := memnet.NewListener()
	srv := &diam.Server{Handler: h, Dict: ctx.Parser}
	serveDone := make(chan error, 1)
	if !sc.dialled {
		go func() { serveDone <- srv.Serve(ln) }()
	}
	if sc.prelude&1 != 0 && !sc.dialled {
		if cfg, err := c15TLSConfig(); err == nil {
			bad := memnet.NewConn()
			bad.Remote = memnet.Addr{Net: "tcp", Str: "10.9.9.9:1"}
			ln.Offer(tls.Server(bad, cfg))
			bad.Feed([]byte("GET / HTTP/1.0\r\n\r\n"))
			synctest.Wait()
			bad.FeedEOF()
			synctest.Wait()
			c.Event("prelude_failed_tls_handshakes", 1)
		}
	}
	if sc.prelude&2 != 0 {
		bad := memnet.NewConn()
		bad.Remote = memnet.Addr{Net: "tcp", Str: "10.9.9.8:1"}
		if sc.dialled {
			diam.NewConn(bad, "x", h, ctx.Parser)
		} else {
			ln.Offer(bad)
		}
		bad.Feed(c08Msg(0, 0xdeadbeef, 12, false))
		synctest.Wait()
		if mux != nil {
			mux.Handle("GTR", hf) // the application (or sm.Client.Dial) registers a handler afterwards
		}
		bad.FeedEOF()
		synctest.Wait()
		c.Event("prelude_handler_panics", 1)
	}
	if sc.dialled {
		for i := range conns {
			if _, err := diam.NewConn(conns[i], "x", h, ctx.Parser); err != nil {
				c.Fail(ev.Sig{"op": "setup"}, nil, nil, "NewConn: %v", err)
				return
			}
		}
	} else {
		for i := range conns {
			ln.Offer(conns[i])
		}
	}
	// the per-connection streams
	streams := make([][]byte, sc.K)
	for i := range conns {
		for s := 1; s <= sc.perConn[i]; s++ {
			streams[i] = append(streams[i], c08Msg(i, uint32(s), c08Body(i, s), sc.mux)...)
		}
	}
	regDone := make(chan struct{})
	if sc.regWhileHeld {
		conns[sc.holdConn].Feed(streams[sc.holdConn])
		synctest.Wait()
		go func() {
			mux.Handle("GTR", hf)
			close(regDone)
		}()
		for i := range conns {
			if i != sc.holdConn {
				conns[i].Feed(streams[i])
			}
		}
	} else {
		close(regDone)
	}
	pattern := sc.pattern
	if sc.regWhileHeld {
		pattern = -1
	}
	switch pattern {
	case 0:
		for i := range conns {
			conns[i].Feed(streams[i])
		}
	case 1:
		for i := range conns {
			cuts := make([]int, 0, len(streams[i]))
			for k := 1; k < len(streams[i]); k++ {
				cuts = append(cuts, k)
			}
			if len(cuts) > 3000 {
				cuts = cuts[:3000]
			}
			conns[i].FeedSplit(streams[i], cuts)
		}
	case 2:
		// round-robin fragments of 37 bytes across the connections
		off := make([]int, sc.K)
		for more := true; more; {
			more = false
			for i := range conns {
				if off[i] < len(streams[i]) {
					end := min(off[i]+37, len(streams[i]))
					conns[i].Feed(streams[i][off[i]:end])
					off[i] = end
					more = true
				}
			}
		}
	}
	synctest.Wait()
	if sc.eofWhileHeld {
		conns[sc.holdConn].FeedEOF()
		synctest.Wait()
	}
	sig := func(op string) ev.Sig {
		return ev.Sig{"op": op, "dialled": sc.dialled, "pattern": sc.pattern, "handler": sc.handler}
	}
	fail := false
	if sc.handler == 2 {
		// while the held handler blocks, every other connection must have made full progress
		select {
		case <-held:
		default:
			c.Fail(sig("held-handler-not-reached"), nil, nil, "at quiescence the handler for connection %d message %d had not started (%+v)", sc.holdConn, sc.holdSeq, sc)
			fail = true
		}
		for i := range conns {
			if fail {
				break
			}
			if i == sc.holdConn {
				if got := mons[i].count(); got != int(sc.holdSeq) {
					c.Fail(sig("dispatch-while-blocked"), nil, nil, "connection %d: %d handlers were started although the handler of message %d has not returned", i, got, sc.holdSeq)
					fail = true
				}
				continue
			}
			if got := mons[i].count(); got != sc.perConn[i] {
				c.Fail(sig("other-connection-delayed"), nil, nil, "with the handler of connection %d blocked, connection %d had %d of %d messages dispatched at quiescence (%+v)", sc.holdConn, i, got, sc.perConn[i], sc)
				fail = true
			}
		}
		c.Event("blocked_handler_scenarios", 1)
		close(release)
		synctest.Wait()
		select {
		case <-regDone:
		default:
			c.Fail(sig("registration-blocked"), nil, nil, "a handler registration started while a handler was blocked has not returned after the handler was released (%+v)", sc)
			fail = true
		}
	} else if sc.handler == 3 {
		// every connection's first handler blocks: each of them must have been started
		// (no server-wide bound on the handlers running at one time)
		started := 0
		for i := range conns {
			if mons[i].count() == 1 {
				started++
			}
		}
		if started != sc.K {
			c.Fail(sig("other-connection-delayed"), nil, nil, "%d connections whose first handler blocks: only %d of the handlers had been started at quiescence (%+v)", sc.K, started, c08Short(sc))
			fail = true
		}
		c.Event("blocked_handler_scenarios", 1)
		close(release)
		synctest.Wait()
	} else if sc.handler == 1 {
		time.Sleep(time.Second) // virtual: lets every sleeping handler finish
		synctest.Wait()
	}
	for i := range conns {
		if fail {
			break
		}
		mons[i].mu.Lock()
		p, n := mons[i].problem, len(mons[i].seen)
		mons[i].mu.Unlock()
		if p != "" {
			c.Fail(sig("one-at-a-time-in-order"), nil, nil, "connection %d: %s (%+v)", i, p, sc)
			fail = true
		} else if n != sc.perConn[i] {
			c.Fail(sig("lost-or-duplicated"), nil, nil, "connection %d: %d handler invocations for %d messages (%+v)", i, n, sc.perConn[i], sc)
			fail = true
		}
		c.Event("handler_invocations", n)
	}
	if !fail && sc.K > 1 {
		fp := fnv.New64a()
		order.mu.Lock()
		fp.Write(order.seq)
		order.mu.Unlock()
		c.Class("interleaving/%03x", fp.Sum64()%4096)
	}
	// tear down so that the bubble can end
	for i := range conns {
		conns[i].FeedEOF()
	}
	ln.Close()
	synctest.Wait()
	if !sc.dialled {
		select {
		case <-serveDone:
		default:
		}
	}
}

// runC08SCTP: the same monitors over SCTP associations; message s of a connection
// arrives on stream s mod 3 (one association = one connection: one handler at a
// time, in arrival order, whatever the streams).
func runC08SCTP(c *ev.Case, ctx *lib.Ctx, sc c08Scenario, h diam.Handler, mons []*connMonitor, byAddr map[string]int, held, release chan struct{}) {
	sig := func(op string) ev.Sig {
		return ev.Sig{"op": op, "dialled": true, "pattern": sc.pattern, "handler": sc.handler, "transport": "sctp"}
	}
	assocs := make([]*sctpmem.Assoc, sc.K)
	for i := range assocs {
		a := sctpmem.New()
		a.Remote = fmt.Sprintf("10.0.0.%d:1000", i+1)
		assocs[i] = a
		msc := diam.VerifNewSCTPConn(a)
		defer diam.VerifRelease(msc)
		if _, err := diam.NewConn(msc, "x", h, ctx.Parser); err != nil {
			c.Fail(sig("setup"), nil, nil, "NewConn: %v", err)
			return
		}
	}
	for s := 1; ; s++ {
		more := false
		for i, a := range assocs {
			if s <= sc.perConn[i] {
				a.Feed(uint16(s%3), c08Msg(i, uint32(s), c08Body(i, s), sc.mux))
				more = true
			}
		}
		if !more {
			break
		}
	}
	synctest.Wait()
	fail := false
	if sc.handler == 2 {
		select {
		case <-held:
		default:
			c.Fail(sig("held-handler-not-reached"), nil, nil, "at quiescence the handler for association %d message %d had not started (%+v)", sc.holdConn, sc.holdSeq, sc)
			fail = true
		}
		for i := range assocs {
			if fail {
				break
			}
			got := mons[i].count()
			if i == sc.holdConn && got != int(sc.holdSeq) {
				c.Fail(sig("dispatch-while-blocked"), nil, nil, "association %d: %d handlers were started although the handler of message %d (stream %d) has not returned; the later messages are on other streams", i, got, sc.holdSeq, sc.holdSeq%3)
				fail = true
			}
			if i != sc.holdConn && got != sc.perConn[i] {
				c.Fail(sig("other-connection-delayed"), nil, nil, "with the handler of association %d blocked, association %d had %d of %d messages dispatched at quiescence", sc.holdConn, i, got, sc.perConn[i])
				fail = true
			}
		}
		c.Event("blocked_handler_scenarios", 1)
		close(release)
		synctest.Wait()
	} else if sc.handler == 1 {
		time.Sleep(time.Second)
		synctest.Wait()
	}
	for i := range assocs {
		if fail {
			break
		}
		mons[i].mu.Lock()
		p, n := mons[i].problem, len(mons[i].seen)
		mons[i].mu.Unlock()
		if p != "" {
			c.Fail(sig("one-at-a-time-in-order"), nil, nil, "association %d (messages on streams 1,2,0,1,..): %s (%+v)", i, p, sc)
			fail = true
		} else if n != sc.perConn[i] {
			c.Fail(sig("lost-or-duplicated"), nil, nil, "association %d: %d handler invocations for %d messages (%+v)", i, n, sc.perConn[i], sc)
			fail = true
		}
		c.Event("handler_invocations", n)
	}
	for _, a := range assocs {
		a.FeedEOF()
	}
	synctest.Wait()
	c.Event("sctp_scenarios", 1)
}

// runC08SlowHandlers: connections accepted by a Server with a ReadTimeout; every handler runs
// (virtual time) three times as long as that timeout, and the peer sends its next message half a
// timeout after the handler has returned - it is never silent for a whole ReadTimeout while the
// server waits for it.  Every message must be dispatched, in order, and no connection dropped.
func runC08SlowHandlers(c *ev.Case, ctx *lib.Ctx, K, n int, rt time.Duration, notify bool) {
	sig := func(op string) ev.Sig { return ev.Sig{"op": op, "suite": "slow-handlers-read-timeout"} }
	mons := make([]*connMonitor, K)
	conns := make([]*memnet.Conn, K)
	byAddr := map[string]int{}
	hf := diam.HandlerFunc(func(dc diam.Conn, m *diam.Message) {
		i := byAddr[dc.RemoteAddr().String()]
		mons[i].enter(m.Header.HopByHopID)
		if notify && m.Header.HopByHopID == 1 {
			_ = dc.(diam.CloseNotifier).CloseNotify()
		}
		time.Sleep(3 * rt)
		mons[i].leave()
	})
	srv := &diam.Server{Handler: hf, Dict: ctx.Parser, ReadTimeout: rt}
	ln := memnet.NewListener()
	go srv.Serve(ln)
	for i := range conns {
		conns[i] = memnet.NewConn()
		conns[i].Remote = memnet.Addr{Net: "tcp", Str: fmt.Sprintf("10.0.0.%d:1000", i+1)}
		byAddr[conns[i].Remote.String()] = i
		mons[i] = &connMonitor{}
		ln.Offer(conns[i])
	}
	defer func() {
		for i := range conns {
			conns[i].FeedEOF()
		}
		ln.Close()
		time.Sleep(2 * rt)
		synctest.Wait()
	}()
	for s := 1; s <= n; s++ {
		for i := range conns {
			conns[i].Feed(c08Msg(i, uint32(s), c08Body(i, s), false))
		}
		time.Sleep(3*rt + rt/2)
		synctest.Wait()
		for i := range conns {
			mons[i].mu.Lock()
			p, seen := mons[i].problem, len(mons[i].seen)
			mons[i].mu.Unlock()
			if p != "" {
				c.Fail(sig("one-at-a-time-in-order"), nil, nil, "connection %d: %s", i, p)
				return
			}
			if seen != s || conns[i].CloseCount() != 0 {
				c.Fail(sig("lost-after-slow-handler"), nil, nil, "ReadTimeout %v, handlers take %v, the peer sends message k+1 %v after the handler of message k returned: connection %d has had %d of %d messages dispatched and was closed %d time(s)",
					rt, 3*rt, rt/2, i, seen, s, conns[i].CloseCount())
				return
			}
		}
	}
	c.Event("handler_invocations", K*n)
	c.Event("slow_handler_scenarios", 1)
}

// runC08ManyHandshakes: P peers complete the capabilities exchange on one state machine whose
// application never reads HandshakeNotify; each then sends a request.  Every request must be
// dispatched: whether a connection is served does not depend on how many others came before.
func runC08ManyHandshakes(c *ev.Case, ctx *lib.Ctx, P int, subscribed bool) {
	sig := func(op string) ev.Sig { return ev.Sig{"op": op, "suite": "many-handshakes"} }
	machine := sm.New(&sm.Settings{OriginHost: "srv.local", OriginRealm: "realm.local", VendorID: 13, ProductName: "verif",
		HostIPAddresses: []datatype.Address{datatype.Address([]byte{192, 0, 2, 1})}})
	if subscribed {
		_ = machine.HandshakeNotify()
	}
	var mu sync.Mutex
	seen := map[uint32]int{}
	machine.HandleFunc("ALL", func(_ diam.Conn, m *diam.Message) {
		mu.Lock()
		seen[m.Header.HopByHopID]++
		mu.Unlock()
	})
	srv := &diam.Server{Handler: machine, Dict: ctx.Parser}
	ln := memnet.NewListener()
	go srv.Serve(ln)
	conns := make([]*memnet.Conn, P)
	defer func() {
		for _, mc := range conns {
			if mc != nil {
				mc.FeedEOF()
			}
		}
		ln.Close()
		synctest.Wait()
	}()
	for i := range conns {
		conns[i] = memnet.NewConn()
		conns[i].Remote = memnet.Addr{Net: "tcp", Str: fmt.Sprintf("10.1.%d.%d:1000", i/250, i%250+1)}
		ln.Offer(conns[i])
		conns[i].Feed(peer.StdCER(uint32(i+1), uint32(i+1), 4))
		conns[i].Feed(peer.Msg(0xC0, 272, 4, uint32(100000+i), 1, peer.Str(peer.SessionID, refcodec.UTF8String, "s;1")))
		if i%7 == 0 {
			synctest.Wait()
		}
	}
	synctest.Wait()
	for i := range conns {
		mu.Lock()
		n := seen[uint32(100000+i)]
		mu.Unlock()
		msgs, _ := peer.SplitMessages(conns[i].Written())
		if n != 1 || len(msgs) != 1 {
			c.Fail(sig("other-connection-delayed"), nil, nil, "%d peers completed the capabilities exchange on one state machine (HandshakeNotify never read): the request of peer %d was dispatched %d times, %d messages were written to it", P, i+1, n, len(msgs))
			return
		}
	}
	c.Event("handler_invocations", P)
	c.Event("many_handshake_scenarios", 1)
}

// runC08StalledWriter: the handler of connection 0 is blocked writing an answer to a peer that
// has stopped reading (the transport's Write does not return); the other connections' handlers
// write answers of the same size to peers that do read.  All of their messages are dispatched
// and answered.
func runC08StalledWriter(c *ev.Case, ctx *lib.Ctx, K, per, size int, viaMux bool) {
	sig := func(op string) ev.Sig { return ev.Sig{"op": op, "suite": "stalled-writer"} }
	payload := bytes.Repeat([]byte{0x5a}, size)
	hf := diam.HandlerFunc(func(dc diam.Conn, m *diam.Message) {
		a := m.Answer(2001)
		a.NewAVP(9001, 0x40, 0, datatype.OctetString(payload))
		a.WriteTo(dc)
	})
	var h diam.Handler = hf
	if viaMux {
		mux := diam.NewServeMux()
		mux.Handle("ALL", hf)
		h = mux
	}
	srv := &diam.Server{Handler: h, Dict: ctx.Parser}
	ln := memnet.NewListener()
	go srv.Serve(ln)
	conns := make([]*memnet.Conn, K)
	for i := range conns {
		conns[i] = memnet.NewConn()
		conns[i].Remote = memnet.Addr{Net: "tcp", Str: fmt.Sprintf("10.0.0.%d:1000", i+1)}
		ln.Offer(conns[i])
	}
	conns[0].Script = func(seq int, b []byte) memnet.Outcome {
		return memnet.Outcome{Accept: -1, StallAt: len(b) / 3, UntilClosed: true}
	}
	defer func() {
		for i := range conns {
			conns[i].FeedEOF()
			conns[i].Close()
		}
		ln.Close()
		synctest.Wait()
	}()
	conns[0].Feed(c08Msg(0, 1, 12, false))
	synctest.Wait()
	for s := 1; s <= per; s++ {
		for i := 1; i < K; i++ {
			conns[i].Feed(c08Msg(i, uint32(s), c08Body(i, s), false))
		}
	}
	synctest.Wait()
	for i := 1; i < K; i++ {
		msgs, rest := peer.SplitMessages(conns[i].Written())
		if len(msgs) != per || len(rest) != 0 {
			c.Fail(sig("other-connection-delayed"), nil, nil, "the handler of connection 0 is blocked writing a %d-byte answer to a peer that does not read: connection %d has had %d of %d requests answered at quiescence (%d stray bytes)", size, i, len(msgs), per, len(rest))
			return
		}
	}
	c.Event("handler_invocations", (K-1)*per+1)
	c.Event("blocked_handler_scenarios", 1)
}

// runC08Relay: the handler of connection 0 forwards what it received to connection 1 and is
// blocked in that write (connection 1's peer does not read); connection 1's peer keeps sending
// requests of its own.  They are dispatched, one after the other, as if nothing was wrong with
// the other direction (Server.ReadTimeout is set, as relays usually do).
func runC08Relay(c *ev.Case, ctx *lib.Ctx, size int, readTimeout time.Duration) {
	sig := func(op string) ev.Sig { return ev.Sig{"op": op, "suite": "relay-blocked-writer"} }
	var mu sync.Mutex
	var dc1 diam.Conn
	var seen1 []uint32
	payload := bytes.Repeat([]byte{0x5a}, size)
	hf := diam.HandlerFunc(func(dc diam.Conn, m *diam.Message) {
		if dc.RemoteAddr().String() == "10.0.0.2:1000" {
			mu.Lock()
			dc1 = dc
			seen1 = append(seen1, m.Header.HopByHopID)
			mu.Unlock()
			return
		}
		mu.Lock()
		to := dc1
		mu.Unlock()
		fwd := diam.NewRequest(8388000, 0, ctx.Parser)
		fwd.NewAVP(9001, 0x40, 0, datatype.OctetString(payload))
		fwd.WriteTo(to) // blocks: connection 1's peer has stopped reading
	})
	srv := &diam.Server{Handler: hf, Dict: ctx.Parser, ReadTimeout: readTimeout}
	ln := memnet.NewListener()
	go srv.Serve(ln)
	conns := []*memnet.Conn{memnet.NewConn(), memnet.NewConn()}
	for i := range conns {
		conns[i].Remote = memnet.Addr{Net: "tcp", Str: fmt.Sprintf("10.0.0.%d:1000", i+1)}
		ln.Offer(conns[i])
	}
	conns[1].Script = func(seq int, b []byte) memnet.Outcome {
		return memnet.Outcome{Accept: -1, StallAt: len(b) / 3, UntilClosed: true}
	}
	defer func() {
		for i := range conns {
			conns[i].FeedEOF()
			conns[i].Close()
		}
		ln.Close()
		synctest.Wait()
	}()
	conns[1].Feed(c08Msg(1, 1, 12, false))
	synctest.Wait()
	conns[0].Feed(c08Msg(0, 1, 12, false)) // its handler now blocks writing to connection 1
	synctest.Wait()
	const more = 5
	for s := 2; s <= 1+more; s++ {
		conns[1].Feed(c08Msg(1, uint32(s), 12, false))
		synctest.Wait()
	}
	mu.Lock()
	got := append([]uint32(nil), seen1...)
	mu.Unlock()
	if len(got) != 1+more {
		c.Fail(sig("other-connection-delayed"), nil, nil, "a handler of connection 0 is blocked writing %d bytes to connection 1 (whose peer does not read, ReadTimeout %v): connection 1's own requests dispatched so far %v, %d were sent", size, readTimeout, got, 1+more)
		return
	}
	for i, id := range got {
		if id != uint32(i+1) {
			c.Fail(sig("one-at-a-time-in-order"), nil, nil, "connection 1's requests were dispatched as %v", got)
			return
		}
	}
	c.Event("handler_invocations", 2+more)
	c.Event("blocked_handler_scenarios", 1)
}

// c08Short: the scenario without the per-connection message counts (long for many connections)
func c08Short(sc c08Scenario) string {
	n := sc.perConn
	if len(n) > 8 {
		n = n[:8]
	}
	return fmt.Sprintf("K=%d dialled=%v handler=%d mux=%v perConn=%v...", sc.K, sc.dialled, sc.handler, sc.mux, n)
}

func TestC08(t *testing.T) {
	rec := ev.Open(t, "C08")
	defer rec.Close()
	ctx := genCtx(t)
	lc, restore := captureLog()
	defer restore()
	_ = lc
	n := rec.N(2000, 500000)
	if rec.Race() {
		n = rec.N(500, 60000)
	}
	def := defCtx(t)
	// registrations at run time (every sm.Client.Dial makes some) while messages are being
	// dispatched, among them messages of known commands that nobody handles (no handler, no
	// catch-all: the path that builds an error report). Real scheduler, no bubble: the
	// interleaving of a registration with a dispatch in progress is the point. Dispatch must
	// keep making progress; a run that stops is decided by the goroutine dump.
	rec.Suite("registrations-during-unhandled-dispatch", rec.N(3, 40), func(c *ev.Case) {
		c.Class("registrations-during-unhandled-dispatch")
		mux := diam.NewServeMux()
		var handled, unhandled, regs atomic.Int64
		mux.HandleFunc("DWR", func(diam.Conn, *diam.Message) { handled.Add(1) })
		stop := make(chan struct{})
		var rg sync.WaitGroup
		rg.Add(1)
		go func() {
			defer rg.Done()
			for i := 0; ; i++ {
				select {
				case <-stop:
					return
				default:
				}
				if i%2 == 0 {
					mux.HandleFunc(fmt.Sprintf("X%dR", i%7), func(diam.Conn, *diam.Message) {})
				} else {
					mux.HandleIdx(diam.CommandIndex{AppID: 7, Code: uint32(1000 + i%7), Request: true}, diam.HandlerFunc(func(diam.Conn, *diam.Message) {}))
				}
				regs.Add(1)
			}
		}()
		const G, N = 4, 40000
		var wg sync.WaitGroup
		for g := 0; g < G; g++ {
			wg.Add(1)
			go func() {
				defer wg.Done()
				dwr := diam.NewRequest(280, 0, def.Parser)
				dpr := diam.NewRequest(282, 0, def.Parser) // a base command nobody registered
				for i := 0; i < N; i++ {
					if (i+g)%2 == 0 {
						mux.ServeDIAM(nil, dwr)
					} else {
						mux.ServeDIAM(nil, dpr)
						unhandled.Add(1)
					}
				}
			}()
		}
		done := make(chan struct{})
		go func() { wg.Wait(); close(done) }()
		select {
		case <-done:
		case <-time.After(90 * time.Second):
			var lockers []string
			for _, g := range libGoroutines() {
				if strings.Contains(g.Stack, "sync.(*Mutex).Lock") || strings.Contains(g.Stack, "sync.(*RWMutex).Lock") || strings.Contains(g.Stack, "sync.(*RWMutex).RLock") {
					lockers = append(lockers, g.Stack)
				}
			}
			if len(lockers) > 0 {
				c.Fail(ev.Sig{"op": "blocked-on-library-lock", "frame": topLibFrame(lockers[0])}, nil, nil,
					"handlers registered at run time while messages (some of them of a known command that nobody handles) were being dispatched: dispatch stopped after %d handled and %d unhandled messages and %d registrations; %d goroutine(s) wait for a lock inside the library, e.g.\n%s", handled.Load(), unhandled.Load(), regs.Load(), len(lockers), lockers[0])
			} else {
				c.Fail(ev.Sig{"op": "watchdog"}, nil, nil, "dispatch of %d messages did not finish within 90 s of real time (%d handled, %d registrations)", G*N, handled.Load(), regs.Load())
			}
			rec.Close()
			os.Exit(0)
		}
		close(stop)
		rg.Wait()
		if handled.Load() != G*N/2 {
			c.Fail(ev.Sig{"op": "dispatch-count", "how": "registrations-during-unhandled-dispatch"}, nil, nil, "%d DWRs dispatched to a mux with a DWR handler, the handler ran %d times", G*N/2, handled.Load())
			return
		}
		c.Event("stress_dispatches", G*N)
		c.Event("stress_registrations", int(regs.Load()))
	})
	rec.Suite("slow-handlers-read-timeout", 12, func(c *ev.Case) {
		K, n := 1+c.I%3, 2+(c.I/3)%2
		rt := []time.Duration{100 * time.Millisecond, 2 * time.Second}[(c.I/6)%2]
		notify := false // with CloseNotify armed: see C14, suite closenotify-with-read-timeout
		c.Class("slow-handlers/K=%d/messages=%d/read-timeout=%v/close-notify=%v", K, n, rt, notify)
		leak := runBubbleWD(t, rec, c, 60*time.Second, func() { runC08SlowHandlers(c, ctx, K, n, rt, notify) })
		if leak != "" && !c.Failed() {
			c.Fail(ev.Sig{"op": "bubble-leak", "suite": "slow-handlers-read-timeout"}, nil, nil, "goroutines left blocked after the scenario ended: %s", leak)
		}
	})
	// one connection that lives long: 70 000 requests (more than any 16-bit counter holds), in
	// bursts; every one is dispatched, once, in order
	rec.Suite("long-connection", rec.N(2, 4), func(c *ev.Case) {
		// odd cases: the first handler asks for CloseNotify (everything then passes through the
		// copy routine), every request is a segment of its own and the handlers are slower than
		// the peer, so that segments queue up all along
		notify := c.I%2 == 1
		c.Class("long-connection/messages=70000/close-notify-and-backlog=%v", notify)
		leak := runBubbleWD(t, rec, c, 120*time.Second, func() {
			const total = 70000
			var mu sync.Mutex
			next, bad := uint32(1), ""
			hf := diam.HandlerFunc(func(dc diam.Conn, m *diam.Message) {
				mu.Lock()
				if m.Header.HopByHopID != next && bad == "" {
					bad = fmt.Sprintf("handler saw message %d, expected message %d", m.Header.HopByHopID, next)
				}
				first := next == 1
				next++
				mu.Unlock()
				if notify {
					if first {
						_ = dc.(diam.CloseNotifier).CloseNotify()
					}
					time.Sleep(time.Millisecond)
				}
			})
			mc := memnet.NewConn()
			ln := memnet.NewListener()
			srv := &diam.Server{Handler: hf, Dict: ctx.Parser}
			go srv.Serve(ln)
			ln.Offer(mc)
			defer func() {
				mc.FeedEOF()
				ln.Close()
				synctest.Wait()
			}()
			var burst []byte
			for s := uint32(1); s <= total; s++ {
				if notify {
					mc.Feed(seqMsg(s, []int{0, 12}[s%2]))
					if s%50 == 0 {
						time.Sleep(40 * time.Millisecond) // the peer stays some 10..50 segments ahead
					}
					continue
				}
				burst = append(burst, seqMsg(s, []int{0, 12}[s%2])...)
				if s%1000 == 0 {
					mc.Feed(burst)
					burst = burst[:0]
					synctest.Wait()
				}
			}
			time.Sleep(30 * time.Second)
			synctest.Wait()
			mu.Lock()
			defer mu.Unlock()
			if bad != "" || next != total+1 || mc.CloseCount() != 0 {
				c.Fail(ev.Sig{"op": "lost-or-duplicated", "suite": "long-connection"}, nil, nil, "one connection, %d requests: %d were dispatched (%s), transport closed %d time(s)", total, next-1, bad, mc.CloseCount())
				return
			}
			c.Event("handler_invocations", total)
		})
		if leak != "" && !c.Failed() {
			c.Fail(ev.Sig{"op": "bubble-leak", "suite": "long-connection"}, nil, nil, "goroutines left blocked after the scenario ended: %s", leak)
		}
	})
	rec.Suite("stalled-writer", 12, func(c *ev.Case) {
		K, size := 2+c.I%3, []int{100, 1500, 5000, 70000}[(c.I/3)%4]
		c.Class("stalled-writer/K=%d/answer-bytes=%d/mux=%v", K, size, c.I%2 == 0)
		leak := runBubbleWD(t, rec, c, 60*time.Second, func() { runC08StalledWriter(c, ctx, K, 3, size, c.I%2 == 0) })
		if leak != "" && !c.Failed() {
			c.Fail(ev.Sig{"op": "bubble-leak", "suite": "stalled-writer"}, nil, nil, "goroutines left blocked after the scenario ended: %s", leak)
		}
	})
	rec.Suite("relay-blocked-writer", 6, func(c *ev.Case) {
		size := []int{100, 5000, 70000}[c.I%3]
		rt := []time.Duration{0, time.Hour}[c.I/3]
		c.Class("relay-blocked-writer/bytes=%d/read-timeout=%v", size, rt)
		leak := runBubbleWD(t, rec, c, 60*time.Second, func() { runC08Relay(c, ctx, size, rt) })
		if leak != "" && !c.Failed() {
			c.Fail(ev.Sig{"op": "bubble-leak", "suite": "relay-blocked-writer"}, nil, nil, "goroutines left blocked after the scenario ended: %s", leak)
		}
	})
	rec.Suite("many-handshakes", 8, func(c *ev.Case) {
		P := []int{5, 33, 40, 130}[c.I%4]
		c.Class("many-handshakes/peers=%d/subscribed=%v", P, c.I/4 == 0)
		leak := runBubbleWD(t, rec, c, 60*time.Second, func() { runC08ManyHandshakes(c, def, P, c.I/4 == 0) })
		if leak != "" && !c.Failed() {
			c.Fail(ev.Sig{"op": "bubble-leak", "suite": "many-handshakes"}, nil, nil, "goroutines left blocked after the scenario ended: %s", leak)
		}
	})
	rec.Suite("scenarios", n, func(c *ev.Case) {
		r := c.R
		sc := c08Scenario{K: []int{1, 3, 5}[r.IntN(3)], dialled: r.IntN(2) == 0, pattern: r.IntN(3), handler: r.IntN(3), mux: r.IntN(2) == 0}
		long := r.IntN(4) == 0 // bursts well above any plausible read-ahead
		for i := 0; i < sc.K; i++ {
			n := 1 + r.IntN(12)
			if long {
				n = 33 + r.IntN(90)
			}
			sc.perConn = append(sc.perConn, n)
		}
		sc.holdConn = r.IntN(sc.K)
		sc.holdSeq = uint32(1 + r.IntN(min(sc.perConn[sc.holdConn], 3)))
		if r.IntN(3) == 0 {
			sc.prelude = 1 + r.IntN(3)
		}
		if sc.mux && sc.handler == 2 && sc.K > 1 && r.IntN(2) == 0 {
			sc.regWhileHeld = true
		}
		if sc.handler == 2 && sc.pattern == 0 && !sc.regWhileHeld && r.IntN(2) == 0 {
			sc.eofWhileHeld = true
		}
		if sc.handler == 2 && !sc.regWhileHeld && !sc.eofWhileHeld && sc.K > 1 && r.IntN(2) == 0 {
			sc.loadWhileHeld = true
		}
		if r.IntN(6) == 0 {
			sc.eofWhileHeld = false
			sc.regWhileHeld = false
			sc.loadWhileHeld = false
			sc.sctp, sc.dialled, sc.prelude = true, true, 0
			if sc.pattern == 1 {
				sc.pattern = 0
			}
		}
		if c.I%25 == 9 || c.I%25 == 18 {
			// many connections whose handlers all block at the same time
			sc = c08Scenario{K: []int{129, 130, 257, 600, 1030}[r.IntN(5)], dialled: r.IntN(4) == 0, handler: 3, mux: r.IntN(2) == 0}
			for i := 0; i < sc.K; i++ {
				sc.perConn = append(sc.perConn, 1+r.IntN(3))
			}
			long = false
		}
		c.Class("K=%d/dialled=%v/pattern=%d/handler=%d/mux=%v/long=%v/prelude=%d/sctp=%v", sc.K, sc.dialled, sc.pattern, sc.handler, sc.mux, long, sc.prelude, sc.sctp)
		if sc.regWhileHeld {
			c.Class("registration-while-a-handler-is-blocked/dialled=%v", sc.dialled)
		}
		if sc.loadWhileHeld {
			c.Class("handler-blocked-in-dictionary-load/dialled=%v", sc.dialled)
		}
		if sc.eofWhileHeld {
			c.Class("peer-closes-while-a-handler-that-asked-for-closenotify-is-blocked/dialled=%v", sc.dialled)
		}
		leak := runBubbleWD(t, rec, c, 60*time.Second, func() { runC08(c, ctx, sc) })
		if leak != "" && !c.Failed() {
			c.Fail(ev.Sig{"op": "bubble-leak"}, nil, nil, "goroutines left blocked after the scenario ended: %s (%+v)", leak, sc)
		}
		c.Event("scenarios", 1)
		if c.WantSample() && sc.handler == 2 && sc.K > 1 {
			c.Sample(map[string]any{"scenario": fmt.Sprintf("%+v", sc)})
		}
	})
}
