package props

import (
	"bytes"
	"crypto/ecdsa"
	"crypto/elliptic"
	crand "crypto/rand"
	"crypto/tls"
	"crypto/x509"
	"crypto/x509/pkix"
	"fmt"
	"math/big"
	"strings"
	"sync"
	"testing"
	"testing/synctest"
	"time"

	"github.com/fiorix/go-diameter/v4/diam"

	"verifharness/ev"
	"verifharness/lib"
	"verifharness/memnet"
	"verifharness/peer"
)

const (
	fPanic    = iota // the handler panics on this request
	fBad             // an undecodable message
	fEOF             // abrupt disconnect on a message boundary
	fEOFmid          // abrupt disconnect inside a message
	fBadBody         // a defined command whose body does not decode (an AVP declares a length beyond the message)
	fPanicNil        // the handler panics with a nil value (children run with GODEBUG=panicnil=1: recover() then returns nil, as for modules that declare go < 1.21 like the library itself)
	fCloseBad        // the handler closes the connection; an undecodable message is already buffered behind the request
	nFaults
)

var fNames = []string{"handler-panic", "undecodable-message", "disconnect", "disconnect-mid-message", "undecodable-body", "handler-nil-panic", "handler-close-then-undecodable"}

type c15Fault struct {
	conn, pos, kind int
}

type c15Scenario struct {
	K         int
	perConn   int
	faults    []c15Fault
	acceptErr int // temporary accept errors in a row
	acceptPos int // before which connection of the accept sequence
	// how the application installed its handler: 0 a ServeMux of its own in Server.Handler; 1 Server.Handler
	// left nil and the handler registered with diam.HandleFunc (DefaultServeMux; reports through
	// diam.ErrorReports); 2 a plain function in Server.Handler (nobody to offer an error report to)
	install int
}

func (s c15Scenario) String() string {
	var fs []string
	for _, f := range s.faults {
		fs = append(fs, fmt.Sprintf("%s on connection %d before request %d", fNames[f.kind], f.conn, f.pos+1))
	}
	return fmt.Sprintf("%d connections x %d requests; faults: %s; %d temporary accept errors before connection %d; handler installed %s", s.K, s.perConn, strings.Join(fs, ", "), s.acceptErr, s.acceptPos,
		[]string{"on a ServeMux in Server.Handler", "with diam.HandleFunc, Server.Handler nil", "as a plain function in Server.Handler", "as a type of its own that takes the error reports too and panics in its report method"}[s.install])
}

const panicMarker = 0x40000000
const panicNilMarker = 0x20000000
const closeMarker = 0x10000000

// c15AcceptErr: the temporary accept errors rotate between a plain temporary one (EMFILE-like)
// and one that is temporary and a time-out as well (an expired listener deadline, ETIMEDOUT)
func c15AcceptErr(i int) error {
	if i%2 == 1 {
		return memnet.TimeoutError{}
	}
	return &memnet.TempError{Msg: "accept: too many open files"}
}

// c15OwnReporter is an application's own handler type that also takes the error reports - and
// whose report method panics (it looks into the message of a report that has none): a panic
// raised by the handler, on the connection's goroutine like the others.
type c15OwnReporter func(diam.Conn, *diam.Message)

func (f c15OwnReporter) ServeDIAM(c diam.Conn, m *diam.Message) { f(c, m) }
func (f c15OwnReporter) Error(er *diam.ErrorReport) {
	if er.Message == nil {
		panic("verif: the report handler looked into a message that is not there")
	}
	panic("verif: the report handler blew up")
}
func (f c15OwnReporter) ErrorReports() <-chan *diam.ErrorReport { return nil }

func runC15(c *ev.Case, ctx *lib.Ctx, sc c15Scenario, lc *logCapture) {
	sig := func(op string) ev.Sig {
		kinds := ""
		for _, f := range sc.faults {
			kinds += fNames[f.kind] + "+"
		}
		return ev.Sig{"op": op, "faults": strings.TrimSuffix(kinds, "+"), "accept_errors": sc.acceptErr > 0}
	}
	before := len(lc.String())
	hf := func(dc diam.Conn, m *diam.Message) {
		if m.Header.HopByHopID&panicMarker != 0 {
			panic("handler blew up")
		}
		if m.Header.HopByHopID&panicNilMarker != 0 {
			var nothing interface{}
			panic(nothing)
		}
		if m.Header.HopByHopID&closeMarker != 0 {
			dc.Close()
			return
		}
		a := m.Answer(2001)
		if pl, err := m.FindAVP(9001, 0); err == nil {
			a.AddAVP(pl) // echo the payload: the answer shows which bytes the server read for this request
		}
		a.WriteTo(dc)
	}
	mux := diam.NewServeMux()
	srv := &diam.Server{Handler: mux, Dict: ctx.Parser}
	errorReports := mux.ErrorReports()
	switch sc.install {
	case 0:
		mux.HandleFunc("ALL", hf)
	case 1:
		diam.HandleFunc("ALL", hf)
		srv.Handler = nil
		errorReports = diam.ErrorReports()
		for more := true; more; { // nothing left over from an earlier scenario of this process
			select {
			case <-errorReports:
			default:
				more = false
			}
		}
	case 2:
		srv.Handler = diam.HandlerFunc(hf)
	case 3:
		srv.Handler = c15OwnReporter(hf)
	}
	ln := memnet.NewListener()
	serveDone := make(chan error, 1)
	go func() { serveDone <- srv.Serve(ln) }()
	conns := make([]*memnet.Conn, sc.K+1) // the last one is opened after the faults
	for i := range conns {
		conns[i] = memnet.NewConn()
		conns[i].Remote = memnet.Addr{Net: "tcp", Str: fmt.Sprintf("10.0.0.%d:999", i+1)}
		conns[i].Local = memnet.Addr{Net: "tcp", Str: fmt.Sprintf("10.1.2.%d:3868", i+1)}
	}
	// a third of the scenarios: the connections that will have a fault are of a kind whose
	// RemoteAddr() is nil ("the remote network address, if known": what the SCTP transport
	// the library ships with returns once the association is gone)
	noAddr := c.I%3 == 2
	if noAddr {
		c.Class("faulty-connections-without-remote-address")
		for _, f := range sc.faults {
			conns[f.conn].NoRemoteAddr = true
		}
	}
	for i := 0; i < sc.K; i++ {
		if i == sc.acceptPos {
			for e := 0; e < sc.acceptErr; e++ {
				ln.OfferErr(c15AcceptErr(e + len(sc.faults)))
			}
		}
		ln.Offer(conns[i])
	}
	if sc.acceptPos >= sc.K {
		for e := 0; e < sc.acceptErr; e++ {
			ln.OfferErr(c15AcceptErr(e + len(sc.faults)))
		}
	}
	// per-connection streams
	faultAt := map[[2]int]int{}
	for _, f := range sc.faults {
		faultAt[[2]int{f.conn, f.pos}] = f.kind + 1
	}
	wantAnswered := make([][]uint32, sc.K)
	faulty := make([]bool, sc.K)
	reportsOffered := 0
	for i := 0; i < sc.K; i++ {
		dead := false
		for p := 0; p <= sc.perConn && !dead; p++ {
			if k := faultAt[[2]int{i, p}]; k != 0 {
				faulty[i] = true
				dead = true
				switch k - 1 {
				case fPanic:
					conns[i].Feed(seqMsg(panicMarker|uint32(p+1), 12))
				case fBad:
					conns[i].Feed(peer.Msg(0x80, 8388606, 0, 1, 1))
					reportsOffered++
				case fEOF:
					conns[i].FeedEOF()
				case fBadBody:
					b := seqMsg(uint32(p+1), 100)
					b[20+5], b[20+6], b[20+7] = 0, 0x40, 0 // the AVP claims 16 KiB
					conns[i].Feed(b)
					reportsOffered++
				case fEOFmid:
					conns[i].Feed(seqMsg(uint32(p+1), 100)[:57])
					conns[i].FeedEOF()
					reportsOffered++
				case fPanicNil:
					conns[i].Feed(seqMsg(panicNilMarker|uint32(p+1), 12))
				case fCloseBad:
					conns[i].Feed(append(seqMsg(closeMarker|uint32(p+1), 12), peer.Msg(0x80, 8388606, 0, 1, 1)...))
					reportsOffered++
				}
				break
			}
			if p < sc.perConn {
				id := uint32(i)<<8 | uint32(p+1)
				conns[i].Feed(seqMsg(id, []int{0, 12, 100, 1024}[(i+p)%4]))
				wantAnswered[i] = append(wantAnswered[i], id)
			}
		}
	}
	// virtual time absorbs the accept back-off
	time.Sleep(5 * time.Second)
	synctest.Wait()
	// the application registers one more handler at run time (takes the mux's
	// write lock: it must not be held by anything the faults left behind)
	mux.HandleFunc("GAR", func(dc diam.Conn, m *diam.Message) { m.Answer(2001).WriteTo(dc) })
	// a fresh connection after the faults
	ln.Offer(conns[sc.K])
	postIDs := []uint32{0xA001, 0xA002}
	for _, id := range postIDs {
		conns[sc.K].Feed(seqMsg(id, 12))
	}
	time.Sleep(5 * time.Second)
	synctest.Wait()
	// after the faults the healthy connections (and the fresh one) each deliver a request in two
	// fragments, interleaved across the connections: every answer echoes its own request's payload
	var echoConns []int
	for i := 0; i <= sc.K; i++ {
		if i == sc.K || !faulty[i] {
			echoConns = append(echoConns, i)
		}
	}
	echoReq := map[int][]byte{}
	for _, i := range echoConns {
		id := 0xB000 | uint32(i)
		echoReq[i] = seqMsg(id, 100+4*i)
		if i == sc.K {
			postIDs = append(postIDs, id)
		} else {
			wantAnswered[i] = append(wantAnswered[i], id)
		}
		conns[i].Feed(echoReq[i][:70])
	}
	synctest.Wait()
	for k := len(echoConns) - 1; k >= 0; k-- {
		i := echoConns[k]
		conns[i].Feed(echoReq[i][70:])
		synctest.Wait()
	}
	desc := sc.String()
	defer func() {
		for _, mc := range conns {
			mc.FeedEOF()
		}
		ln.Close()
		synctest.Wait()
	}()
	select {
	case err := <-serveDone:
		c.Fail(sig("serve-returned"), nil, nil, "Server.Serve returned (%v); %s", err, desc)
		return
	default:
	}
	answered := func(mc *memnet.Conn) []uint32 {
		msgs, _ := peer.SplitMessages(mc.Written())
		var ids []uint32
		for _, m := range msgs {
			h := peer.Header(m)
			if h.Flags&0x80 == 0 {
				ids = append(ids, h.HopByHop)
			}
		}
		return ids
	}
	for i := 0; i < sc.K; i++ {
		got := answered(conns[i])
		if fmt.Sprint(got) != fmt.Sprint(wantAnswered[i]) {
			op := "healthy-connection-not-served"
			if faulty[i] {
				op = "requests-before-the-fault-not-answered"
			}
			c.Fail(sig(op), nil, nil, "connection %d (faulty=%v): answers for %v, expected answers for %v; %s", i, faulty[i], got, wantAnswered[i], desc)
			return
		}
		if faulty[i] && conns[i].CloseCount() == 0 {
			c.Fail(sig("faulty-connection-not-closed"), nil, nil, "connection %d had a fault but its transport was not closed; %s", i, desc)
			return
		}
		if !faulty[i] && conns[i].CloseCount() != 0 {
			c.Fail(sig("healthy-connection-closed"), nil, nil, "connection %d had no fault but its transport was closed; %s", i, desc)
			return
		}
	}
	if got := answered(conns[sc.K]); fmt.Sprint(got) != fmt.Sprint(postIDs) {
		c.Fail(sig("listener-stopped-accepting"), nil, nil, "the connection opened after the faults got answers for %v, expected %v (accept calls: %d); %s", got, postIDs, ln.AcceptCalls(), desc)
		return
	}
	for _, i := range echoConns {
		msgs, _ := peer.SplitMessages(conns[i].Written())
		want := peer.Find(echoReq[i], 9001)
		ok := false
		for _, m := range msgs {
			if h := peer.Header(m); h.HopByHop == 0xB000|uint32(i) && h.Flags&0x80 == 0 {
				got := peer.Find(m, 9001)
				ok = len(got) == 1 && len(want) == 1 && bytes.Equal(got[0], want[0])
			}
		}
		if !ok {
			c.Fail(sig("healthy-connection-served-other-bytes"), nil, nil, "after the faults, connection %d delivered a request in two fragments while other connections did the same: the answer does not echo the payload that was sent on this connection; %s", i, desc)
			return
		}
	}
	reports := 0
	for more := true; more; {
		select {
		case rep := <-errorReports:
			reports++
			// what the application is told: an error, and the connection it happened on
			ok := rep != nil && rep.Error != nil && rep.Conn != nil
			if ok {
				ok = false
				for i := 0; i < sc.K; i++ {
					// identified by the local address (every connection of a scenario has its own):
					// the remote one may be unknown to the transport
					if faulty[i] && rep.Conn.LocalAddr().String() == conns[i].Local.String() {
						ok = true
					}
				}
			}
			if !ok {
				c.Fail(sig("error-report-content"), nil, nil, "the error report offered for undecodable input does not name a connection on which undecodable input occurred, or carries no error: %+v; %s", rep, desc)
				return
			}
		default:
			more = false
		}
	}
	reporterPanics := sc.install == 3 && reportsOffered > 0
	if sc.install >= 2 {
		reportsOffered = 0
	}
	if want := min(reportsOffered, 1); reports != want {
		c.Fail(sig("error-report"), nil, nil, "%d error report(s) readable, %d expected (undecodable input occurred %d times, the channel holds one); %s", reports, want, reportsOffered, desc)
		return
	}
	logs := lc.String()[before:]
	wantPanic := false
	for _, f := range sc.faults {
		if f.kind == fPanic {
			wantPanic = true
		}
	}
	wantPanic = wantPanic || reporterPanics
	if wantPanic != strings.Contains(logs, "panic serving") {
		c.Fail(sig("panic-log"), nil, nil, "handler panic scripted=%v but the log says: %q; %s", wantPanic, logs[:min(len(logs), 300)], desc)
		return
	}
	c.Event("scenarios", 1)
	c.Event("faults_injected", len(sc.faults)+sc.acceptErr)
	n := 0
	for _, w := range wantAnswered {
		n += len(w)
	}
	c.Event("answers_matched", n+2)
}

var (
	c15CertOnce sync.Once
	c15Cert     tls.Certificate
	c15CertErr  error
)

func c15TLSConfig() (*tls.Config, error) {
	c15CertOnce.Do(func() {
		key, err := ecdsa.GenerateKey(elliptic.P256(), crand.Reader)
		if err != nil {
			c15CertErr = err
			return
		}
		tmpl := &x509.Certificate{SerialNumber: big.NewInt(1), Subject: pkix.Name{CommonName: "verif"},
			NotBefore: time.Unix(0, 0), NotAfter: time.Unix(4000000000, 0), KeyUsage: x509.KeyUsageDigitalSignature}
		der, err := x509.CreateCertificate(crand.Reader, tmpl, tmpl, &key.PublicKey, key)
		if err != nil {
			c15CertErr = err
			return
		}
		c15Cert = tls.Certificate{Certificate: [][]byte{der}, PrivateKey: key}
	})
	return &tls.Config{Certificates: []tls.Certificate{c15Cert}}, c15CertErr
}

// runC15TLS: one accepted connection is a TLS connection whose peer sends three
// bytes of a handshake record and then stays silent (connected). That must not
// keep the listener from accepting and serving the other connections.
func runC15TLS(c *ev.Case, ctx *lib.Ctx, pos int) {
	sig := func(op string) ev.Sig { return ev.Sig{"op": op, "faults": "tls-stalled-handshake"} }
	cfg, err := c15TLSConfig()
	if err != nil {
		c.Fail(sig("setup"), nil, nil, "certificate: %v", err)
		return
	}
	mux := diam.NewServeMux()
	mux.HandleFunc("ALL", func(dc diam.Conn, m *diam.Message) { m.Answer(2001).WriteTo(dc) })
	srv := &diam.Server{Handler: mux, Dict: ctx.Parser}
	ln := memnet.NewListener()
	serveDone := make(chan error, 1)
	go func() { serveDone <- srv.Serve(ln) }()
	stalled := memnet.NewConn()
	healthy := []*memnet.Conn{memnet.NewConn(), memnet.NewConn(), memnet.NewConn()}
	offered := 0
	for i := 0; i <= len(healthy); i++ {
		if i == pos {
			ln.Offer(tls.Server(stalled, cfg))
			stalled.Feed([]byte{0x16, 0x03, 0x01})
		}
		if i < len(healthy) {
			ln.Offer(healthy[i])
			offered++
		}
	}
	for i, mc := range healthy {
		mc.Feed(seqMsg(uint32(i+1), 12))
	}
	time.Sleep(5 * time.Second)
	synctest.Wait()
	defer func() {
		stalled.FeedEOF()
		for _, mc := range healthy {
			mc.FeedEOF()
		}
		ln.Close()
		time.Sleep(time.Second)
		synctest.Wait()
	}()
	select {
	case err := <-serveDone:
		c.Fail(sig("serve-returned"), nil, nil, "Server.Serve returned (%v) with a stalled TLS handshake at accept position %d", err, pos)
		return
	default:
	}
	for i, mc := range healthy {
		msgs, _ := peer.SplitMessages(mc.Written())
		if len(msgs) != 1 || peer.Header(msgs[0]).HopByHop != uint32(i+1) {
			c.Fail(sig("listener-stopped-accepting"), nil, nil, "connection %d (accepted after/before a TLS connection whose handshake is stalled at accept position %d) got %d answers; accept calls so far: %d", i, pos, len(msgs), ln.AcceptCalls())
			return
		}
	}
	c.Event("scenarios", 1)
	c.Event("faults_injected", 1)
	c.Event("answers_matched", len(healthy))
}

func TestC15(t *testing.T) {
	rec := ev.Open(t, "C15")
	defer rec.Close()
	ctx := genCtx(t)
	lc, restore := captureLog()
	defer restore()
	var scs []c15Scenario
	for _, K := range []int{2, 3} {
		per := 3
		// one fault at every (connection, position)
		for conn := 0; conn < K; conn++ {
			for pos := 0; pos <= per; pos++ {
				for kind := 0; kind < nFaults; kind++ {
					scs = append(scs, c15Scenario{K: K, perConn: per, faults: []c15Fault{{conn, pos, kind}}})
				}
			}
		}
		// temporary accept errors at every position of the accept sequence
		for e := 1; e <= 4; e++ {
			for pos := 0; pos <= K; pos++ {
				scs = append(scs, c15Scenario{K: K, perConn: per, acceptErr: e, acceptPos: pos})
				scs = append(scs, c15Scenario{K: K, perConn: per, acceptErr: e, acceptPos: pos, faults: []c15Fault{{pos % K, 1, (e + pos) % nFaults}}})
			}
		}
	}
	rec.Suite("placements", len(scs), func(c *ev.Case) {
		sc := scs[c.I]
		sc.install = []int{0, 1, 3, 2, 1, 0, 3}[(c.I/2+c.I/20)%7]
		c.Class("handler-installed=%d", sc.install)
		k := "none"
		if len(sc.faults) > 0 {
			k = fNames[sc.faults[0].kind]
		}
		c.Class("K=%d/fault=%s/accept-errors=%d", sc.K, k, sc.acceptErr)
		leak := runBubbleWD(t, rec, c, 60*time.Second, func() { runC15(c, ctx, sc, lc) })
		if leak != "" && !c.Failed() {
			c.Fail(ev.Sig{"op": "bubble-leak"}, nil, nil, "goroutines left blocked after the scenario: %s; %s", leak, sc.String())
		}
		if c.WantSample() && len(sc.faults) > 0 && sc.acceptErr > 0 {
			c.Sample(map[string]any{"scenario": sc.String()})
		}
	})
	rec.Exhaustive("placements")
	rec.Suite("tls-stalled-handshake", 4*rec.N(2, 100), func(c *ev.Case) {
		pos := c.I % 4
		c.Class("K=3/fault=tls-stalled-handshake/pos=%d", pos)
		leak := runBubbleWD(t, rec, c, 60*time.Second, func() { runC15TLS(c, ctx, pos) })
		if leak != "" && !c.Failed() {
			c.Fail(ev.Sig{"op": "bubble-leak", "faults": "tls-stalled-handshake"}, nil, nil, "goroutines left blocked after the scenario: %s", leak)
		}
	})
	rec.Suite("two-faults-random", rec.N(600, 400000), func(c *ev.Case) {
		r := c.R
		sc := c15Scenario{K: []int{2, 3, 5}[r.IntN(3)], perConn: 1 + r.IntN(5)}
		nf := 1 + r.IntN(2)
		used := map[int]bool{}
		for i := 0; i < nf; i++ {
			cn := r.IntN(sc.K)
			if used[cn] {
				continue
			}
			used[cn] = true
			sc.faults = append(sc.faults, c15Fault{cn, r.IntN(sc.perConn + 1), r.IntN(nFaults)})
		}
		if r.IntN(2) == 0 {
			sc.acceptErr, sc.acceptPos = 1+r.IntN(4), r.IntN(sc.K+1)
		}
		sc.install = []int{0, 1, 2, 3}[r.IntN(4)]
		c.Class("random/K=%d/faults=%d/accept-errors=%v/handler-installed=%d", sc.K, len(sc.faults), sc.acceptErr > 0, sc.install)
		leak := runBubbleWD(t, rec, c, 60*time.Second, func() { runC15(c, ctx, sc, lc) })
		if leak != "" && !c.Failed() {
			c.Fail(ev.Sig{"op": "bubble-leak"}, nil, nil, "goroutines left blocked after the scenario: %s; %s", leak, sc.String())
		}
	})
	// faults at the same moment (real scheduler): four connections receive undecodable input
	// while four healthy ones each send a request nobody handles (also an error report) and
	// then a request that is handled; the application never reads ErrorReports.  Every handled
	// request is answered: offering a report never holds a connection up.
	rec.Suite("faults-at-once", rec.N(12, 600), func(c *ev.Case) {
		c.Class("faults-at-once")
		const F, H = 4, 4
		rounds := 200
		mux := diam.NewServeMux()
		mux.HandleFunc("GTR", func(dc diam.Conn, m *diam.Message) { m.Answer(2001).WriteTo(dc) })
		for round := 0; round < rounds; round++ {
			start := make(chan struct{})
			done := make(chan bool, H)
			var all []*memnet.Conn
			for k := 0; k < F+H; k++ {
				mc := memnet.NewConn()
				all = append(all, mc)
				if _, err := diam.NewConn(mc, "peer", mux, ctx.Parser); err != nil {
					c.Fail(ev.Sig{"op": "setup"}, nil, nil, "NewConn: %v", err)
					return
				}
				healthy := k >= F
				go func(k int) {
					<-start
					if !healthy {
						mc.Feed(peer.Msg(0x80, 8388606, 0, 1, 1))
						return
					}
					unhandled := seqMsg(uint32(k), 12)
					unhandled[5], unhandled[6], unhandled[7] = 0, 1, 1 // command 257: known to the dictionary, no handler
					mc.Feed(unhandled)
					mc.Feed(seqMsg(uint32(1000+k), 12))
					deadline := time.After(20 * time.Second)
					for {
						if msgs, _ := peer.SplitMessages(mc.Written()); len(msgs) >= 1 {
							done <- peer.Header(msgs[0]).HopByHop == uint32(1000+k)
							return
						}
						select {
						case <-deadline:
							done <- false
							return
						case <-time.After(200 * time.Microsecond):
						}
					}
				}(k)
			}
			close(start)
			ok := true
			for k := 0; k < H; k++ {
				if !<-done {
					ok = false
				}
			}
			for _, mc := range all {
				mc.FeedEOF()
			}
			if !ok {
				c.Fail(ev.Sig{"op": "healthy-connection-not-served", "faults": "undecodable-message", "how": "faults-at-once"}, nil, nil, "round %d: %d connections received undecodable input while %d healthy ones sent an unhandled and then a handled request at the same moment (nobody reads ErrorReports): a handled request was not answered within 20 s", round, F, H)
				return
			}
		}
		c.Event("scenarios", rounds)
		c.Event("faults_injected", rounds*F)
		c.Event("answers_matched", rounds*H)
	})
}
