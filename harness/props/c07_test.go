package props

import (
	"bytes"
	"errors"
	"fmt"
	"hash/fnv"
	"io"
	"math"
	"net"
	"sort"
	"sync"
	"sync/atomic"
	"testing"
	"testing/synctest"
	"time"

	"github.com/fiorix/go-diameter/v4/diam"
	"github.com/fiorix/go-diameter/v4/diam/datatype"

	"verifharness/ev"
	"verifharness/lib"
	"verifharness/memnet"
	"verifharness/peer"
	"verifharness/refcodec"
	"verifharness/sctpmem"
)

var c07Sizes = []int{60, 1000, 1030, 4000, 4200, 20000}

// fillerFor: payload bytes as a function of the message identity.
func fillerFor(id uint32, n int) []byte {
	b := make([]byte, n)
	x := id*2654435761 + 12345
	for i := range b {
		x = x*1664525 + 1013904223
		b[i] = byte(x >> 24)
	}
	return b
}

func c07Message(ctx *lib.Ctx, writer, seq, size int) (*diam.Message, uint32) {
	id := uint32(writer)<<16 | uint32(seq)
	m := diam.NewMessage(8388000, diam.RequestFlag, 0, id, ^id, ctx.Parser)
	m.Header.HopByHopID, m.Header.EndToEndID = id, ^id
	m.NewAVP(uint32(9001), 0x40, 0, datatype.OctetString(fillerFor(id, size)))
	return m, id
}

// checkWireLog: the offline oracle over what the transport received.
func checkWireLog(log []byte, okIDs map[uint32]int, sizes map[uint32]int) (order map[int][]int, problem string) {
	msgs, rest := peer.SplitMessages(log)
	if len(rest) != 0 {
		return nil, fmt.Sprintf("%d bytes on the transport that are not part of a whole message (after %d messages)", len(rest), len(msgs))
	}
	seen := map[uint32]int{}
	order = map[int][]int{}
	for i, mb := range msgs {
		h := peer.Header(mb)
		if h.Version != 1 || h.Code != 8388000 || h.EndToEnd != ^h.HopByHop {
			return nil, fmt.Sprintf("message %d on the transport is corrupted: header %+v", i, h)
		}
		id := h.HopByHop
		pl := peer.Find(mb, 9001)
		if len(pl) != 1 {
			return nil, fmt.Sprintf("message %d (id %#x) is corrupted: %d payload AVPs", i, id, len(pl))
		}
		if want, ok := sizes[id]; !ok || want != len(pl[0]) || !bytes.Equal(pl[0], fillerFor(id, len(pl[0]))) {
			return nil, fmt.Sprintf("message %d (writer %d seq %d) carries foreign or damaged bytes (payload %d bytes, expected %d)", i, id>>16, id&0xffff, len(pl[0]), want)
		}
		seen[id]++
		order[int(id>>16)] = append(order[int(id>>16)], int(id&0xffff))
	}
	for id := range okIDs {
		if seen[id] != 1 {
			return nil, fmt.Sprintf("message writer %d seq %d was written successfully but appears %d times on the transport", id>>16, id&0xffff, seen[id])
		}
	}
	for id, n := range seen {
		if n > 1 {
			return nil, fmt.Sprintf("message writer %d seq %d appears %d times", id>>16, id&0xffff, n)
		}
	}
	for w, seqs := range order {
		for i := 1; i < len(seqs); i++ {
			if seqs[i] <= seqs[i-1] {
				return nil, fmt.Sprintf("writer %d: sequence %v is not in the order written", w, seqs)
			}
		}
	}
	return order, ""
}

func TestC07(t *testing.T) {
	rec := ev.Open(t, "C07")
	defer rec.Close()
	ctx := genCtx(t)

	// (a) concurrent writers on one connection, transport stalls in mid-write
	n := rec.N(300, 100000)
	if rec.Race() {
		n = rec.N(150, 20000)
	}
	rec.Suite("concurrent-writers", n, func(c *ev.Case) {
		r := c.R
		W := []int{1, 2, 3, 8, 32}[r.IntN(5)]
		per := 1 + r.IntN(200/W+1)
		mc := memnet.NewConn()
		// a third of the runs use a transport whose Write is not atomic per call
		// (chunks of 200 bytes, other writers may get in between)
		if c.I%3 == 2 {
			mc.NonAtomic, mc.ChunkSize = true, 200
		}
		var stallCtr atomic.Uint32
		stallSeed := r.Uint32()
		mc.Script = func(seq int, b []byte) memnet.Outcome {
			k := stallCtr.Add(1)
			h := fnv.New32a()
			h.Write([]byte{byte(k), byte(k >> 8), byte(stallSeed), byte(stallSeed >> 8)})
			x := h.Sum32()
			if x%3 == 0 || len(b) == 0 {
				return memnet.Outcome{Accept: -1, StallAt: -1}
			}
			return memnet.Outcome{Accept: -1, StallAt: int(x>>8) % len(b)}
		}
		// a quarter of the runs write on a connection accepted by a Server that has
		// read and write timeouts configured, and mostly large messages
		serverSide := c.I%4 == 1
		var conn diam.Conn
		var err error
		if serverSide {
			got := make(chan diam.Conn, 1)
			srv := &diam.Server{Dict: ctx.Parser, ReadTimeout: time.Hour, WriteTimeout: time.Hour,
				Handler: diam.HandlerFunc(func(dc diam.Conn, _ *diam.Message) {
					select {
					case got <- dc:
					default:
					}
				})}
			ln := memnet.NewListener()
			go srv.Serve(ln)
			defer ln.Close()
			ln.Offer(mc)
			hello, _ := c07Message(ctx, 0x7fff, 0, 60)
			hb, _ := hello.Serialize()
			mc.Feed(hb)
			select {
			case conn = <-got:
			case <-time.After(30 * time.Second):
				c.Fail(ev.Sig{"op": "watchdog"}, nil, nil, "the server did not hand over the accepted connection in 30 s")
				return
			}
		} else {
			conn, err = diam.NewConn(mc, "peer", diam.HandlerFunc(func(diam.Conn, *diam.Message) {}), ctx.Parser)
		}
		if err != nil {
			c.Fail(ev.Sig{"op": "setup"}, nil, nil, "NewConn: %v", err)
			return
		}
		okIDs := map[uint32]int{}
		sizes := map[uint32]int{}
		var mu sync.Mutex
		var wg sync.WaitGroup
		plan := make([][]int, W)
		for w := 0; w < W; w++ {
			for s := 0; s < per; s++ {
				sz := c07Sizes[r.IntN(len(c07Sizes))]
				if sz == 20000 && r.IntN(4) != 0 && !serverSide {
					sz = 1030
				}
				if serverSide && r.IntN(2) == 0 {
					sz = 20000 + 4*r.IntN(12000)
				}
				plan[w] = append(plan[w], sz)
				sizes[uint32(w)<<16|uint32(s)] = sz
			}
		}
		var werr atomic.Value
		for w := 0; w < W; w++ {
			wg.Add(1)
			go func(w int) {
				defer wg.Done()
				for s, sz := range plan[w] {
					m, id := c07Message(ctx, w, s, sz)
					var nn int64
					var err error
					switch w % 3 { // the entry points a writer may use on a connection
					case 0:
						nn, err = m.WriteTo(conn) // a locally created message (no stream)
					case 1:
						var k int
						k, err = m.WriteToStream(conn, 0) // like an answer to a message received on stream 0
						nn = int64(k)
					default:
						var k int
						k, err = m.WriteToStreamWithRetry(conn, uint(w), 1)
						nn = int64(k)
					}
					if err != nil {
						werr.Store(fmt.Errorf("writer %d seq %d: %v", w, s, err))
						return
					}
					if int(nn) != m.Len() {
						werr.Store(fmt.Errorf("writer %d seq %d: WriteTo returned %d for a %d-byte message", w, s, nn, m.Len()))
						return
					}
					mu.Lock()
					okIDs[id]++
					mu.Unlock()
				}
			}(w)
		}
		wg.Wait()
		mc.FeedEOF()
		<-mc.Closed()
		if e := werr.Load(); e != nil {
			c.Fail(ev.Sig{"op": "write-error"}, nil, nil, "a write failed on a healthy transport: %v", e)
			return
		}
		order, problem := checkWireLog(mc.Written(), okIDs, sizes)
		c.Class("writers=%d/non-atomic-transport=%v/server-side-with-timeouts=%v", W, mc.NonAtomic, serverSide)
		if problem != "" {
			c.Fail(ev.Sig{"op": "wire-log", "writers": W}, nil, nil, "%d writers x %d messages: %s", W, per, problem)
			return
		}
		// interleaving fingerprint: order of writers on the wire
		fp := fnv.New64a()
		msgs, _ := peer.SplitMessages(mc.Written())
		for _, mb := range msgs {
			fp.Write([]byte{byte(peer.Header(mb).HopByHop >> 16)})
		}
		c.Class("interleaving/%x", fp.Sum64()%4096)
		c.Event("messages_on_wire", len(msgs))
		c.Event("runs", 1)
		_ = order
		if c.WantSample() && W > 1 && len(msgs) < 40 {
			var seq []string
			for _, mb := range msgs {
				id := peer.Header(mb).HopByHop
				seq = append(seq, fmt.Sprintf("w%d#%d", id>>16, id&0xffff))
			}
			c.Sample(map[string]any{"writers": W, "wire_order": seq})
		}
	})

	// (a') the same over a real loopback TCP socket (kernel buffers, real scheduler)
	rec.Suite("concurrent-writers-tcp", rec.N(24, 6000), func(c *ev.Case) {
		r := c.R
		ln, err := net.Listen("tcp", "127.0.0.1:0")
		if err != nil {
			c.Fail(ev.Sig{"op": "setup"}, nil, nil, "listen: %v", err)
			return
		}
		defer ln.Close()
		got := make(chan []byte, 1)
		go func() {
			cn, err := ln.Accept()
			if err != nil {
				got <- nil
				return
			}
			b, _ := io.ReadAll(cn)
			cn.Close()
			got <- b
		}()
		conn, err := diam.Dial(ln.Addr().String(), diam.HandlerFunc(func(diam.Conn, *diam.Message) {}), ctx.Parser)
		if err != nil {
			c.Fail(ev.Sig{"op": "setup"}, nil, nil, "dial: %v", err)
			return
		}
		W := []int{2, 3, 8, 32}[r.IntN(4)]
		per := 1 + r.IntN(300/W+1)
		okIDs := map[uint32]int{}
		sizes := map[uint32]int{}
		plan := make([][]int, W)
		for w := 0; w < W; w++ {
			for s := 0; s < per; s++ {
				sz := c07Sizes[r.IntN(len(c07Sizes))]
				plan[w] = append(plan[w], sz)
				sizes[uint32(w)<<16|uint32(s)] = sz
			}
		}
		var mu sync.Mutex
		var wg sync.WaitGroup
		var werr atomic.Value
		for w := 0; w < W; w++ {
			wg.Add(1)
			go func(w int) {
				defer wg.Done()
				for s, sz := range plan[w] {
					m, id := c07Message(ctx, w, s, sz)
					if _, err := m.WriteTo(conn); err != nil {
						werr.Store(fmt.Errorf("writer %d seq %d: %v", w, s, err))
						return
					}
					mu.Lock()
					okIDs[id]++
					mu.Unlock()
				}
			}(w)
		}
		wg.Wait()
		conn.Close()
		var log []byte
		select {
		case log = <-got:
		case <-time.After(60 * time.Second):
			c.Fail(ev.Sig{"op": "watchdog"}, nil, nil, "the TCP peer did not see EOF within 60 s")
			return
		}
		if e := werr.Load(); e != nil {
			c.Fail(ev.Sig{"op": "write-error", "via": "tcp"}, nil, nil, "a write failed on a healthy TCP connection: %v", e)
			return
		}
		c.Class("tcp/writers=%d", W)
		if _, problem := checkWireLog(log, okIDs, sizes); problem != "" {
			c.Fail(ev.Sig{"op": "wire-log", "writers": W, "via": "tcp"}, nil, nil, "over loopback TCP, %d writers x %d messages: %s", W, per, problem)
			return
		}
		msgs, _ := peer.SplitMessages(log)
		c.Event("messages_on_wire", len(msgs))
		c.Event("tcp_runs", 1)
	})

	// (b) retry scripts: every sequence of (bytes accepted, temporary error)
	// outcomes within the budget, then success / exhaustion / permanent error
	type step struct {
		accept int // -1 = all remaining and success
		perm   bool
	}
	var scripts [][]step
	ks := []int{0, 1, 19, 20, 21, -2} // -2 = len-1
	maxLen := 3
	if !rec.Quick() {
		maxLen = 5
	}
	var build func(cur []step)
	build = func(cur []step) {
		// terminal variants
		scripts = append(scripts, append(append([]step{}, cur...), step{accept: -1}))            // success now
		scripts = append(scripts, append(append([]step{}, cur...), step{accept: 5, perm: true})) // permanent error
		if len(cur) >= maxLen {
			return
		}
		for _, k := range ks {
			build(append(cur, step{accept: k}))
		}
	}
	build(nil)
	rec.Suite("retry-scripts", len(scripts)*4, func(c *ev.Case) {
		sc := scripts[c.I/4]
		via := []string{"io.Writer", "diam.Conn", "diam.Conn-big", "diam.SCTPConn"}[c.I%4]
		size := 44
		if via == "diam.Conn-big" {
			size = 5000
		}
		m, _ := c07Message(ctx, 1, c.I, size)
		img, _ := m.Serialize()
		ntemp := 0
		for _, s := range sc {
			if !s.perm && s.accept != -1 {
				ntemp++
			}
		}
		for _, retries := range []int{ntemp, ntemp + 1, max(ntemp-1, 0), -1} { // -1: the largest budget the type can express
			// expected outcome by the script and the budget: every attempt offers the
			// bytes not yet accepted; at most retries+1 attempts; a permanent error,
			// a success or an exhausted budget ends it
			var expect []byte
			pos := 0
			left := retries
			if retries < 0 {
				left = math.MaxInt
			}
			wantErr := ""
			for _, s := range sc {
				remaining := img[pos:]
				if s.accept == -1 {
					expect = append(expect, remaining...)
					pos = len(img)
					wantErr = ""
					break
				}
				k := s.accept
				if k == -2 {
					k = len(remaining) - 1
				}
				if k > len(remaining) {
					k = len(remaining)
				}
				if k < 0 {
					k = 0
				}
				expect = append(expect, remaining[:k]...)
				pos += k
				if s.perm {
					wantErr = "perm"
					break
				}
				if left == 0 {
					wantErr = "temp"
					break
				}
				left--
			}
			// transport
			mc := memnet.NewConn()
			idx := 0
			mc.Script = func(seq int, b []byte) memnet.Outcome {
				if idx >= len(sc) {
					return memnet.Outcome{Accept: -1, StallAt: -1}
				}
				s := sc[idx]
				idx++
				if s.accept == -1 {
					return memnet.Outcome{Accept: -1, StallAt: -1}
				}
				k := s.accept
				if k == -2 {
					k = len(b) - 1
				}
				if k > len(b) {
					k = len(b)
				}
				if k < 0 {
					k = 0
				}
				if s.perm {
					return memnet.Outcome{Accept: k, Err: errors.New("permanent transport error"), StallAt: -1}
				}
				return memnet.Outcome{Accept: k, Err: &memnet.TempError{Msg: "temporary transport error"}, StallAt: -1}
			}
			var w io.Writer = mc
			var assoc *sctpmem.Assoc
			if via == "diam.SCTPConn" {
				// the same script on a multi-stream association (in-memory backend)
				assoc = sctpmem.New()
				assoc.WriteScript = func(seq int, b []byte) (int, error) {
					o := mc.Script(seq, b)
					if o.Accept < 0 {
						return len(b), o.Err
					}
					return o.Accept, o.Err
				}
				msc := diam.VerifNewSCTPConn(assoc)
				defer diam.VerifRelease(msc)
				conn, err := diam.NewConn(msc, "peer", diam.HandlerFunc(func(diam.Conn, *diam.Message) {}), ctx.Parser)
				if err != nil {
					c.Fail(ev.Sig{"op": "setup"}, nil, nil, "NewConn: %v", err)
					return
				}
				w = conn
			} else if via != "io.Writer" {
				conn, err := diam.NewConn(mc, "peer", diam.HandlerFunc(func(diam.Conn, *diam.Message) {}), ctx.Parser)
				if err != nil {
					c.Fail(ev.Sig{"op": "setup"}, nil, nil, "NewConn: %v", err)
					return
				}
				w = conn
			}
			var nn int64
			var err error
			budget := uint(retries)
			if retries < 0 {
				budget = ^uint(0)
			}
			if p, bad := guard(func() { nn, err = m.WriteToWithRetry(w, budget) }); bad {
				c.Fail(ev.Sig{"op": "retry-panic", "via": via}, nil, nil, "WriteToWithRetry panicked: %s", p)
				return
			}
			got := mc.Written()
			if assoc != nil {
				got = nil
				for _, wr := range assoc.Writes() {
					got = append(got, wr.Data...)
				}
				assoc.FeedEOF()
				<-assoc.Closed()
			}
			mc.FeedEOF()
			if via != "io.Writer" && assoc == nil {
				<-mc.Closed()
			}
			desc := fmt.Sprintf("via %s, %d-byte message, retries=%d, script %s", via, len(img), budget, descScript(sc))
			c.Class("%s/temps=%d/retries-vs-temps=%d/end=%s", via, ntemp, min(retries-ntemp, 2), wantErr)
			sig := func(op string) ev.Sig { return ev.Sig{"op": op, "via": via} }
			if !bytes.Equal(got, expect) {
				what := "differs"
				switch {
				case bytes.HasPrefix(expect, got):
					what = fmt.Sprintf("stops after %d of the %d expected bytes (the remaining bytes were never sent)", len(got), len(expect))
				case len(got) > len(expect):
					what = fmt.Sprintf("has %d bytes where %d were expected (bytes sent more than once?)", len(got), len(expect))
				}
				c.Fail(sig("retry-bytes"), nil, map[string]any{"script": descScript(sc)}, "what reached the transport %s; returned n=%d err=%v; %s", what, nn, err, desc)
				return
			}
			if (wantErr == "") != (err == nil) {
				c.Fail(sig("retry-result"), nil, nil, "returned err=%v, expected %q; %s", err, wantErr, desc)
				return
			}
			if int(nn) != len(expect) {
				c.Fail(sig("retry-count"), nil, nil, "returned n=%d but the transport accepted %d bytes; %s", nn, len(expect), desc)
				return
			}
			c.Event("retry_scripts", 1)
		}
	})
	rec.Exhaustive("retry-scripts")
	// retries and several writers together: the transport accepts part of a message and reports a
	// temporary error now and then while W goroutines write with retries.  The resumed remainder
	// must follow its first part: no other writer's message in between.
	rec.Suite("retry-with-writers", rec.N(60, 6000), func(c *ev.Case) {
		r := c.R
		W := 2 + r.IntN(3)
		per := 6
		c.Class("retry-with-writers/W=%d", W)
		mc := memnet.NewConn()
		seed := r.Uint32()
		mc.Script = func(seq int, b []byte) memnet.Outcome {
			x := uint32(seq)*2654435761 ^ seed
			x ^= x >> 15
			if len(b) > 8 && x%3 == 0 {
				return memnet.Outcome{Accept: 1 + int(x>>8)%(len(b)-1), Err: &memnet.TempError{Msg: "temporary transport error"}, StallAt: -1}
			}
			return memnet.Outcome{Accept: -1, StallAt: -1}
		}
		conn, err := diam.NewConn(mc, "peer", diam.HandlerFunc(func(diam.Conn, *diam.Message) {}), ctx.Parser)
		if err != nil {
			c.Fail(ev.Sig{"op": "setup"}, nil, nil, "NewConn: %v", err)
			return
		}
		okIDs := map[uint32]int{}
		sizes := map[uint32]int{}
		var mu sync.Mutex
		var wg sync.WaitGroup
		var werr atomic.Value
		for w := 0; w < W; w++ {
			for s := 0; s < per; s++ {
				sizes[uint32(w)<<16|uint32(s)] = c07Sizes[(w+s)%len(c07Sizes)]
			}
		}
		for w := 0; w < W; w++ {
			wg.Add(1)
			go func(w int) {
				defer wg.Done()
				for s := 0; s < per; s++ {
					m, id := c07Message(ctx, w, s, sizes[uint32(w)<<16|uint32(s)])
					if _, err := m.WriteToWithRetry(conn, 50); err != nil {
						werr.Store(fmt.Errorf("writer %d seq %d: %v", w, s, err))
						return
					}
					mu.Lock()
					okIDs[id]++
					mu.Unlock()
				}
			}(w)
		}
		wg.Wait()
		mc.FeedEOF()
		<-mc.Closed()
		if e := werr.Load(); e != nil {
			c.Fail(ev.Sig{"op": "write-error", "how": "retry-with-writers"}, nil, nil, "a write with 50 retries failed on a transport that only reports temporary errors: %v", e)
			return
		}
		if _, problem := checkWireLog(mc.Written(), okIDs, sizes); problem != "" {
			c.Fail(ev.Sig{"op": "wire-log", "writers": W, "how": "retry-with-writers"}, nil, nil, "%d writers x %d messages with retries, a third of the transport's writes accept a part and report a temporary error: %s", W, per, problem)
			return
		}
		c.Event("messages_on_wire", W*per)
		c.Event("retry_with_writers_runs", 1)
	})
	// the same on a multi-stream association: writers of messages without a stream of their own
	// (they leave on the default stream 0) and writers that name stream 0 share that stream
	rec.Suite("retry-with-writers-sctp", rec.N(40, 4000), func(c *ev.Case) {
		r := c.R
		W := 2 + r.IntN(3)
		per := 6
		c.Class("retry-with-writers-sctp/W=%d", W)
		assoc := sctpmem.New()
		seed := r.Uint32()
		assoc.WriteScript = func(seq int, b []byte) (int, error) {
			x := uint32(seq)*2654435761 ^ seed
			x ^= x >> 15
			if len(b) > 8 && x%3 == 0 {
				return 1 + int(x>>8)%(len(b)-1), &memnet.TempError{Msg: "temporary transport error"}
			}
			return len(b), nil
		}
		msc := diam.VerifNewSCTPConn(assoc)
		defer diam.VerifRelease(msc)
		conn, err := diam.NewConn(msc, "peer", diam.HandlerFunc(func(diam.Conn, *diam.Message) {}), ctx.Parser)
		if err != nil {
			c.Fail(ev.Sig{"op": "setup"}, nil, nil, "NewConn: %v", err)
			return
		}
		okIDs := map[uint32]int{}
		sizes := map[uint32]int{}
		for w := 0; w < W; w++ {
			for s := 0; s < per; s++ {
				sizes[uint32(w)<<16|uint32(s)] = c07Sizes[(w+s)%len(c07Sizes)]
			}
		}
		var mu sync.Mutex
		var wg sync.WaitGroup
		var werr atomic.Value
		for w := 0; w < W; w++ {
			wg.Add(1)
			go func(w int) {
				defer wg.Done()
				for s := 0; s < per; s++ {
					m, id := c07Message(ctx, w, s, sizes[uint32(w)<<16|uint32(s)])
					var err error
					if w%2 == 0 {
						_, err = m.WriteToWithRetry(conn, 50)
					} else {
						_, err = m.WriteToStreamWithRetry(conn, 0, 50)
					}
					if err != nil {
						werr.Store(fmt.Errorf("writer %d seq %d: %v", w, s, err))
						return
					}
					mu.Lock()
					okIDs[id]++
					mu.Unlock()
				}
			}(w)
		}
		// in half of the cases the peer sends requests on other streams all the while (the
		// handler does nothing): which stream the reader is on changes between the attempts
		// of a write
		stopFeed := make(chan struct{})
		feedDone := make(chan struct{})
		go func() {
			defer close(feedDone)
			if c.I%2 == 0 {
				return
			}
			for i := 0; i < 2000; i++ {
				select {
				case <-stopFeed:
					return
				default:
				}
				assoc.Feed(uint16(1+i%3), peer.Msg(0x80, 8388000, 0, uint32(0x7000+i), 1, peer.Str(9001, refcodec.OctetString, "inbound")))
				time.Sleep(20 * time.Microsecond)
			}
		}()
		wg.Wait()
		close(stopFeed)
		<-feedDone
		// every message must be whole on one stream: the per-stream logs, one after the other
		perStream := map[uint16][]byte{}
		var streams []int
		for _, wr := range assoc.Writes() {
			if _, ok := perStream[wr.Stream]; !ok {
				streams = append(streams, int(wr.Stream))
			}
			perStream[wr.Stream] = append(perStream[wr.Stream], wr.Data...)
		}
		sort.Ints(streams)
		var log []byte
		for _, st := range streams {
			log = append(log, perStream[uint16(st)]...)
		}
		assoc.FeedEOF()
		<-assoc.Closed()
		if e := werr.Load(); e != nil {
			c.Fail(ev.Sig{"op": "write-error", "how": "retry-with-writers-sctp"}, nil, nil, "a write with 50 retries failed on an association that only reports temporary errors: %v", e)
			return
		}
		if _, problem := checkWireLog(log, okIDs, sizes); problem != "" {
			c.Fail(ev.Sig{"op": "wire-log", "writers": W, "how": "retry-with-writers-sctp"}, nil, nil, "%d writers x %d messages with retries on stream 0 of an association (half of them without naming a stream; inbound requests on other streams meanwhile: %v), a third of the sends accept a part and report a temporary error; per-stream logs of streams %v: %s", W, per, c.I%2 == 1, streams, problem)
			return
		}
		c.Event("messages_on_wire", W*per)
		c.Event("retry_with_writers_runs", 1)
	})
	rec.Suite("stalled-transport", 2*4*3*2, func(c *ev.Case) {
		sctpConn := c.I%2 == 0
		stallAt := (c.I / 2) % 4
		retries := []uint{0, 1, 3}[(c.I/8)%3]
		timeout := []time.Duration{40 * time.Millisecond, time.Second}[(c.I/24)%2]
		stall := 10 * timeout
		if !sctpConn {
			// the stream transport enforces the write deadline the library sets: the stalled write
			// returns what it had accepted and a time-out after WriteTimeout, and one retry is
			// enough to send the rest
			stall = timeout + timeout/2
		}
		c.Class("stalled-transport/sctp=%v/at=%d/retries=%d", sctpConn, stallAt, retries)
		leak := runBubbleWD(t, rec, c, 60*time.Second, func() { runC07Stalled(c, ctx, timeout, stall, stallAt, retries, sctpConn) })
		if leak != "" && !c.Failed() {
			c.Fail(ev.Sig{"op": "bubble-leak", "via": "stalled-transport"}, nil, nil, "goroutines left blocked after the scenario: %s", leak)
		}
	})
	rec.Exhaustive("stalled-transport")
}

// runC07Stalled: an association accepted by a Server with a WriteTimeout; the transport's send
// blocks for longer than that timeout in the middle of the traffic and then goes on.  A writer
// that asked for retries must still see each of its messages on the wire exactly once.
func runC07Stalled(c *ev.Case, ctx *lib.Ctx, timeout, stall time.Duration, stallAt int, retries uint, sctpConn bool) {
	sig := func(op string) ev.Sig { return ev.Sig{"op": op, "via": "stalled-transport", "sctp": sctpConn} }
	const nMsgs = 4
	var conn diam.Conn
	connCh := make(chan diam.Conn, 1)
	h := diam.HandlerFunc(func(dc diam.Conn, m *diam.Message) {
		select {
		case connCh <- dc:
		default:
		}
	})
	srv := &diam.Server{Handler: h, Dict: ctx.Parser, WriteTimeout: timeout}
	ln := memnet.NewListener()
	go srv.Serve(ln)
	defer ln.Close()
	var assoc *sctpmem.Assoc
	var mc *memnet.Conn
	hello, _ := c07Message(ctx, 0x7fff, 0, 60)
	hb, _ := hello.Serialize()
	wseq := 0
	if sctpConn {
		assoc = sctpmem.New()
		assoc.WriteDelay = func(b []byte) time.Duration {
			wseq++
			if wseq-1 == stallAt {
				return stall
			}
			return 0
		}
		msc := diam.VerifNewSCTPConn(assoc)
		defer diam.VerifRelease(msc)
		ln.Offer(msc)
		assoc.Feed(3, hb)
	} else {
		mc = memnet.NewConn()
		// the send buffer fills up once, at a byte position inside message stallAt: in its first
		// half, or (the 100 KB message) 70 000 bytes in - however the library slices its writes
		sizes := []int{60, 1000, 100000, 20000}
		target := 0
		for i := 0; i < stallAt; i++ {
			target += sizes[i] + 28
		}
		if sizes[stallAt] > 65536 {
			target += 70000
		} else {
			target += sizes[stallAt] / 2
		}
		stalled := false
		mc.Script = func(seq int, b []byte) memnet.Outcome {
			o := memnet.Outcome{Accept: -1, StallAt: -1}
			sent := len(mc.Written())
			if !stalled && sent <= target && target < sent+len(b) {
				stalled = true
				o.StallAt, o.StallFor = target-sent, stall
			}
			return o
		}
		ln.Offer(mc)
		mc.Feed(hb)
	}
	synctest.Wait()
	select {
	case conn = <-connCh:
	default:
		c.Fail(sig("setup"), nil, nil, "the server did not dispatch the first message")
		return
	}
	var want [][]byte
	failedAt, failedErr := -1, error(nil)
	for i := 0; i < nMsgs; i++ {
		sz := []int{60, 1000, 4200, 20000}[i%4]
		if !sctpConn {
			sz = []int{60, 1000, 100000, 20000}[i%4]
		}
		m, _ := c07Message(ctx, 1, i, sz)
		img, _ := m.Serialize()
		want = append(want, img)
		var err error
		if sctpConn {
			_, err = m.WriteToStreamWithRetry(conn, retries, uint(i%3))
		} else {
			_, err = m.WriteToWithRetry(conn, retries)
		}
		if err != nil && !sctpConn && retries >= 1 {
			c.Fail(sig("not-resumed-after-write-timeout"), nil, nil, "message %d: the transport reported a partial write and a time-out once (send buffer full for %v, WriteTimeout %v), the writer had asked for %d retries: the write returned %v instead of sending the rest", i, stall, timeout, retries, err)
			return
		}
		if err != nil {
			// the writer was told about a failure (a transport that enforces the write timeout
			// does that): nothing more is written; what reached the transport of this
			// message must be a prefix of it, once
			failedAt, failedErr = i, err
			break
		}
	}
	time.Sleep(4 * stall) // virtual: anything still in flight lands
	synctest.Wait()
	var got []byte
	if sctpConn {
		for _, w := range assoc.Writes() {
			got = append(got, w.Data...)
		}
	} else {
		got = mc.Written()
	}
	exp := bytes.Join(want, nil)
	ok := bytes.Equal(got, exp)
	if failedAt >= 0 {
		whole := bytes.Join(want[:failedAt], nil)
		ok = bytes.HasPrefix(got, whole) && bytes.HasPrefix(want[failedAt], got[len(whole):])
	}
	if !ok {
		msgs, rest := peer.SplitMessages(got)
		c.Fail(sig("stalled-bytes"), nil, nil, "%d messages were written while the transport blocked once for %v (WriteTimeout %v, retries %d; write %d returned %v): the transport saw %d whole messages and %d stray bytes (%d bytes; the messages make %d)",
			len(want), stall, timeout, retries, failedAt, failedErr, len(msgs), len(rest), len(got), len(exp))
		return
	}
	c.Event("stalled_transport_cases", 1)
	if sctpConn {
		assoc.FeedEOF()
	} else {
		mc.FeedEOF()
	}
	synctest.Wait()
}

func descScript(sc interface{}) string { return fmt.Sprintf("%+v", sc) }
