//go:build verif

// Package sctpmem is an in-memory SCTP association for the "verif" hook of
// diam.SCTPConn (diam.VerifNewSCTPConn). It mimics the socket semantics the
// demultiplexer relies on: every read returns data of exactly one stream with
// that stream's number; a read shorter than the head chunk leaves the
// remainder at the head with the same stream (partial delivery).
package sctpmem

import (
	"errors"
	"io"
	"net"
	"sync"
	"time"

	"github.com/ishidawataru/sctp"
)

var ErrClosed = errors.New("sctpmem: use of closed association")

type chunk struct {
	stream uint16
	data   []byte
	err    error // a one-off read error instead of data
}

// WriteRec is one SCTPWrite call.
type WriteRec struct {
	Stream uint16
	PPID   uint32
	Data   []byte
	NoInfo bool
}

type addr string

func (a addr) Network() string { return "sctp" }
func (a addr) String() string  { return string(a) }

// Assoc implements diam.VerifSCTPBackend.
type Assoc struct {
	mu       sync.Mutex
	cond     *sync.Cond
	in       []chunk
	inErr    error
	closed   bool
	closes   int
	writes   []WriteRec
	closedCh chan struct{}
	once     sync.Once

	// Delivered counts the bytes returned by SCTPRead per stream.
	delivered map[uint16]int
	Reads     int
	// WriteScript, if set, scripts SCTPWrite outcomes: bytes accepted and error.
	WriteScript func(seq int, b []byte) (int, error)
	// WriteDelay, if set (before the association is used), makes SCTPWrite block for the
	// returned duration before it takes effect.
	WriteDelay func(b []byte) time.Duration
	wseq       int
	// Remote, if set, is what RemoteAddr reports (several associations in one scenario).
	Remote string
}

func New() *Assoc {
	a := &Assoc{closedCh: make(chan struct{}), delivered: map[uint16]int{}}
	a.cond = sync.NewCond(&a.mu)
	return a
}

// Feed queues one data chunk of a stream.
func (a *Assoc) Feed(stream uint16, data []byte) {
	if len(data) == 0 {
		return
	}
	a.mu.Lock()
	a.in = append(a.in, chunk{stream: stream, data: append([]byte(nil), data...)})
	a.mu.Unlock()
	a.cond.Broadcast()
}

// FeedOnceErr queues an error that one SCTPRead returns, after the chunks queued before it
// and before those queued after it (an interrupted system call: the association is fine).
func (a *Assoc) FeedOnceErr(err error) {
	a.mu.Lock()
	a.in = append(a.in, chunk{err: err})
	a.mu.Unlock()
	a.cond.Broadcast()
}

func (a *Assoc) FeedEOF() { a.FeedErr(io.EOF) }

// FeedWithErr queues a chunk whose last bytes are handed over together with err (a reader
// may return n > 0 and an error from one call); every later read returns err.
func (a *Assoc) FeedWithErr(stream uint16, data []byte, err error) {
	a.mu.Lock()
	a.in = append(a.in, chunk{stream: stream, data: append([]byte(nil), data...), err: err})
	a.mu.Unlock()
	a.cond.Broadcast()
}

func (a *Assoc) FeedErr(err error) {
	a.mu.Lock()
	a.inErr = err
	a.mu.Unlock()
	a.cond.Broadcast()
}

func (a *Assoc) SCTPRead(b []byte) (int, *sctp.SndRcvInfo, error) {
	a.mu.Lock()
	defer a.mu.Unlock()
	a.Reads++
	for len(a.in) == 0 && a.inErr == nil && !a.closed {
		a.cond.Wait()
	}
	if a.closed {
		return 0, nil, ErrClosed
	}
	if len(a.in) > 0 && a.in[0].err != nil && len(a.in[0].data) == 0 {
		err := a.in[0].err
		a.in = a.in[1:]
		return 0, nil, err
	}
	if len(a.in) > 0 {
		c := &a.in[0]
		n := copy(b, c.data)
		info := &sctp.SndRcvInfo{Stream: c.stream}
		a.delivered[c.stream] += n
		if n == len(c.data) {
			err := c.err // FeedWithErr: the last bytes of the chunk come with the error
			a.in = a.in[1:]
			if err != nil {
				a.inErr = err
				return n, info, err
			}
		} else {
			c.data = c.data[n:]
		}
		return n, info, nil
	}
	return 0, nil, a.inErr
}

func (a *Assoc) SCTPWrite(b []byte, info *sctp.SndRcvInfo) (int, error) {
	if a.WriteDelay != nil {
		// a send buffer that is full for a while: the call blocks (outside the backend's lock)
		if d := a.WriteDelay(b); d > 0 {
			time.Sleep(d)
		}
	}
	a.mu.Lock()
	defer a.mu.Unlock()
	if a.closed {
		return 0, ErrClosed
	}
	n, err := len(b), error(nil)
	if a.WriteScript != nil {
		n, err = a.WriteScript(a.wseq, b)
		if n < 0 || n > len(b) {
			n = len(b)
		}
	}
	a.wseq++
	rec := WriteRec{Data: append([]byte(nil), b[:n]...)}
	if info != nil {
		rec.Stream, rec.PPID = info.Stream, info.PPID
	} else {
		rec.NoInfo = true
	}
	a.writes = append(a.writes, rec)
	return n, err
}

func (a *Assoc) Close() error {
	a.mu.Lock()
	a.closed = true
	a.closes++
	a.mu.Unlock()
	a.cond.Broadcast()
	a.once.Do(func() { close(a.closedCh) })
	return nil
}

func (a *Assoc) Closed() <-chan struct{} { return a.closedCh }

func (a *Assoc) CloseCount() int {
	a.mu.Lock()
	defer a.mu.Unlock()
	return a.closes
}

func (a *Assoc) Writes() []WriteRec {
	a.mu.Lock()
	defer a.mu.Unlock()
	return append([]WriteRec(nil), a.writes...)
}

// Delivered returns the bytes handed to the reader so far, per stream.
func (a *Assoc) Delivered() map[uint16]int {
	a.mu.Lock()
	defer a.mu.Unlock()
	m := map[uint16]int{}
	for k, v := range a.delivered {
		m[k] = v
	}
	return m
}

// Pending reports queued chunks not yet read.
func (a *Assoc) Pending() int {
	a.mu.Lock()
	defer a.mu.Unlock()
	return len(a.in)
}

func (a *Assoc) LocalAddr() net.Addr { return addr("10.1.2.3:3868") }
func (a *Assoc) RemoteAddr() net.Addr {
	if a.Remote != "" {
		return addr(a.Remote)
	}
	return addr("10.9.8.7:45678")
}
