// Package gen draws abstract messages (header + AVP tree) from a PRNG, for a
// given dictionary. It imports nothing from the code under test.
package gen

import (
	"math"
	"math/rand/v2"
	"sync"

	"verifharness/refcodec"
	"verifharness/refdict"
)

// Dict is a dictionary context on the reference side.
type Dict struct {
	Name  string
	Files []*refdict.File
	Set   *refdict.Set
	Ix    *refdict.Index
	// per application: AVP definitions visible from it (own + parents + base)
	vmu     sync.Mutex // the harness draws messages from several goroutines
	visible map[uint32][]*refdict.AVPDef
	Cmds    []refdict.CmdDef // commands with a non-empty rule list in both directions... see CmdOK
}

func NewDict(name string, files ...*refdict.File) *Dict {
	d := &Dict{Name: name, Files: files, Set: refdict.NewSet(files...), visible: map[uint32][]*refdict.AVPDef{}}
	d.Ix = d.Set.Index()
	d.Cmds = d.Set.Cmds()
	return d
}

// TypeFunc returns the reference type resolver for an application: exact
// vendor match (0 when the V flag is clear), through the application chain.
func (d *Dict) TypeFunc(app uint32) refcodec.TypeFunc {
	return func(code, vendor uint32, hasV bool) refcodec.Kind {
		if !hasV {
			vendor = 0
		} else if vendor == refdict.AnyVendor {
			// on the wire 0xffffffff is a vendor id like any other (nobody's); only in lookups
			// is it the wildcard
			return refcodec.Unknown
		}
		def, ok := d.Ix.FindAVP(app, code, vendor)
		if !ok {
			return refcodec.Unknown
		}
		k, ok := refcodec.KindOf(def.Type)
		if !ok {
			return refcodec.Unknown
		}
		return k
	}
}

// Visible lists the definitions an application resolves, one per (code,vendor)
// — the one the resolver would return.
func (d *Dict) Visible(app uint32) []*refdict.AVPDef {
	d.vmu.Lock()
	defer d.vmu.Unlock()
	if v, ok := d.visible[app]; ok {
		return v
	}
	seen := map[[2]uint32]bool{}
	var out []*refdict.AVPDef
	all := d.Set.AVPs()
	for _, a := range refdict.Chain(app) {
		for i := range all {
			def := &all[i]
			if def.App != a {
				continue
			}
			k := [2]uint32{def.Code, def.Vendor}
			if seen[k] {
				continue
			}
			seen[k] = true
			res, _ := d.Ix.FindAVP(app, def.Code, def.Vendor)
			out = append(out, res)
		}
	}
	d.visible[app] = out
	return out
}

// Opts shapes the generated trees.
type Opts struct {
	MaxDepth   int
	MaxAVPs    int
	BigStrings bool // allow a few strings near 2^16
	RiskAddr   bool // generate only the known-risk Address classes for Address AVPs
	NoAddr     bool
	NoUnknown  bool
	OnlyKinds  map[refcodec.Kind]bool
	SkipKinds  map[refcodec.Kind]bool
}

var strLens = []int{0, 1, 2, 3, 4, 5, 6, 7, 8, 9, 15, 16, 17, 31, 32, 33, 63, 64, 65, 66, 67}

func strLen(r *rand.Rand, big bool) int {
	switch x := r.IntN(100); {
	case x < 70:
		return strLens[r.IntN(len(strLens))]
	case x < 97:
		return r.IntN(68)
	case x < 99 || !big:
		return 100 + r.IntN(2000)
	default:
		return 65530 + r.IntN(12)
	}
}

func randBytes(r *rand.Rand, n int) []byte {
	b := make([]byte, n)
	for i := range b {
		b[i] = byte(r.Uint32())
	}
	return b
}

func asciiBytes(r *rand.Rand, n int) []byte {
	const al = "abcdefghijklmnopqrstuvwxyz0123456789.-:/;=ABCDEFGHIJKLMNOPQRSTUVWXYZ "
	b := make([]byte, n)
	for i := range b {
		b[i] = al[r.IntN(len(al))]
	}
	return b
}

func utf8Bytes(r *rand.Rand, n int) []byte {
	// valid UTF-8 of exactly n bytes
	b := make([]byte, 0, n)
	for len(b) < n {
		left := n - len(b)
		switch x := r.IntN(10); {
		case x < 7 || left < 2:
			b = append(b, byte(0x20+r.IntN(0x5f)))
		case x < 9 || left < 3:
			b = append(b, 0xC3, byte(0x80+r.IntN(0x40))) // U+00C0..U+00FF
		default:
			b = append(b, 0xE2, 0x82, 0xAC) // €
		}
	}
	return b
}

var int32s = []int64{0, 1, -1, math.MaxInt32, math.MinInt32, 2001, 5012, 127, 128, 255, 256, 65535, 65536}
var uint32s = []uint64{0, 1, math.MaxUint32, 1 << 31, 1<<31 - 1, 2001, 3001, 5012, 10415, 255, 256, 65535, 65536}
var int64s = []int64{0, 1, -1, math.MaxInt64, math.MinInt64, math.MaxInt32, math.MinInt32, 1 << 32, -(1 << 32)}
var uint64s = []uint64{0, 1, math.MaxUint64, 1 << 63, 1<<63 - 1, 1 << 32, math.MaxUint32}
var f32s = []uint32{0, 0x80000000, 0x7f800000, 0xff800000, 0x7fc00000, 0x7fc00001, 0xffc12345, 0x7f800001, 0x7fa00000, 0xff812345, 1, 0x007fffff, 0x00800000, 0x7f7fffff, 0x3f800000}
var f64s = []uint64{0, 0x8000000000000000, 0x7ff0000000000000, 0xfff0000000000000, 0x7ff8000000000000, 0x7ff8000000000001, 0xfff8123456789abc, 0x7ff0000000000001, 0x7ff4000000000000, 0xfff0123456789abc, 1, 0x000fffffffffffff, 0x0010000000000000, 0x7fefffffffffffff, 0x3ff0000000000000}

const (
	TimeMin  = -61505152  // 1968-01-20T03:14:08Z: wire value 0x80000000
	TimeEra1 = 2085978496 // 2036-02-07T06:28:16Z: wire value 0
	TimeMax  = 4233462143 // 2104-02-26T09:42:23Z: wire value 0x7fffffff
)

var times = []int64{TimeMin, TimeMin + 1, 0, 1, -1, TimeEra1 - 1, TimeEra1, TimeEra1 + 1, TimeMax, TimeMax - 1, 1700000000, 2147483647, 2147483648}

// Value fills n's value fields with a value valid for kind k.
func Value(r *rand.Rand, n *refcodec.Node, k refcodec.Kind, o *Opts, depth int, kids func(depth int) []*refcodec.Node) {
	n.Kind = k
	pick := r.IntN(2) == 0
	switch k {
	case refcodec.Integer32, refcodec.Enumerated:
		if pick {
			n.I = int32s[r.IntN(len(int32s))]
		} else {
			n.I = int64(int32(r.Uint32()))
		}
	case refcodec.Unsigned32:
		if pick {
			n.U = uint32s[r.IntN(len(uint32s))]
		} else {
			n.U = uint64(r.Uint32())
		}
	case refcodec.Integer64:
		if pick {
			n.I = int64s[r.IntN(len(int64s))]
		} else {
			n.I = int64(r.Uint64())
		}
	case refcodec.Unsigned64:
		if pick {
			n.U = uint64s[r.IntN(len(uint64s))]
		} else {
			n.U = r.Uint64()
		}
	case refcodec.Float32:
		if pick {
			n.U = uint64(f32s[r.IntN(len(f32s))])
		} else {
			n.U = uint64(r.Uint32())
		}
	case refcodec.Float64:
		if pick {
			n.U = f64s[r.IntN(len(f64s))]
		} else {
			n.U = r.Uint64()
		}
	case refcodec.Time:
		if pick {
			n.I = times[r.IntN(len(times))]
		} else {
			n.I = TimeMin + r.Int64N(TimeMax-TimeMin+1)
		}
	case refcodec.Address:
		Addr(r, n, o != nil && o.RiskAddr)
	case refcodec.IPv4:
		n.B = randBytes(r, 4)
	case refcodec.IPv6:
		n.B = randBytes(r, 16)
	case refcodec.UTF8String:
		n.B = utf8Bytes(r, strLen(r, o != nil && o.BigStrings))
	case refcodec.DiameterIdentity, refcodec.DiameterURI, refcodec.IPFilterRule, refcodec.QoSFilterRule:
		n.B = asciiBytes(r, strLen(r, o != nil && o.BigStrings))
	case refcodec.Grouped:
		if kids != nil {
			n.Kids = kids(depth + 1)
		}
	default: // OctetString, Unknown
		n.B = randBytes(r, strLen(r, o != nil && o.BigStrings))
	}
}

// IsV4Mapped: ::ffff:a.b.c.d
func IsV4Mapped(b []byte) bool {
	if len(b) != 16 {
		return false
	}
	for i := 0; i < 10; i++ {
		if b[i] != 0 {
			return false
		}
	}
	return b[10] == 0xff && b[11] == 0xff
}

// RiskAddress reports the Address values whose in-memory representation is
// ambiguous in the code under test: family 2 with a v4-mapped payload, and a
// family other than 1/2 whose payload including the family is 4 or 16 bytes.
func RiskAddress(fam uint16, b []byte) bool {
	if fam == 2 && IsV4Mapped(b) {
		return true
	}
	if fam != 1 && fam != 2 && (len(b)+2 == 4 || len(b)+2 == 16) {
		return true
	}
	return false
}

// Addr draws an Address value: IPv4, IPv6 or another family; risk selects the
// known-risk classes only, otherwise they are never produced.
func Addr(r *rand.Rand, n *refcodec.Node, risk bool) {
	if risk {
		switch r.IntN(3) {
		case 0:
			n.Fam = 2
			n.B = append(make([]byte, 10), 0xff, 0xff, byte(r.Uint32()), byte(r.Uint32()), byte(r.Uint32()), byte(r.Uint32()))
		case 1:
			n.Fam = otherFam(r)
			n.B = randBytes(r, 2)
		default:
			n.Fam = otherFam(r)
			n.B = randBytes(r, 14)
		}
		return
	}
	for {
		switch r.IntN(3) {
		case 0:
			n.Fam = 1
			n.B = randBytes(r, 4)
		case 1:
			n.Fam = 2
			n.B = randBytes(r, 16)
			if r.IntN(4) == 0 {
				copy(n.B, make([]byte, 8)) // many leading zeros
			}
		default:
			n.Fam = otherFam(r)
			n.B = randBytes(r, 1+r.IntN(20))
		}
		if !RiskAddress(n.Fam, n.B) {
			return
		}
	}
}

func otherFam(r *rand.Rand) uint16 {
	if r.IntN(2) == 0 {
		return uint16(3 + r.IntN(30)) // E.164 = 8 etc.
	}
	return uint16(3 + r.IntN(65532-3)) // 3..65534
}

// Msg is an abstract message.
type Msg struct {
	H     refcodec.Header
	Nodes []*refcodec.Node
}

var ids = []uint32{0, 1, 1 << 31, math.MaxUint32}

func ID(r *rand.Rand) uint32 {
	if r.IntN(3) == 0 {
		return ids[r.IntN(len(ids))]
	}
	return r.Uint32()
}

// Header draws a header for one of the dictionary's commands.
func (d *Dict) Header(r *rand.Rand, cmds []refdict.CmdDef) (refcodec.Header, *refdict.CmdDef) {
	c := &cmds[r.IntN(len(cmds))]
	h := refcodec.Header{Version: 1, Flags: uint8(r.Uint32()), Code: c.Code, App: c.App, HopByHop: ID(r), EndToEnd: ID(r)}
	return h, c
}

// Tree draws a list of AVPs for application app.
func (d *Dict) Tree(r *rand.Rand, app uint32, o *Opts) []*refcodec.Node {
	vis := d.Visible(app)
	var rec func(depth int) []*refcodec.Node
	rec = func(depth int) []*refcodec.Node {
		max := o.MaxAVPs
		if depth > 0 {
			max = 4
		}
		n := r.IntN(max + 1)
		var out []*refcodec.Node
		for i := 0; i < n; i++ {
			if !o.NoUnknown && r.IntN(8) == 0 {
				out = append(out, d.unknown(r, app, o))
				continue
			}
			def := vis[r.IntN(len(vis))]
			k, ok := refcodec.KindOf(def.Type)
			if !ok {
				continue
			}
			if k == refcodec.Grouped && depth >= o.MaxDepth {
				continue
			}
			if o.OnlyKinds != nil && !o.OnlyKinds[k] && k != refcodec.Grouped {
				continue
			}
			if o.SkipKinds != nil && o.SkipKinds[k] {
				continue
			}
			if k == refcodec.Address && o.NoAddr {
				continue
			}
			node := &refcodec.Node{Code: def.Code, Vendor: def.Vendor}
			node.Flags = uint8(r.Uint32()) & 0x7f
			if r.IntN(4) != 0 {
				node.Flags &= 0x60 // reserved bits clear most of the time
			}
			if def.Vendor != 0 {
				node.Flags |= refcodec.AVPFlagV
			} else if r.IntN(50) == 0 {
				node.Flags |= refcodec.AVPFlagV // V flag with vendor id 0
			}
			Value(r, node, k, o, depth, rec)
			out = append(out, node)
		}
		return out
	}
	return rec(0)
}

func (d *Dict) unknown(r *rand.Rand, app uint32, o *Opts) *refcodec.Node {
	for {
		n := &refcodec.Node{Kind: refcodec.Unknown}
		if vis := d.Visible(app); r.IntN(4) == 0 && len(vis) > 0 {
			// a code the dictionary defines, under a vendor id it does not define it
			// for (another vendor, or none): opaque data, not that definition's type
			def := vis[r.IntN(len(vis))]
			n.Code = def.Code
			n.Flags = uint8(r.Uint32()) & 0x60
			if def.Vendor == 0 || r.IntN(2) == 0 {
				n.Flags |= refcodec.AVPFlagV
				n.Vendor = []uint32{def.Vendor + 1, 99999, 9, 10415, 193, refdict.AnyVendor}[r.IntN(6)]
			}
			if _, ok := d.Ix.FindAVP(app, n.Code, n.Vendor); ok && n.Vendor != refdict.AnyVendor {
				continue
			}
			n.B = randBytes(r, strLen(r, o.BigStrings))
			return n
		}
		switch r.IntN(3) {
		case 0:
			n.Code = 0x00F00000 + uint32(r.IntN(1<<16))
		case 1:
			n.Code = r.Uint32()
		default:
			n.Code = uint32(1 + r.IntN(3000))
		}
		n.Flags = uint8(r.Uint32()) & 0x60
		if r.IntN(2) == 0 {
			n.Flags |= refcodec.AVPFlagV
			if r.IntN(2) == 0 {
				n.Vendor = []uint32{10415, 0, 1, math.MaxUint32 - 1, 9, 193}[r.IntN(6)]
			} else {
				n.Vendor = r.Uint32()
			}
			if n.Vendor == refdict.AnyVendor {
				n.Vendor--
			}
		}
		if _, ok := d.Ix.FindAVP(app, n.Code, n.Vendor); ok {
			continue
		}
		n.B = randBytes(r, strLen(r, o.BigStrings))
		return n
	}
}

// CountKinds walks a tree and calls f for every node with its depth.
func Walk(ns []*refcodec.Node, depth int, f func(n *refcodec.Node, depth int)) {
	for _, n := range ns {
		f(n, depth)
		if n.Kind == refcodec.Grouped {
			Walk(n.Kids, depth+1, f)
		}
	}
}
