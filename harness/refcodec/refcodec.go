// Package refcodec is an independent RFC 6733 codec written for the harness
// from the RFC text (sections 3, 4.1-4.4). It imports nothing from the code
// under test. It works on an abstract AVP tree (Node) and on raw framing
// records (Frame).
package refcodec

import (
	"encoding/binary"
	"errors"
	"fmt"
	"math"
)

// Header is the 20-byte Diameter header.
type Header struct {
	Version uint8
	Length  uint32 // 24 bits
	Flags   uint8
	Code    uint32 // 24 bits
	App     uint32
	HopByHop uint32
	EndToEnd uint32
}

const (
	FlagR = 0x80
	FlagP = 0x40
	FlagE = 0x20
	FlagT = 0x10

	AVPFlagV = 0x80
	AVPFlagM = 0x40
	AVPFlagP = 0x20
)

func put24(b []byte, v uint32) { b[0] = byte(v >> 16); b[1] = byte(v >> 8); b[2] = byte(v) }
func get24(b []byte) uint32    { return uint32(b[0])<<16 | uint32(b[1])<<8 | uint32(b[2]) }

// EncodeHeader writes the header as RFC 6733 section 3 lays it out.
func EncodeHeader(h Header) []byte {
	b := make([]byte, 20)
	b[0] = h.Version
	put24(b[1:4], h.Length)
	b[4] = h.Flags
	put24(b[5:8], h.Code)
	binary.BigEndian.PutUint32(b[8:], h.App)
	binary.BigEndian.PutUint32(b[12:], h.HopByHop)
	binary.BigEndian.PutUint32(b[16:], h.EndToEnd)
	return b
}

func DecodeHeader(b []byte) (Header, error) {
	if len(b) < 20 {
		return Header{}, errors.New("short header")
	}
	return Header{
		Version: b[0], Length: get24(b[1:4]), Flags: b[4], Code: get24(b[5:8]),
		App: binary.BigEndian.Uint32(b[8:]), HopByHop: binary.BigEndian.Uint32(b[12:]), EndToEnd: binary.BigEndian.Uint32(b[16:]),
	}, nil
}

// Kind is an AVP data format.
type Kind int

const (
	Unknown Kind = iota // opaque bytes (AVP not in the dictionary)
	OctetString
	UTF8String
	DiameterIdentity
	DiameterURI
	IPFilterRule
	QoSFilterRule
	Integer32
	Integer64
	Unsigned32
	Unsigned64
	Float32
	Float64
	Enumerated
	Time
	Address
	IPv4
	IPv6
	Grouped
)

var kindNames = map[string]Kind{
	"OctetString": OctetString, "UTF8String": UTF8String, "DiameterIdentity": DiameterIdentity,
	"DiameterURI": DiameterURI, "IPFilterRule": IPFilterRule, "QoSFilterRule": QoSFilterRule,
	"Integer32": Integer32, "Integer64": Integer64, "Unsigned32": Unsigned32, "Unsigned64": Unsigned64,
	"Float32": Float32, "Float64": Float64, "Enumerated": Enumerated, "Time": Time, "Address": Address,
	"IPv4": IPv4, "IPv6": IPv6, "Grouped": Grouped,
}

// TypeNames lists the 18 dictionary type names.
func TypeNames() []string {
	return []string{"Address", "DiameterIdentity", "DiameterURI", "Enumerated", "Float32", "Float64", "Grouped",
		"IPFilterRule", "IPv4", "IPv6", "Integer32", "Integer64", "OctetString", "QoSFilterRule", "Time",
		"UTF8String", "Unsigned32", "Unsigned64"}
}

func KindOf(typeName string) (Kind, bool) { k, ok := kindNames[typeName]; return k, ok }

func (k Kind) String() string {
	for n, v := range kindNames {
		if v == k {
			return n
		}
	}
	return "Unknown"
}

// IsString: kinds whose payload is an arbitrary-length byte string.
func (k Kind) IsString() bool {
	switch k {
	case Unknown, OctetString, UTF8String, DiameterIdentity, DiameterURI, IPFilterRule, QoSFilterRule:
		return true
	}
	return false
}

// FixedLen returns the payload size of fixed-width kinds, else 0.
func (k Kind) FixedLen() int {
	switch k {
	case Integer32, Unsigned32, Float32, Enumerated, Time, IPv4:
		return 4
	case Integer64, Unsigned64, Float64:
		return 8
	case IPv6:
		return 16
	}
	return 0
}

// Node is an abstract AVP: header fields and a typed value.
//
//	string kinds, Unknown:  B = bytes
//	Integer32/64, Enumerated: I
//	Unsigned32/64:          U
//	Float32/64:             U = IEEE bit pattern
//	Time:                   I = seconds since the Unix epoch
//	Address:                Fam + B (address bytes without the family)
//	IPv4/IPv6:              B (4 / 16 bytes)
//	Grouped:                Kids
type Node struct {
	Code   uint32
	Flags  uint8
	Vendor uint32
	Kind   Kind
	B      []byte
	U      uint64
	I      int64
	Fam    uint16
	Kids   []*Node
}

const ntpOffset = 2208988800 // seconds between 1900-01-01 and 1970-01-01

// TimeToWire: RFC 6733 4.3.1 Time — the low 32 bits of the NTP seconds count
// (era ambiguity resolved by RFC 5905 / RFC 2030 section 3 on decoding).
func TimeToWire(unix int64) uint32 { return uint32(uint64(unix + ntpOffset)) }

// TimeFromWire: high bit set -> era 0 (1968..2036), clear -> era 1 (2036..2104).
func TimeFromWire(w uint32) int64 {
	if w&0x80000000 != 0 {
		return int64(w) - ntpOffset
	}
	return int64(w) + (1 << 32) - ntpOffset
}

// Payload returns the unpadded payload of the node.
func (n *Node) Payload() []byte {
	switch n.Kind {
	case Integer32, Enumerated:
		b := make([]byte, 4)
		binary.BigEndian.PutUint32(b, uint32(int32(n.I)))
		return b
	case Unsigned32, Float32:
		b := make([]byte, 4)
		binary.BigEndian.PutUint32(b, uint32(n.U))
		return b
	case Integer64:
		b := make([]byte, 8)
		binary.BigEndian.PutUint64(b, uint64(n.I))
		return b
	case Unsigned64, Float64:
		b := make([]byte, 8)
		binary.BigEndian.PutUint64(b, n.U)
		return b
	case Time:
		b := make([]byte, 4)
		binary.BigEndian.PutUint32(b, TimeToWire(n.I))
		return b
	case Address:
		b := make([]byte, 2+len(n.B))
		binary.BigEndian.PutUint16(b, n.Fam)
		copy(b[2:], n.B)
		return b
	case Grouped:
		var b []byte
		for _, k := range n.Kids {
			b = append(b, k.Encode()...)
		}
		return b
	default:
		return append([]byte(nil), n.B...)
	}
}

// HasV reports whether the vendor field is on the wire: the V flag and the
// vendor id are present together.
func (n *Node) HasV() bool { return n.Flags&AVPFlagV != 0 }

// Encode returns the wire image of the AVP including padding.
func (n *Node) Encode() []byte {
	p := n.Payload()
	hl := 8
	if n.HasV() {
		hl = 12
	}
	l := hl + len(p)
	b := make([]byte, (l+3)&^3)
	binary.BigEndian.PutUint32(b, n.Code)
	b[4] = n.Flags
	put24(b[5:8], uint32(l))
	if n.HasV() {
		binary.BigEndian.PutUint32(b[8:], n.Vendor)
	}
	copy(b[hl:], p)
	return b
}

// EncodeMessage returns the wire image of a message; the header's Length is
// computed (20 + padded AVPs).
func EncodeMessage(h Header, nodes []*Node) []byte {
	var body []byte
	for _, n := range nodes {
		body = append(body, n.Encode()...)
	}
	h.Length = uint32(20 + len(body))
	return append(EncodeHeader(h), body...)
}

// Rec is one AVP found by walking a byte string by declared lengths.
type Rec struct {
	Code    uint32
	Flags   uint8
	Vendor  uint32
	Length  uint32 // declared
	Payload []byte // declared length minus header
	Off     int
}

// Frame walks b by each AVP's declared length rounded up to four. A declared
// length shorter than the AVP header or reaching beyond b is an error. The
// padding of the last AVP may be absent (lenient), reported by the second result.
func Frame(b []byte) ([]Rec, bool, error) {
	var out []Rec
	off := 0
	missingPad := false
	for off < len(b) {
		if len(b)-off < 8 {
			return out, false, fmt.Errorf("offset %d: %d trailing bytes, not an AVP header", off, len(b)-off)
		}
		r := Rec{Code: binary.BigEndian.Uint32(b[off:]), Flags: b[off+4], Length: get24(b[off+5 : off+8]), Off: off}
		hl := 8
		if r.Flags&AVPFlagV != 0 {
			hl = 12
		}
		if int(r.Length) < hl {
			return out, false, fmt.Errorf("offset %d: declared length %d shorter than the %d-byte AVP header", off, r.Length, hl)
		}
		if off+int(r.Length) > len(b) {
			return out, false, fmt.Errorf("offset %d: declared length %d exceeds the %d bytes of the container", off, r.Length, len(b)-off)
		}
		if hl == 12 {
			r.Vendor = binary.BigEndian.Uint32(b[off+8:])
		}
		r.Payload = b[off+hl : off+int(r.Length)]
		out = append(out, r)
		next := off + (int(r.Length)+3)&^3
		if next > len(b) {
			missingPad = true
			next = len(b)
		}
		off = next
	}
	return out, missingPad, nil
}

// TypeFunc says what kind an AVP has according to the dictionary.
type TypeFunc func(code, vendor uint32, hasV bool) Kind

// DecodePayload decodes a payload of the given kind into n. Fixed-width kinds
// with a wrong payload length and invalid addresses are errors.
func DecodePayload(n *Node, k Kind, p []byte, tf TypeFunc) error {
	n.Kind = k
	if fl := k.FixedLen(); fl != 0 && len(p) != fl {
		return fmt.Errorf("AVP %d: %s payload of %d bytes", n.Code, k, len(p))
	}
	switch k {
	case Integer32, Enumerated:
		n.I = int64(int32(binary.BigEndian.Uint32(p)))
	case Unsigned32, Float32:
		n.U = uint64(binary.BigEndian.Uint32(p))
	case Integer64:
		n.I = int64(binary.BigEndian.Uint64(p))
	case Unsigned64, Float64:
		n.U = binary.BigEndian.Uint64(p)
	case Time:
		n.I = TimeFromWire(binary.BigEndian.Uint32(p))
	case Address:
		if len(p) < 2 {
			return fmt.Errorf("AVP %d: Address payload of %d bytes", n.Code, len(p))
		}
		n.Fam = binary.BigEndian.Uint16(p)
		n.B = append([]byte(nil), p[2:]...)
	case Grouped:
		recs, _, err := Frame(p)
		if err != nil {
			return err
		}
		for _, r := range recs {
			kid, err := DecodeRec(r, tf)
			if err != nil {
				return err
			}
			n.Kids = append(n.Kids, kid)
		}
	default:
		n.B = append([]byte(nil), p...)
	}
	return nil
}

func DecodeRec(r Rec, tf TypeFunc) (*Node, error) {
	n := &Node{Code: r.Code, Flags: r.Flags, Vendor: r.Vendor}
	k := tf(r.Code, r.Vendor, r.Flags&AVPFlagV != 0)
	if err := DecodePayload(n, k, r.Payload, tf); err != nil {
		return nil, err
	}
	return n, nil
}

// DecodeMessage decodes a wire image into header and tree.
func DecodeMessage(b []byte, tf TypeFunc) (Header, []*Node, error) {
	h, err := DecodeHeader(b)
	if err != nil {
		return h, nil, err
	}
	if int(h.Length) != len(b) || h.Length < 20 {
		return h, nil, fmt.Errorf("message length %d, have %d bytes", h.Length, len(b))
	}
	recs, _, err := Frame(b[20:])
	if err != nil {
		return h, nil, err
	}
	var nodes []*Node
	for _, r := range recs {
		n, err := DecodeRec(r, tf)
		if err != nil {
			return h, nil, err
		}
		nodes = append(nodes, n)
	}
	return h, nodes, nil
}

// Equal compares two trees on (code, flags, vendor, kind, value, nesting).
// Floats compare by bit pattern. It returns "" or a description of the first
// difference.
func Equal(a, b []*Node, path string) string {
	if len(a) != len(b) {
		return fmt.Sprintf("%s: %d AVPs vs %d", path, len(a), len(b))
	}
	for i := range a {
		x, y := a[i], b[i]
		p := fmt.Sprintf("%s/%d(code %d)", path, i, x.Code)
		if x.Code != y.Code {
			return fmt.Sprintf("%s: code %d vs %d", p, x.Code, y.Code)
		}
		if x.Flags != y.Flags {
			return fmt.Sprintf("%s: flags %#x vs %#x", p, x.Flags, y.Flags)
		}
		if x.HasV() && x.Vendor != y.Vendor {
			return fmt.Sprintf("%s: vendor %d vs %d", p, x.Vendor, y.Vendor)
		}
		if x.Kind != y.Kind {
			return fmt.Sprintf("%s: kind %s vs %s", p, x.Kind, y.Kind)
		}
		switch x.Kind {
		case Integer32, Integer64, Enumerated, Time:
			if x.I != y.I {
				return fmt.Sprintf("%s: %s value %d vs %d", p, x.Kind, x.I, y.I)
			}
		case Unsigned32, Unsigned64, Float32, Float64:
			if x.U != y.U {
				return fmt.Sprintf("%s: %s value %#x vs %#x", p, x.Kind, x.U, y.U)
			}
		case Address:
			if x.Fam != y.Fam || string(x.B) != string(y.B) {
				return fmt.Sprintf("%s: Address (%d,%x) vs (%d,%x)", p, x.Fam, x.B, y.Fam, y.B)
			}
		case Grouped:
			if d := Equal(x.Kids, y.Kids, p); d != "" {
				return d
			}
		default:
			if string(x.B) != string(y.B) {
				return fmt.Sprintf("%s: %s bytes %x vs %x", p, x.Kind, trunc(x.B), trunc(y.B))
			}
		}
	}
	return ""
}

func trunc(b []byte) []byte {
	if len(b) > 40 {
		return b[:40]
	}
	return b
}

// Describe renders a tree compactly for samples.
func Describe(ns []*Node) string {
	s := ""
	for i, n := range ns {
		if i > 0 {
			s += " "
		}
		s += fmt.Sprintf("%d", n.Code)
		if n.HasV() {
			s += fmt.Sprintf("v%d", n.Vendor)
		}
		s += ":" + n.Kind.String()
		switch n.Kind {
		case Grouped:
			s += "{" + Describe(n.Kids) + "}"
		case Integer32, Integer64, Enumerated, Time:
			s += fmt.Sprintf("=%d", n.I)
		case Unsigned32, Unsigned64:
			s += fmt.Sprintf("=%d", n.U)
		case Float32:
			s += fmt.Sprintf("=%v", math.Float32frombits(uint32(n.U)))
		case Float64:
			s += fmt.Sprintf("=%v", math.Float64frombits(n.U))
		case Address:
			s += fmt.Sprintf("=(%d,%x)", n.Fam, n.B)
		default:
			s += fmt.Sprintf("[%d]", len(n.B))
		}
	}
	return s
}
