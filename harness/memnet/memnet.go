// Package memnet is an in-memory net.Conn / net.Listener under full control of
// the workload: scripted fragmentation of reads, EOF / error injection, stalls
// inside a write, partial writes with temporary errors, a log of every write.
// It uses only sync.Cond / channels, so it works inside testing/synctest
// bubbles and under the race detector.
package memnet

import (
	"errors"
	"io"
	"net"
	"runtime"
	"sync"
	"time"
)

// Addr is a configurable net.Addr.
type Addr struct{ Net, Str string }

func (a Addr) Network() string { return a.Net }
func (a Addr) String() string  { return a.Str }

// TempError is a temporary net.Error.
type TempError struct{ Msg string }

func (e *TempError) Error() string   { return e.Msg }
func (e *TempError) Timeout() bool   { return false }
func (e *TempError) Temporary() bool { return true }

// TimeoutError is what a Read returns when its deadline passes.
type TimeoutError struct{}

func (TimeoutError) Error() string   { return "memnet: i/o timeout" }
func (TimeoutError) Timeout() bool   { return true }
func (TimeoutError) Temporary() bool { return true }

// ErrClosed is returned by reads and writes on a closed Conn.
var ErrClosed = errors.New("memnet: use of closed connection")

// WriteRec is one Write call as the transport saw it.
type WriteRec struct {
	Seq   int
	T0    time.Time // at entry, on the caller's goroutine
	T1    time.Time // at return
	Data  []byte    // bytes accepted
	Asked int       // len(b)
	Err   error
	Stall int // byte position of a mid-write stall, -1 if none
}

// Outcome scripts one Write call.
type Outcome struct {
	Accept   int           // bytes accepted (-1 = all)
	Err      error         // error returned (with Accept bytes accepted)
	StallAt  int           // stall after this many bytes (-1 = none)
	StallFor time.Duration // virtual/real sleep during the stall (0 = yield a few times)
	Late     time.Duration // sleep after the bytes are visible, before returning
	// UntilClosed: the peer has stopped reading and the send buffer is full: after StallAt bytes
	// (0 if negative) the call blocks until the connection is closed and then fails
	UntilClosed bool
}

// Conn is one end of an in-memory connection: the library reads what the
// workload feeds and the workload sees what the library writes.
type Conn struct {
	mu      sync.Mutex
	cond    *sync.Cond
	in      [][]byte
	inErr   error
	closed  bool
	closes  int
	readers int // Read calls currently blocked

	wmu    sync.Mutex // serialises Write calls like a kernel socket
	wlog   []WriteRec
	wseq   int
	Script func(seq int, b []byte) Outcome // optional; nil = accept everything
	// OnWrite runs on the writer's goroutine after the bytes are logged and
	// before Write returns.
	OnWrite func(w WriteRec)

	Local, Remote net.Addr
	NoRemoteAddr  bool // RemoteAddr() returns nil
	// SetReadDeadlineDelay: a call of SetReadDeadline takes this long to take effect
	SetReadDeadlineDelay time.Duration

	// NonAtomic makes a Write call visible in chunks of ChunkSize bytes without
	// holding the transport's write lock in between: concurrent Write calls
	// interleave at chunk granularity (a transport weaker than a kernel socket;
	// callers that need whole messages must serialise their writes themselves).
	NonAtomic bool
	ChunkSize int
	raw       []byte

	rdl        time.Time // read deadline
	wdl        time.Time // write deadline
	rdlTimer   *time.Timer
	lateWrites int // Write calls after Close
	// ErrWithData makes the Read that returns the last queued fragment also
	// return the queued error (n > 0 together with io.EOF / a read error), which
	// the io.Reader contract allows and e.g. crypto/tls does.
	ErrWithData bool
	toMark      map[*byte]bool
	ReadCalls   int
	ReadBytes   int
	closedCh    chan struct{}
	closeOnce   sync.Once
}

func NewConn() *Conn {
	c := &Conn{Local: Addr{"tcp", "10.1.2.3:3868"}, Remote: Addr{"tcp", "10.9.8.7:45678"}, closedCh: make(chan struct{})}
	c.cond = sync.NewCond(&c.mu)
	return c
}

// Feed queues inbound fragments; each Read returns at most one fragment.
func (c *Conn) Feed(frags ...[]byte) {
	c.mu.Lock()
	for _, f := range frags {
		if len(f) > 0 {
			c.in = append(c.in, append([]byte(nil), f...))
		}
	}
	c.mu.Unlock()
	c.cond.Broadcast()
}

// FeedWithTimeout queues a fragment; the Read that hands over its last byte also reports a
// time-out, once (n > 0 together with a net.Error whose Timeout() is true, as the io.Reader
// contract allows: the deadline passed while the data was on its way up).
func (c *Conn) FeedWithTimeout(frag []byte) {
	if len(frag) == 0 {
		return
	}
	f := append([]byte(nil), frag...)
	c.mu.Lock()
	if c.toMark == nil {
		c.toMark = map[*byte]bool{}
	}
	c.toMark[&f[len(f)-1]] = true
	c.in = append(c.in, f)
	c.mu.Unlock()
	c.cond.Broadcast()
}

// FeedSplit queues b cut at the given offsets.
func (c *Conn) FeedSplit(b []byte, cuts []int) {
	c.Feed(Split(b, cuts)...)
}

// Split cuts b at the given increasing offsets.
func Split(b []byte, cuts []int) [][]byte {
	var out [][]byte
	prev := 0
	for _, k := range cuts {
		if k <= prev || k >= len(b) {
			continue
		}
		out = append(out, b[prev:k])
		prev = k
	}
	out = append(out, b[prev:])
	return out
}

// FeedWithErr queues a last fragment and the error atomically; with
// ErrWithData the Read that returns the fragment also returns the error.
func (c *Conn) FeedWithErr(frag []byte, err error) {
	c.mu.Lock()
	c.ErrWithData = true
	if len(frag) > 0 {
		c.in = append(c.in, append([]byte(nil), frag...))
	}
	c.inErr = err
	c.mu.Unlock()
	c.cond.Broadcast()
}

// FeedEOF makes reads return io.EOF once the queue is drained.
func (c *Conn) FeedEOF() { c.FeedErr(io.EOF) }

// FeedErr makes reads return err once the queue is drained.
func (c *Conn) FeedErr(err error) {
	c.mu.Lock()
	c.inErr = err
	c.mu.Unlock()
	c.cond.Broadcast()
}

func (c *Conn) Read(p []byte) (int, error) {
	c.mu.Lock()
	defer c.mu.Unlock()
	c.ReadCalls++
	for len(c.in) == 0 && c.inErr == nil && !c.closed {
		if !c.rdl.IsZero() {
			if !time.Now().Before(c.rdl) {
				return 0, TimeoutError{}
			}
			if c.rdlTimer == nil {
				c.rdlTimer = time.AfterFunc(time.Until(c.rdl), func() { c.cond.Broadcast() })
			}
		}
		c.readers++
		c.cond.Wait()
		c.readers--
	}
	if c.rdlTimer != nil {
		c.rdlTimer.Stop()
		c.rdlTimer = nil
	}
	if c.closed {
		return 0, ErrClosed
	}
	if len(c.in) > 0 {
		n := copy(p, c.in[0])
		if n == len(c.in[0]) {
			last := &c.in[0][n-1]
			c.in = c.in[1:]
			if c.toMark[last] {
				delete(c.toMark, last)
				c.ReadBytes += n
				return n, TimeoutError{}
			}
		} else {
			c.in[0] = c.in[0][n:]
		}
		c.ReadBytes += n
		if c.ErrWithData && len(c.in) == 0 && c.inErr != nil {
			return n, c.inErr
		}
		return n, nil
	}
	return 0, c.inErr
}

// Pending reports queued inbound bytes and blocked readers.
func (c *Conn) Pending() (bytes int, blockedReaders int) {
	c.mu.Lock()
	defer c.mu.Unlock()
	for _, f := range c.in {
		bytes += len(f)
	}
	return bytes, c.readers
}

func (c *Conn) writeNonAtomic(b []byte) (int, error) {
	t0 := time.Now()
	c.mu.Lock()
	if c.closed {
		c.lateWrites++
		c.mu.Unlock()
		return 0, ErrClosed
	}
	seq := c.wseq
	c.wseq++
	c.mu.Unlock()
	chunk := c.ChunkSize
	if chunk <= 0 {
		chunk = 256
	}
	for off := 0; off < len(b); off += chunk {
		end := off + chunk
		if end > len(b) {
			end = len(b)
		}
		c.mu.Lock()
		c.raw = append(c.raw, b[off:end]...)
		c.mu.Unlock()
		runtime.Gosched()
		runtime.Gosched()
	}
	rec := WriteRec{Seq: seq, T0: t0, T1: time.Now(), Data: append([]byte(nil), b...), Asked: len(b), Stall: -1}
	c.mu.Lock()
	c.wlog = append(c.wlog, rec)
	c.mu.Unlock()
	if c.OnWrite != nil {
		c.OnWrite(rec)
	}
	return len(b), nil
}

func (c *Conn) Write(b []byte) (int, error) {
	if c.NonAtomic {
		return c.writeNonAtomic(b)
	}
	t0 := time.Now()
	c.wmu.Lock()
	defer c.wmu.Unlock()
	c.mu.Lock()
	if c.closed {
		c.lateWrites++
		c.mu.Unlock()
		return 0, ErrClosed
	}
	seq := c.wseq
	c.wseq++
	c.mu.Unlock()
	out := Outcome{Accept: -1, StallAt: -1}
	if c.Script != nil {
		out = c.Script(seq, b)
	}
	n := out.Accept
	if n < 0 || n > len(b) {
		n = len(b)
	}
	if out.UntilClosed {
		k := max(out.StallAt, 0)
		k = min(k, len(b))
		c.mu.Lock()
		c.wlog = append(c.wlog, WriteRec{Seq: seq, T0: t0, Data: append([]byte(nil), b[:k]...), Asked: len(b), Err: ErrClosed, Stall: k})
		c.mu.Unlock()
		<-c.closedCh
		return k, ErrClosed
	}
	rec := WriteRec{Seq: seq, T0: t0, Asked: len(b), Err: out.Err, Stall: -1}
	if out.StallAt >= 0 && out.StallAt < n {
		rec.Stall = out.StallAt
		// first part visible, then the stall, then the rest: the transport's
		// own write lock is held throughout, like a kernel socket.
		c.mu.Lock()
		c.wlog = append(c.wlog, WriteRec{Seq: seq, T0: t0, Data: append([]byte(nil), b[:out.StallAt]...), Asked: len(b), Stall: out.StallAt})
		idx := len(c.wlog) - 1
		c.mu.Unlock()
		if out.StallFor > 0 {
			c.mu.Lock()
			wdl := c.wdl
			c.mu.Unlock()
			if !wdl.IsZero() && time.Until(wdl) < out.StallFor {
				// the deadline passes while the send buffer is full: a partial write and a time-out
				if d := time.Until(wdl); d > 0 {
					time.Sleep(d)
				}
				c.mu.Lock()
				c.wlog[idx].Err = TimeoutError{}
				c.wlog[idx].T1 = time.Now()
				c.mu.Unlock()
				return out.StallAt, TimeoutError{}
			}
			time.Sleep(out.StallFor)
		} else {
			for i := 0; i < 20; i++ {
				runtime.Gosched()
			}
		}
		c.mu.Lock()
		c.wlog[idx].Data = append(c.wlog[idx].Data, b[out.StallAt:n]...)
		c.wlog[idx].Err = out.Err
		c.mu.Unlock()
		rec.Data = append([]byte(nil), b[:n]...)
	} else {
		rec.Data = append([]byte(nil), b[:n]...)
		c.mu.Lock()
		c.wlog = append(c.wlog, rec)
		c.mu.Unlock()
	}
	if c.OnWrite != nil {
		c.OnWrite(rec)
	}
	if out.Late > 0 {
		time.Sleep(out.Late)
	}
	c.mu.Lock()
	for i := len(c.wlog) - 1; i >= 0; i-- {
		if c.wlog[i].Seq == seq {
			c.wlog[i].T1 = time.Now()
			break
		}
	}
	c.mu.Unlock()
	return n, out.Err
}

// Writes returns a copy of the write log.
func (c *Conn) Writes() []WriteRec {
	c.mu.Lock()
	defer c.mu.Unlock()
	return append([]WriteRec(nil), c.wlog...)
}

// Written returns all accepted bytes in order.
func (c *Conn) Written() []byte {
	c.mu.Lock()
	defer c.mu.Unlock()
	if c.NonAtomic {
		return append([]byte(nil), c.raw...)
	}
	var b []byte
	for _, w := range c.wlog {
		b = append(b, w.Data...)
	}
	return b
}

func (c *Conn) Close() error {
	c.mu.Lock()
	c.closed = true
	c.closes++
	c.mu.Unlock()
	c.cond.Broadcast()
	c.closeOnce.Do(func() { close(c.closedCh) })
	return nil
}

// WritesAfterClose reports how many Write calls were made after Close.
func (c *Conn) WritesAfterClose() int {
	c.mu.Lock()
	defer c.mu.Unlock()
	return c.lateWrites
}

// Closed is closed when Close has been called at least once.
func (c *Conn) Closed() <-chan struct{} { return c.closedCh }

// CloseCount reports how often Close was called.
func (c *Conn) CloseCount() int {
	c.mu.Lock()
	defer c.mu.Unlock()
	return c.closes
}

func (c *Conn) LocalAddr() net.Addr { return c.Local }
func (c *Conn) RemoteAddr() net.Addr {
	if c.NoRemoteAddr {
		return nil // "the remote network address, if known": an SCTP association that is gone has none
	}
	return c.Remote
}
func (c *Conn) SetDeadline(t time.Time) error { return nil }

// SetReadDeadline is honoured by Read (virtual time inside a synctest bubble).
func (c *Conn) SetReadDeadline(t time.Time) error {
	if d := c.SetReadDeadlineDelay; d > 0 {
		time.Sleep(d) // the deadline armed before stays in force meanwhile, and may expire
	}
	c.mu.Lock()
	c.rdl = t
	if c.rdlTimer != nil {
		c.rdlTimer.Stop()
		c.rdlTimer = nil
	}
	c.mu.Unlock()
	c.cond.Broadcast()
	return nil
}

// SetWriteDeadline: a Write that is stalled (Outcome.StallFor) when the deadline passes returns
// the bytes accepted so far and a time-out, like a socket whose send buffer stays full.
func (c *Conn) SetWriteDeadline(t time.Time) error {
	c.mu.Lock()
	c.wdl = t
	c.mu.Unlock()
	return nil
}

// Listener scripts Accept.
type Listener struct {
	ch     chan acceptItem
	closed chan struct{}
	once   sync.Once
	addr   net.Addr
	mu     sync.Mutex
	Calls  int
}

type acceptItem struct {
	c   net.Conn
	err error
}

func NewListener() *Listener {
	return &Listener{ch: make(chan acceptItem, 1024), closed: make(chan struct{}), addr: Addr{"tcp", "10.1.2.3:3868"}}
}

// Offer queues a connection for Accept.
func (l *Listener) Offer(c net.Conn) { l.ch <- acceptItem{c: c} }

// OfferErr queues an error for Accept.
func (l *Listener) OfferErr(err error) { l.ch <- acceptItem{err: err} }

func (l *Listener) Accept() (net.Conn, error) {
	l.mu.Lock()
	l.Calls++
	l.mu.Unlock()
	select {
	case it := <-l.ch:
		return it.c, it.err
	case <-l.closed:
		return nil, ErrClosed
	}
}

func (l *Listener) AcceptCalls() int {
	l.mu.Lock()
	defer l.mu.Unlock()
	return l.Calls
}

func (l *Listener) Close() error {
	l.once.Do(func() { close(l.closed) })
	return nil
}

func (l *Listener) IsClosed() bool {
	select {
	case <-l.closed:
		return true
	default:
		return false
	}
}

func (l *Listener) Addr() net.Addr { return l.addr }

// FragReader is a plain io.Reader that serves a byte string in scripted
// fragments and counts what was requested and delivered.
type FragReader struct {
	Frags     [][]byte
	Err       error // returned once drained (default io.EOF)
	Delivered int
	Calls     int
	Requested int   // sum of len(p) over all calls
	CallsAt   []int // Delivered at entry of each call
}

func NewFragReader(b []byte, cuts []int) *FragReader {
	return &FragReader{Frags: Split(append([]byte(nil), b...), cuts), Err: io.EOF}
}

func (f *FragReader) Read(p []byte) (int, error) {
	f.Calls++
	f.Requested += len(p)
	f.CallsAt = append(f.CallsAt, f.Delivered)
	for len(f.Frags) > 0 && len(f.Frags[0]) == 0 {
		f.Frags = f.Frags[1:]
	}
	if len(f.Frags) == 0 {
		return 0, f.Err
	}
	n := copy(p, f.Frags[0])
	f.Frags[0] = f.Frags[0][n:]
	f.Delivered += n
	return n, nil
}
