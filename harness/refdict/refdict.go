// Package refdict is the harness's own reading of the dictionary XML and its
// own resolver (application -> parent applications -> base, exact vendor or
// wildcard, latest definition wins). It imports nothing from the code under test.
package refdict

import (
	"encoding/xml"
	"fmt"
	"go/ast"
	"go/parser"
	"go/token"
	"os"
	"path/filepath"
	"strconv"
)

const AnyVendor = 0xFFFFFFFF

type xRule struct {
	AVP string `xml:"avp,attr"`
}
type xData struct {
	Type string  `xml:"type,attr"`
	Rule []xRule `xml:"rule"`
	Item []struct {
		Code int32  `xml:"code,attr"`
		Name string `xml:"name,attr"`
	} `xml:"item"`
}
type xAVP struct {
	Name   string `xml:"name,attr"`
	Code   uint32 `xml:"code,attr"`
	Must   string `xml:"must,attr"`
	May    string `xml:"may,attr"`
	Vendor uint32 `xml:"vendor-id,attr"`
	Data   xData  `xml:"data"`
}
type xCmd struct {
	Code    uint32 `xml:"code,attr"`
	Name    string `xml:"name,attr"`
	Short   string `xml:"short,attr"`
	Request struct {
		Rule []xRule `xml:"rule"`
	} `xml:"request"`
	Answer struct {
		Rule []xRule `xml:"rule"`
	} `xml:"answer"`
}
type xApp struct {
	ID     uint32 `xml:"id,attr"`
	Type   string `xml:"type,attr"`
	Name   string `xml:"name,attr"`
	Vendor []struct {
		ID uint32 `xml:"id,attr"`
	} `xml:"vendor"`
	Cmd []xCmd `xml:"command"`
	AVP []xAVP `xml:"avp"`
}
type xFile struct {
	XMLName xml.Name `xml:"diameter"`
	App     []xApp   `xml:"application"`
}

// AVPDef is one <avp> element.
type AVPDef struct {
	App    uint32
	Name   string
	Code   uint32
	Vendor uint32
	Must   string
	May    string
	Type   string
	Rules  []string
	Seq    int // global load sequence number
}

type CmdDef struct {
	App      uint32
	Code     uint32
	Name     string
	Short    string
	ReqRules []string
	AnsRules []string
}

type AppDef struct {
	ID      uint32
	Type    string
	Name    string
	Vendors []uint32
	Seq     int
}

// File is one parsed dictionary file.
type File struct {
	Name string
	XML  string
	Apps []AppDef
	AVPs []AVPDef
	Cmds []CmdDef
}

// Parse reads one dictionary XML document.
func Parse(name, doc string) (*File, error) {
	var xf xFile
	if err := xml.Unmarshal([]byte(doc), &xf); err != nil {
		return nil, err
	}
	f := &File{Name: name, XML: doc}
	for _, a := range xf.App {
		ad := AppDef{ID: a.ID, Type: a.Type, Name: a.Name}
		for _, v := range a.Vendor {
			ad.Vendors = append(ad.Vendors, v.ID)
		}
		f.Apps = append(f.Apps, ad)
		for _, c := range a.Cmd {
			cd := CmdDef{App: a.ID, Code: c.Code, Name: c.Name, Short: c.Short}
			for _, r := range c.Request.Rule {
				cd.ReqRules = append(cd.ReqRules, r.AVP)
			}
			for _, r := range c.Answer.Rule {
				cd.AnsRules = append(cd.AnsRules, r.AVP)
			}
			f.Cmds = append(f.Cmds, cd)
		}
		for _, v := range a.AVP {
			d := AVPDef{App: a.ID, Name: v.Name, Code: v.Code, Vendor: v.Vendor, Must: v.Must, May: v.May, Type: v.Data.Type}
			for _, r := range v.Data.Rule {
				d.Rules = append(d.Rules, r.AVP)
			}
			f.AVPs = append(f.AVPs, d)
		}
	}
	return f, nil
}

// RepoDir is the tree under test.
func RepoDir() string {
	if v := os.Getenv("VERIF_REPO"); v != "" {
		return v
	}
	return "/repo"
}

// Embedded extracts the embedded dictionaries, in their load order, from
// diam/dict/default.go of the tree under test (string literals + the {name, var}
// list in init).
func Embedded() ([]*File, error) {
	path := filepath.Join(RepoDir(), "diam", "dict", "default.go")
	fset := token.NewFileSet()
	af, err := parser.ParseFile(fset, path, nil, 0)
	if err != nil {
		return nil, err
	}
	vars := map[string]string{}
	type pair struct{ name, v string }
	var order []pair
	for _, d := range af.Decls {
		switch d := d.(type) {
		case *ast.GenDecl:
			if d.Tok != token.VAR {
				continue
			}
			for _, sp := range d.Specs {
				vs := sp.(*ast.ValueSpec)
				for i, n := range vs.Names {
					if i < len(vs.Values) {
						if bl, ok := vs.Values[i].(*ast.BasicLit); ok && bl.Kind == token.STRING {
							s, err := strconv.Unquote(bl.Value)
							if err != nil {
								return nil, err
							}
							vars[n.Name] = s
						}
					}
				}
			}
		case *ast.FuncDecl:
			if d.Name.Name != "init" {
				continue
			}
			ast.Inspect(d.Body, func(n ast.Node) bool {
				cl, ok := n.(*ast.CompositeLit)
				if !ok || len(cl.Elts) != 2 {
					return true
				}
				bl, ok1 := cl.Elts[0].(*ast.BasicLit)
				id, ok2 := cl.Elts[1].(*ast.Ident)
				if ok1 && ok2 && bl.Kind == token.STRING {
					s, _ := strconv.Unquote(bl.Value)
					order = append(order, pair{s, id.Name})
				}
				return true
			})
		}
	}
	if len(order) == 0 {
		return nil, fmt.Errorf("no embedded dictionaries found in %s", path)
	}
	var out []*File
	for _, p := range order {
		doc, ok := vars[p.v]
		if !ok {
			return nil, fmt.Errorf("embedded dictionary %s: variable %s not found", p.name, p.v)
		}
		f, err := Parse(p.name, doc)
		if err != nil {
			return nil, fmt.Errorf("embedded dictionary %s: %v", p.name, err)
		}
		out = append(out, f)
	}
	return out, nil
}

// Set is a sequence of loaded files; later files win.
type Set struct {
	Files []*File
	avps  []AVPDef
	cmds  []CmdDef
	apps  []AppDef
}

func NewSet(files ...*File) *Set {
	s := &Set{}
	for _, f := range files {
		s.Load(f)
	}
	return s
}

func (s *Set) Load(f *File) {
	s.Files = append(s.Files, f)
	for _, a := range f.Apps {
		a.Seq = len(s.apps)
		s.apps = append(s.apps, a)
	}
	for _, a := range f.AVPs {
		a.Seq = len(s.avps)
		s.avps = append(s.avps, a)
	}
	s.cmds = append(s.cmds, f.Cmds...)
}

func (s *Set) AVPs() []AVPDef { return s.avps }
func (s *Set) Cmds() []CmdDef { return s.cmds }
func (s *Set) Apps() []AppDef { return s.apps }

var parents = map[uint32]uint32{16777251: 4, 16777238: 4, 4: 1}

// Chain returns the applications searched for app, in order.
func Chain(app uint32) []uint32 {
	c := []uint32{app}
	for app != 0 {
		if p, ok := parents[app]; ok {
			app = p
		} else {
			app = 0
		}
		c = append(c, app)
	}
	return c
}

// FindAVP resolves by code; vendor AnyVendor is the wildcard.
func (s *Set) FindAVP(app, code, vendor uint32) (*AVPDef, bool) {
	for _, a := range Chain(app) {
		var best *AVPDef
		for i := range s.avps {
			d := &s.avps[i]
			if d.App == a && d.Code == code && (vendor == AnyVendor || d.Vendor == vendor) {
				best = d
			}
		}
		if best != nil {
			return best, true
		}
	}
	return nil, false
}

// FindAVPByName resolves by name.
func (s *Set) FindAVPByName(app uint32, name string, vendor uint32) (*AVPDef, bool) {
	for _, a := range Chain(app) {
		var best *AVPDef
		for i := range s.avps {
			d := &s.avps[i]
			if d.App == a && d.Name == name && (vendor == AnyVendor || d.Vendor == vendor) {
				best = d
			}
		}
		if best != nil {
			return best, true
		}
	}
	return nil, false
}

// FindCommand: the application's own command, else the base application's.
func (s *Set) FindCommand(app, code uint32) (*CmdDef, bool) {
	for _, a := range []uint32{app, 0} {
		for i := range s.cmds {
			if s.cmds[i].App == a && s.cmds[i].Code == code {
				return &s.cmds[i], true
			}
		}
	}
	return nil, false
}

// HasApp: an application element with that id exists.
func (s *Set) HasApp(id uint32) bool {
	for _, a := range s.apps {
		if a.ID == id {
			return true
		}
	}
	return false
}

// SupportsApp: an application element with that id and that type, or with
// that id and no type.
func (s *Set) SupportsApp(id uint32, typ string) bool {
	for _, a := range s.apps {
		if a.ID == id && (a.Type == typ || a.Type == "") {
			return true
		}
	}
	return false
}

// HasTypedApp: an application element with that id and exactly that type.
func (s *Set) HasTypedApp(id uint32, typ string) bool {
	for _, a := range s.apps {
		if a.ID == id && a.Type == typ {
			return true
		}
	}
	return false
}

// Index is a fast lookup structure built from a Set for hot paths.
type Index struct {
	byCode map[[3]uint32]*AVPDef // (app, code, vendor) incl. AnyVendor, single app level
	byName map[string]*AVPDef
	cmd    map[[2]uint32]*CmdDef
}

func (s *Set) Index() *Index {
	ix := &Index{byCode: map[[3]uint32]*AVPDef{}, byName: map[string]*AVPDef{}, cmd: map[[2]uint32]*CmdDef{}}
	for i := range s.avps {
		d := &s.avps[i]
		ix.byCode[[3]uint32{d.App, d.Code, d.Vendor}] = d
		ix.byCode[[3]uint32{d.App, d.Code, AnyVendor}] = d
		ix.byName[fmt.Sprintf("%d/%s/%d", d.App, d.Name, d.Vendor)] = d
		ix.byName[fmt.Sprintf("%d/%s/%d", d.App, d.Name, uint32(AnyVendor))] = d
	}
	for i := range s.cmds {
		k := [2]uint32{s.cmds[i].App, s.cmds[i].Code}
		if _, ok := ix.cmd[k]; !ok {
			ix.cmd[k] = &s.cmds[i]
		}
	}
	return ix
}

func (ix *Index) FindAVP(app, code, vendor uint32) (*AVPDef, bool) {
	for _, a := range Chain(app) {
		if d, ok := ix.byCode[[3]uint32{a, code, vendor}]; ok {
			return d, true
		}
	}
	return nil, false
}

func (ix *Index) FindAVPByName(app uint32, name string, vendor uint32) (*AVPDef, bool) {
	for _, a := range Chain(app) {
		if d, ok := ix.byName[fmt.Sprintf("%d/%s/%d", a, name, vendor)]; ok {
			return d, true
		}
	}
	return nil, false
}

func (ix *Index) FindCommand(app, code uint32) (*CmdDef, bool) {
	if c, ok := ix.cmd[[2]uint32{app, code}]; ok {
		return c, true
	}
	c, ok := ix.cmd[[2]uint32{0, code}]
	return c, ok
}
