// Package ev is the child-side half of the check protocol: it decides which
// cases a child process runs (batching, replay of one case), gives every case a
// PRNG that depends only on (seed, property, suite, index), records failures with
// a structured signature, and writes a summary of what the monitors observed.
package ev

import (
	"encoding/hex"
	"encoding/json"
	"fmt"
	"hash/fnv"
	"math/rand/v2"
	"os"
	"sort"
	"strconv"
	"strings"
	"sync"
	"testing"
	"time"
)

// Sig is the structured signature of a failing case; known_findings.json
// entries match on it.
type Sig map[string]any

type failRec struct {
	Fail   bool   `json:"fail"`
	Suite  string `json:"suite"`
	Case   int    `json:"case"`
	Sig    Sig    `json:"sig"`
	Msg    string `json:"msg"`
	Input  string `json:"input,omitempty"`
	Detail any    `json:"detail,omitempty"`
}

// Rec is one child's recorder.
type Rec struct {
	Prop   string
	Tier   string
	Seed   uint64
	Mode   string // "", "race", ...
	batch  int
	nbatch int
	only   string // "suite:idx" when replaying
	outF   *os.File
	curF   *os.File

	mu        sync.Mutex
	suiteSecs map[string]float64
	evals     int64
	fails     int64
	classes   map[string]int64
	events    map[string]int64
	samples   []any
	sigSeen   map[string]int
	suites    map[string]int64
	exh       map[string]bool
	t         *testing.T
	maxSamp   int
	notes     []string
}

// Open creates the recorder from the environment set by the driver. Without a
// driver (plain `go test`) it still works and prints failures through t.
func Open(t *testing.T, prop string) *Rec {
	r := &Rec{Prop: prop, Tier: "quick", Seed: 1, nbatch: 1, t: t,
		classes: map[string]int64{}, events: map[string]int64{}, sigSeen: map[string]int{},
		suites: map[string]int64{}, exh: map[string]bool{}, maxSamp: 4}
	if v := os.Getenv("VERIF_TIER"); v == "thorough" {
		r.Tier = v
	}
	if v := os.Getenv("VERIF_SEED"); v != "" {
		if n, err := strconv.ParseInt(v, 10, 64); err == nil {
			r.Seed = uint64(n)
		}
	}
	r.Mode = os.Getenv("VERIF_MODE")
	if v := os.Getenv("VERIF_BATCH"); v != "" {
		fmt.Sscanf(v, "%d/%d", &r.batch, &r.nbatch)
		if r.nbatch < 1 {
			r.nbatch = 1
		}
	}
	r.only = os.Getenv("VERIF_ONLY")
	if p := os.Getenv("VERIF_OUT"); p != "" {
		f, err := os.OpenFile(p, os.O_CREATE|os.O_WRONLY|os.O_APPEND, 0o644)
		if err != nil {
			t.Fatalf("ev: %v", err)
		}
		r.outF = f
		c, err := os.OpenFile(p+".cur", os.O_CREATE|os.O_RDWR|os.O_TRUNC, 0o644)
		if err != nil {
			t.Fatalf("ev: %v", err)
		}
		r.curF = c
	}
	return r
}

func (r *Rec) Quick() bool  { return r.Tier != "thorough" }
func (r *Rec) Race() bool   { return r.Mode == "race" }
func (r *Rec) Replay() bool { return r.only != "" }
func (r *Rec) NBatch() int  { return r.nbatch }
func (r *Rec) Batch() int   { return r.batch }

// N picks a case count by tier; in race mode counts are divided by raceDiv (>=1).
func (r *Rec) N(quick, thorough int) int {
	if r.Quick() {
		return quick
	}
	return thorough
}

// Case is one generated or enumerated case.
type Case struct {
	r     *Rec
	Suite string
	I     int
	R     *rand.Rand
	fail  bool
}

func hash64(s string) uint64 {
	h := fnv.New64a()
	h.Write([]byte(s))
	return h.Sum64()
}

// Rand returns the PRNG of case (suite, i) for this run's seed.
func (r *Rec) Rand(suite string, i int) *rand.Rand {
	return rand.New(rand.NewPCG(r.Seed^hash64(r.Prop+"/"+suite), uint64(i)*0x9E3779B97F4A7C15+1))
}

// Suite runs fn for the cases 0..n-1 that belong to this child.
func (r *Rec) Suite(suite string, n int, fn func(c *Case)) {
	onlySuite, onlyIdx := "", -1
	if r.only != "" {
		k := strings.LastIndex(r.only, ":")
		onlySuite = r.only[:k]
		onlyIdx, _ = strconv.Atoi(r.only[k+1:])
		if onlySuite != suite {
			return
		}
	}
	t0 := time.Now()
	defer func() {
		r.mu.Lock()
		if r.suiteSecs == nil {
			r.suiteSecs = map[string]float64{}
		}
		r.suiteSecs[suite] += time.Since(t0).Seconds() // informational only (never part of a verdict)
		r.mu.Unlock()
	}()
	for i := 0; i < n; i++ {
		if onlyIdx >= 0 {
			if i != onlyIdx {
				continue
			}
		} else if i%r.nbatch != r.batch {
			continue
		}
		c := &Case{r: r, Suite: suite, I: i, R: r.Rand(suite, i)}
		r.begin(suite, i, nil)
		fn(c)
		r.mu.Lock()
		r.evals++
		r.suites[suite]++
		r.mu.Unlock()
	}
}

// OneCase returns a stand-alone case (used by native fuzz targets, where the
// fuzzing engine owns the iteration).
func (r *Rec) OneCase(suite string, i int) *Case {
	return &Case{r: r, Suite: suite, I: i, R: r.Rand(suite, i)}
}

// Exhaustive marks a suite as having enumerated a finite space completely
// (only meaningful when all batches ran; the driver checks that).
func (r *Rec) Exhaustive(suite string) {
	r.mu.Lock()
	r.exh[suite] = true
	r.mu.Unlock()
}

func (r *Rec) begin(suite string, i int, input []byte) {
	if r.curF == nil {
		return
	}
	s := suite + " " + strconv.Itoa(i) + " "
	if input != nil {
		s += hex.EncodeToString(input)
	}
	s += "\n"
	r.curF.WriteAt([]byte(s), 0)
}

// Input writes the input about to be offered to the code under test to disk,
// so that a process abort leaves a witness.
func (c *Case) Input(op string, b []byte) {
	if c.r.curF == nil {
		return
	}
	c.r.begin(c.Suite+"|"+op, c.I, b)
}

// Class counts the case under a distinct non-trivial class name.
func (c *Case) Class(format string, a ...any) {
	s := format
	if len(a) > 0 {
		s = fmt.Sprintf(format, a...)
	}
	c.r.mu.Lock()
	c.r.classes[s]++
	c.r.mu.Unlock()
}

// Event adds n to the counter of observed events of one kind.
func (c *Case) Event(kind string, n int) { c.r.Event(kind, n) }

func (r *Rec) Event(kind string, n int) {
	r.mu.Lock()
	r.events[kind] += int64(n)
	r.mu.Unlock()
}

func (r *Rec) Class(s string) {
	r.mu.Lock()
	r.classes[s]++
	r.mu.Unlock()
}

// Sample keeps a few written-out cases for the evidence file.
func (c *Case) Sample(v any) {
	c.r.mu.Lock()
	if len(c.r.samples) < c.r.maxSamp {
		c.r.samples = append(c.r.samples, v)
	}
	c.r.mu.Unlock()
}

// WantSample says whether another sample would still be kept.
func (c *Case) WantSample() bool {
	c.r.mu.Lock()
	defer c.r.mu.Unlock()
	return len(c.r.samples) < c.r.maxSamp
}

func (r *Rec) Note(s string) {
	r.mu.Lock()
	r.notes = append(r.notes, s)
	r.mu.Unlock()
}

// Failed reports whether the case has already failed.
func (c *Case) Failed() bool { return c.fail }

// Fail records a violation observed in this case. input may be nil.
func (c *Case) Fail(sig Sig, input []byte, detail any, format string, a ...any) {
	c.fail = true
	r := c.r
	msg := fmt.Sprintf(format, a...)
	if len(msg) > 2000 {
		msg = msg[:2000] + "…"
	}
	key, _ := json.Marshal(sig)
	r.mu.Lock()
	defer r.mu.Unlock()
	r.fails++
	r.sigSeen[string(key)]++
	if r.sigSeen[string(key)] > 3 {
		return
	}
	fr := failRec{Fail: true, Suite: c.Suite, Case: c.I, Sig: sig, Msg: msg, Detail: detail}
	if input != nil {
		if len(input) > 4096 {
			fr.Input = hex.EncodeToString(input[:4096]) + "…"
		} else {
			fr.Input = hex.EncodeToString(input)
		}
	}
	if r.outF != nil {
		b, _ := json.Marshal(fr)
		r.outF.Write(append(b, '\n'))
	} else {
		r.t.Errorf("%s %s[%d] sig=%s: %s", r.Prop, c.Suite, c.I, key, msg)
	}
}

// Close writes the summary record. A child without a summary has crashed.
func (r *Rec) Close() {
	r.mu.Lock()
	defer r.mu.Unlock()
	sigs := map[string]int{}
	for k, v := range r.sigSeen {
		sigs[k] = v
	}
	exh := []string{}
	for k := range r.exh {
		exh = append(exh, k)
	}
	sort.Strings(exh)
	sum := map[string]any{
		"summary": map[string]any{
			"prop": r.Prop, "tier": r.Tier, "seed": r.Seed, "mode": r.Mode,
			"batch": r.batch, "nbatch": r.nbatch,
			"evaluations": r.evals, "fails": r.fails,
			"classes": r.classes, "events": r.events, "samples": r.samples,
			"sigs": sigs, "suites": r.suites, "exhaustive": exh, "notes": r.notes, "suite_seconds": r.suiteSecs,
		},
	}
	if r.outF != nil {
		b, err := json.Marshal(sum)
		if err != nil {
			b, _ = json.Marshal(map[string]any{"summary_error": err.Error()})
		}
		r.outF.Write(append(b, '\n'))
		r.outF.Close()
		r.curF.Truncate(0)
		r.curF.Close()
	} else {
		r.t.Logf("%s: %d evaluations, %d classes, %d fails, events=%v", r.Prop, r.evals, len(r.classes), r.fails, r.events)
	}
}

// Hex is a helper for samples.
func Hex(b []byte) string {
	if len(b) > 256 {
		return hex.EncodeToString(b[:256]) + fmt.Sprintf("…(%d bytes)", len(b))
	}
	return hex.EncodeToString(b)
}
