package ev
