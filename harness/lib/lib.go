// Package lib is the bridge between the reference side (refcodec/refdict/gen)
// and the code under test: it loads dictionaries into the library, builds
// library messages from abstract trees through the public API, and maps the
// library's decoded values back to abstract trees for comparison.
package lib

import (
	"bytes"
	"fmt"
	"math"
	"net"
	"strings"
	"sync"
	"time"

	"github.com/fiorix/go-diameter/v4/diam"
	"github.com/fiorix/go-diameter/v4/diam/datatype"
	"github.com/fiorix/go-diameter/v4/diam/dict"

	"verifharness/gen"
	"verifharness/refcodec"
	"verifharness/refdict"
)

// Ctx is a dictionary loaded on both sides.
type Ctx struct {
	*gen.Dict
	Parser *dict.Parser
}

// Load loads the files, in order, into a fresh library parser.
func Load(name string, files ...*refdict.File) (*Ctx, error) {
	p, err := dict.NewParser()
	if err != nil {
		return nil, err
	}
	for _, f := range files {
		if err := p.Load(bytes.NewReader([]byte(f.XML))); err != nil {
			return nil, fmt.Errorf("%s: load %s: %v", name, f.Name, err)
		}
	}
	return &Ctx{Dict: gen.NewDict(name, files...), Parser: p}, nil
}

var (
	embOnce  sync.Once
	embFiles []*refdict.File
	embErr   error
)

// Embedded returns the embedded dictionary files of the tree under test.
func Embedded() ([]*refdict.File, error) {
	embOnce.Do(func() { embFiles, embErr = refdict.Embedded() })
	return embFiles, embErr
}

// DefaultCtx pairs the library's own dict.Default with the reference reading
// of the embedded XML.
func DefaultCtx() (*Ctx, error) {
	fs, err := Embedded()
	if err != nil {
		return nil, err
	}
	return &Ctx{Dict: gen.NewDict("default", fs...), Parser: dict.Default}, nil
}

// GenXML is a generated dictionary that declares every type name, vendor
// specific AVPs, nested groups and an application of its own.
const GenXML = `<?xml version="1.0" encoding="UTF-8"?>
<diameter>
  <application id="0" name="Base">
    <command code="257" short="CE" name="Capabilities-Exchange">
      <request><rule avp="G-Octets" required="false"/></request>
      <answer><rule avp="G-Octets" required="false"/></answer>
    </command>
    <command code="8388000" short="GT" name="Gen-Test">
      <request><rule avp="G-Octets" required="false"/><rule avp="G-Group" required="false"/></request>
      <answer><rule avp="G-Octets" required="false"/></answer>
    </command>
    <avp name="G-Octets" code="9001" must="M" may="P" must-not="V" may-encrypt="Y"><data type="OctetString"/></avp>
    <avp name="G-UTF8" code="9002" must="M" may="P"><data type="UTF8String"/></avp>
    <avp name="G-Ident" code="9003" must="M"><data type="DiameterIdentity"/></avp>
    <avp name="G-URI" code="9004" must="M"><data type="DiameterURI"/></avp>
    <avp name="G-IPFilter" code="9005" must="M"><data type="IPFilterRule"/></avp>
    <avp name="G-QoSFilter" code="9006" must="M"><data type="QoSFilterRule"/></avp>
    <avp name="G-I32" code="9007" must="M"><data type="Integer32"/></avp>
    <avp name="G-I64" code="9008" must="M"><data type="Integer64"/></avp>
    <avp name="G-U32" code="9009" must="M"><data type="Unsigned32"/></avp>
    <avp name="G-U64" code="9010" must="M"><data type="Unsigned64"/></avp>
    <avp name="G-F32" code="9011" may="P"><data type="Float32"/></avp>
    <avp name="G-F64" code="9012" may="P"><data type="Float64"/></avp>
    <avp name="G-Enum" code="9013" must="M"><data type="Enumerated"><item code="0" name="ZERO"/><item code="1" name="ONE"/></data></avp>
    <avp name="G-Time" code="9014" must="M"><data type="Time"/></avp>
    <avp name="G-Addr" code="9015" must="M"><data type="Address"/></avp>
    <avp name="G-IPv4" code="9016" must="M"><data type="IPv4"/></avp>
    <avp name="G-IPv6" code="9017" must="M"><data type="IPv6"/></avp>
    <avp name="G-Group" code="9018" must="M"><data type="Grouped">
      <rule avp="G-Octets" required="false"/><rule avp="G-Group" required="false"/><rule avp="G-Addr" required="false"/></data></avp>
    <avp name="G-Group2" code="9019" must="M"><data type="Grouped">
      <rule avp="G-U32" required="false"/><rule avp="G-Group" required="false"/></data></avp>
    <avp name="GV-Octets" code="9001" must="M,V" vendor-id="99999"><data type="OctetString"/></avp>
    <avp name="GV-U32" code="9020" must="M,V" vendor-id="99999"><data type="Unsigned32"/></avp>
    <avp name="GV-Group" code="9021" must="M,V" vendor-id="99999"><data type="Grouped">
      <rule avp="GV-U32" required="false"/></data></avp>
    <avp name="GV-Addr" code="9022" must="V" vendor-id="10415"><data type="Address"/></avp>
    <avp name="GV-IPv6" code="9023" must="V" vendor-id="10415"><data type="IPv6"/></avp>
  </application>
  <application id="8388001" type="auth" name="Gen-App">
    <vendor id="99999" name="GenVendor"/>
    <command code="8388002" short="GA" name="Gen-App-Cmd">
      <request><rule avp="G-Octets" required="false"/></request>
      <answer><rule avp="G-Octets" required="false"/></answer>
    </command>
    <avp name="GA-U32" code="9100" must="M"><data type="Unsigned32"/></avp>
    <avp name="GA-Octets" code="9001" must="M"><data type="UTF8String"/></avp>
    <avp name="GA-Group" code="9101" must="M"><data type="Grouped"><rule avp="GA-U32" required="false"/></data></avp>
    <avp name="G-Ident" code="9102" must="M"><data type="OctetString"/></avp>
  </application>
</diameter>`

// HierXML is loaded on top of the embedded base dictionary: the applications that the
// library chains (16777251 -> 4 -> 1 -> base, 16777238 -> 4 -> 1 -> base) each with a command
// of their own, and codes that base defines with one type and a parent application with
// another, so that the order application, parents, base decides what a code means.
const HierXML = `<?xml version="1.0" encoding="UTF-8"?>
<diameter>
  <application id="0" name="Base">
    <avp name="H-A" code="9500" must="M"><data type="Unsigned32"/></avp>
    <avp name="H-B" code="9501" must="M"><data type="OctetString"/></avp>
    <avp name="H-C" code="9502" must="M"><data type="Unsigned64"/></avp>
    <avp name="H-D" code="9503" must="M"><data type="Integer32"/></avp>
    <avp name="HV-E" code="9504" must="M,V" vendor-id="10415"><data type="Unsigned32"/></avp>
  </application>
  <application id="1" type="auth" name="H-Nasreq">
    <command code="8388101" short="HN" name="H-Nas-Cmd">
      <request><rule avp="H-A" required="false"/></request>
      <answer><rule avp="H-A" required="false"/></answer>
    </command>
    <avp name="H-A" code="9500" must="M"><data type="UTF8String"/></avp>
    <avp name="H-D" code="9503" must="M"><data type="Grouped"><rule avp="H-A" required="false"/><rule avp="H-B" required="false"/></data></avp>
    <avp name="HV-E" code="9504" must="M,V" vendor-id="10415"><data type="UTF8String"/></avp>
  </application>
  <application id="4" type="auth" name="H-Credit">
    <command code="8388104" short="HC" name="H-Credit-Cmd">
      <request><rule avp="H-A" required="false"/></request>
      <answer><rule avp="H-A" required="false"/></answer>
    </command>
    <avp name="H-B" code="9501" must="M"><data type="Unsigned32"/></avp>
  </application>
  <application id="16777251" type="auth" name="H-S6a">
    <command code="8388151" short="HS" name="H-S6a-Cmd">
      <request><rule avp="H-A" required="false"/></request>
      <answer><rule avp="H-A" required="false"/></answer>
    </command>
    <avp name="H-C" code="9502" must="M"><data type="UTF8String"/></avp>
  </application>
  <application id="16777238" type="auth" name="H-Gx">
    <command code="8388138" short="HG" name="H-Gx-Cmd">
      <request><rule avp="H-A" required="false"/></request>
      <answer><rule avp="H-A" required="false"/></answer>
    </command>
    <avp name="H-G" code="9505" must="M"><data type="Unsigned32"/></avp>
  </application>
</diameter>`

// HierLateXML1 and HierLateXML2 are HierXML cut in two and loaded in the order an
// application that grows its dictionary at run time may use: the child applications (and
// base) first, their parent applications 1 and 4 afterwards. What a code means in a message
// of a child application is decided by the dictionary as it is when the message is read.
var HierLateXML1, HierLateXML2 = func() (string, string) {
	cut := func(id string) string {
		i := strings.Index(HierXML, `  <application id="`+id+`"`)
		j := strings.Index(HierXML[i:], "</application>\n") + i + len("</application>\n")
		return HierXML[i:j]
	}
	head, tail := `<?xml version="1.0" encoding="UTF-8"?>`+"\n<diameter>\n", "</diameter>"
	return head + cut("0") + cut("16777251") + cut("16777238") + tail, head + cut("1") + cut("4") + tail
}()

// GenXML2 is GenXML with the names of two pairs of AVPs exchanged (the codes and
// types stay): the same name means another code than in GenXML.
var GenXML2 = func() string {
	r := strings.NewReplacer(`"G-Octets"`, `"G-UTF8"`, `"G-UTF8"`, `"G-Octets"`, `"G-U32"`, `"G-U64"`, `"G-U64"`, `"G-U32"`)
	return r.Replace(GenXML)
}()

// FromNode converts an abstract value to the library's data type.
func FromNode(n *refcodec.Node) datatype.Type {
	switch n.Kind {
	case refcodec.OctetString:
		return datatype.OctetString(n.B)
	case refcodec.UTF8String:
		return datatype.UTF8String(n.B)
	case refcodec.DiameterIdentity:
		return datatype.DiameterIdentity(n.B)
	case refcodec.DiameterURI:
		return datatype.DiameterURI(n.B)
	case refcodec.IPFilterRule:
		return datatype.IPFilterRule(n.B)
	case refcodec.QoSFilterRule:
		return datatype.QoSFilterRule(n.B)
	case refcodec.Integer32:
		return datatype.Integer32(n.I)
	case refcodec.Integer64:
		return datatype.Integer64(n.I)
	case refcodec.Unsigned32:
		return datatype.Unsigned32(n.U)
	case refcodec.Unsigned64:
		return datatype.Unsigned64(n.U)
	case refcodec.Float32:
		return datatype.Float32(math.Float32frombits(uint32(n.U)))
	case refcodec.Float64:
		return datatype.Float64(math.Float64frombits(n.U))
	case refcodec.Enumerated:
		return datatype.Enumerated(n.I)
	case refcodec.Time:
		return datatype.Time(time.Unix(n.I, 0))
	case refcodec.Address:
		switch n.Fam {
		case 1, 2:
			return datatype.Address(append([]byte(nil), n.B...))
		}
		b := make([]byte, 2+len(n.B))
		b[0], b[1] = byte(n.Fam>>8), byte(n.Fam)
		copy(b[2:], n.B)
		return datatype.Address(b)
	case refcodec.IPv4:
		return datatype.IPv4(net.IP(append([]byte(nil), n.B...)))
	case refcodec.IPv6:
		return datatype.IPv6(net.IP(append([]byte(nil), n.B...)))
	case refcodec.Grouped:
		g := &diam.GroupedAVP{}
		fillGroup(g, n)
		return g
	default:
		return datatype.Unknown(append([]byte(nil), n.B...))
	}
}

// ToNode maps a library AVP to the abstract tree. It reads only the AVP's
// public fields and the concrete value.
func ToNode(a *diam.AVP) (*refcodec.Node, error) {
	n := &refcodec.Node{Code: a.Code, Flags: a.Flags, Vendor: a.VendorID}
	switch v := a.Data.(type) {
	case datatype.OctetString:
		n.Kind, n.B = refcodec.OctetString, []byte(v)
	case datatype.UTF8String:
		n.Kind, n.B = refcodec.UTF8String, []byte(v)
	case datatype.DiameterIdentity:
		n.Kind, n.B = refcodec.DiameterIdentity, []byte(v)
	case datatype.DiameterURI:
		n.Kind, n.B = refcodec.DiameterURI, []byte(v)
	case datatype.IPFilterRule:
		n.Kind, n.B = refcodec.IPFilterRule, []byte(v)
	case datatype.QoSFilterRule:
		n.Kind, n.B = refcodec.QoSFilterRule, []byte(v)
	case datatype.Integer32:
		n.Kind, n.I = refcodec.Integer32, int64(v)
	case datatype.Integer64:
		n.Kind, n.I = refcodec.Integer64, int64(v)
	case datatype.Unsigned32:
		n.Kind, n.U = refcodec.Unsigned32, uint64(v)
	case datatype.Unsigned64:
		n.Kind, n.U = refcodec.Unsigned64, uint64(v)
	case datatype.Float32:
		n.Kind, n.U = refcodec.Float32, uint64(math.Float32bits(float32(v)))
	case datatype.Float64:
		n.Kind, n.U = refcodec.Float64, math.Float64bits(float64(v))
	case datatype.Enumerated:
		n.Kind, n.I = refcodec.Enumerated, int64(v)
	case datatype.Time:
		n.Kind, n.I = refcodec.Time, time.Time(v).Unix()
	case datatype.Address:
		n.Kind = refcodec.Address
		switch {
		case len(v) == 4:
			n.Fam, n.B = 1, []byte(v)
		case len(v) == 16:
			n.Fam, n.B = 2, []byte(v)
		case len(v) >= 2:
			n.Fam, n.B = uint16(v[0])<<8|uint16(v[1]), []byte(v[2:])
		default:
			return nil, fmt.Errorf("AVP %d: Address value of %d bytes", a.Code, len(v))
		}
	case datatype.IPv4:
		n.Kind, n.B = refcodec.IPv4, []byte(v)
	case datatype.IPv6:
		n.Kind, n.B = refcodec.IPv6, []byte(v)
	case datatype.Unknown:
		n.Kind, n.B = refcodec.Unknown, []byte(v)
	case *diam.GroupedAVP:
		n.Kind = refcodec.Grouped
		for _, k := range v.AVP {
			kn, err := ToNode(k)
			if err != nil {
				return nil, err
			}
			n.Kids = append(n.Kids, kn)
		}
	default:
		return nil, fmt.Errorf("AVP %d: unexpected value type %T", a.Code, a.Data)
	}
	if n.B == nil {
		n.B = []byte{}
	}
	return n, nil
}

func ToNodes(avps []*diam.AVP) ([]*refcodec.Node, error) {
	out := make([]*refcodec.Node, 0, len(avps))
	for _, a := range avps {
		n, err := ToNode(a)
		if err != nil {
			return nil, err
		}
		out = append(out, n)
	}
	return out, nil
}

// HeaderOf maps the library header to the reference header.
func HeaderOf(h *diam.Header) refcodec.Header {
	return refcodec.Header{Version: h.Version, Length: h.MessageLength, Flags: h.CommandFlags, Code: h.CommandCode,
		App: h.ApplicationID, HopByHop: h.HopByHopID, EndToEnd: h.EndToEndID}
}

// topDown builds the AVP for n the way an application does that creates the
// outer objects first and fills nested groups afterwards: the AVP is created
// around a still empty group (which sizes it), members are added to the group
// one by one with AddAVP, nested groups again top-down.
func topDown(n *refcodec.Node) *diam.AVP {
	if n.Kind != refcodec.Grouped {
		return diam.NewAVP(n.Code, n.Flags, n.Vendor, FromNode(n))
	}
	g := &diam.GroupedAVP{}
	root := diam.NewAVP(n.Code, n.Flags, n.Vendor, g)
	var fill func(g *diam.GroupedAVP, kids []*refcodec.Node)
	fill = func(g *diam.GroupedAVP, kids []*refcodec.Node) {
		for _, k := range kids {
			if k.Kind != refcodec.Grouped {
				g.AddAVP(diam.NewAVP(k.Code, k.Flags, k.Vendor, FromNode(k)))
				_ = root.Len()
				continue
			}
			// the nested group is attached while still empty, the outer AVP is
			// looked at (an application may log or size it), then it is filled
			kg := &diam.GroupedAVP{}
			g.AddAVP(diam.NewAVP(k.Code, k.Flags, k.Vendor, kg))
			_ = root.Len()
			_ = root.String()
			fill(kg, k.Kids)
			_ = root.Len()
		}
	}
	fill(g, n.Kids)
	return root
}

// Build assembles a library message through the public API: NewMessage, then
// the identifiers set on the public Header (NewMessage replaces 0 by random
// values), then the AVPs with NewAVP / AddAVP / InsertAVP chosen by mode.
func Build(p *dict.Parser, m *gen.Msg, mode int) *diam.Message {
	dm := diam.NewMessage(m.H.Code, m.H.Flags, m.H.App, m.H.HopByHop, m.H.EndToEnd, p)
	dm.Header.HopByHopID = m.H.HopByHop
	dm.Header.EndToEndID = m.H.EndToEnd
	switch mode % 4 {
	case 3:
		// groups assembled top-down, then added to the message
		for _, n := range m.Nodes {
			dm.AddAVP(topDown(n))
		}
	case 0:
		for _, n := range m.Nodes {
			dm.NewAVP(n.Code, n.Flags, n.Vendor, FromNode(n))
		}
	case 1:
		for _, n := range m.Nodes {
			dm.AddAVP(diam.NewAVP(n.Code, n.Flags, n.Vendor, FromNode(n)))
		}
	default:
		for i := len(m.Nodes) - 1; i >= 0; i-- {
			n := m.Nodes[i]
			dm.InsertAVP(diam.NewAVP(n.Code, n.Flags, n.Vendor, FromNode(n)))
		}
	}
	return dm
}

// Safely runs f and converts a panic into an error with the stack.
func Safely(f func()) (err error) {
	defer func() {
		if r := recover(); r != nil {
			err = fmt.Errorf("panic: %v", r)
		}
	}()
	f()
	return nil
}

// fillGroup gives g the members of n. Half of the groups (chosen by the node
// itself, so that a case is reproducible) are assembled top-down: a member
// that is a group joins its parent while still empty and is filled afterwards -
// an order of public API calls an application may well use.
func fillGroup(g *diam.GroupedAVP, n *refcodec.Node) {
	if (int(n.Code)+len(n.Kids))%2 == 0 {
		for _, k := range n.Kids {
			g.AddAVP(diam.NewAVP(k.Code, k.Flags, k.Vendor, FromNode(k)))
		}
		return
	}
	type later struct {
		g *diam.GroupedAVP
		n *refcodec.Node
	}
	var pending []later
	for _, k := range n.Kids {
		if k.Kind == refcodec.Grouped {
			cg := &diam.GroupedAVP{}
			g.AddAVP(diam.NewAVP(k.Code, k.Flags, k.Vendor, cg))
			pending = append(pending, later{cg, k})
			continue
		}
		g.AddAVP(diam.NewAVP(k.Code, k.Flags, k.Vendor, FromNode(k)))
	}
	for _, p := range pending {
		fillGroup(p.g, p.n)
	}
}
