#!/bin/bash
# Builds the harness test binaries (plain and -race) from files on disk; warms the build cache.
set -e
cd "$(dirname "$0")/.."
export GOFLAGS=-mod=mod GOPROXY=off GOSUMDB=off GOTOOLCHAIN=local
python3 - <<'PY'
import sys, os
sys.argv = ["check"]
sys.path.insert(0, os.getcwd())
import importlib.machinery, importlib.util
loader = importlib.machinery.SourceFileLoader("checkmod", os.path.join(os.getcwd(), "check"))
spec = importlib.util.spec_from_loader("checkmod", loader)
m = importlib.util.module_from_spec(spec)
loader.exec_module(m)
for kind in ("plain", "race"):
    p = m.build(kind)
    if not p:
        sys.exit(1)
    print("built", p)
PY
