#!/usr/bin/env python3
"""Regenerates MANIFEST.json from checklib/props.py and checklib/manifest_meta.py."""
import json, os, sys, subprocess
V = os.path.dirname(os.path.dirname(os.path.abspath(__file__)))
sys.path.insert(0, os.path.join(V, "checklib"))
from props import PROPS
from manifest_meta import META, PENDING, HOOK_COMMITS, NOTES
checks = []
for pid in sorted(PROPS):
    m = META[pid]
    c = {
        "property_id": pid,
        "quick_cmd": "./check %s --tier quick" % pid,
        "thorough_cmd": "./check %s --tier thorough" % pid,
        "evidence_file": "/verif/evidence/%s.json" % pid,
        "replay_cmd_template": "./check %s --replay {path}" % pid,
        "engine": "harness/props",
        "level_claimed": {"category": PROPS[pid]["level"], "text": m["text"], "design_ref": m["design_ref"]},
        "level_note": m["note"],
        "technique": m["technique"],
    }
    checks.append(c)
man = {
    "version": 1,
    "setup_cmd": "./bin/setup.sh",
    "hooks": {
        "guard": "verif",
        "enable": "go build tag: go1.26.8 test -tags verif (the harness go.mod replaces github.com/fiorix/go-diameter/v4 by /repo)",
        "baseline_off_cmd": "./bin/baseline_off.sh",
        "source_commits": HOOK_COMMITS,
        "add_only": True,
    },
    "engines": [
        {"name": "props", "path": "harness/props", "serves_properties": sorted(PROPS), "kind_free_text": "Go test binaries (plain and -race) run as child processes by ./check; monitors written for this project"},
        {"name": "refcodec+refdict", "path": "harness/refcodec", "serves_properties": sorted(PROPS), "kind_free_text": "independent RFC 6733 reference codec / dictionary resolver used as oracle"},
        {"name": "memnet+sctpmem", "path": "harness/memnet", "serves_properties": [p for p in sorted(PROPS) if p in ("C05","C06","C07","C08","C10","C11","C12","C13","C14","C15","C16","C19")], "kind_free_text": "in-memory transports with scripted fragmentation, stalls, partial writes and faults; used inside testing/synctest bubbles (virtual clock, quiescence detection)"},
        {"name": "race detector", "path": "go1.26.8 -race", "serves_properties": sorted(PROPS), "kind_free_text": "Go race detector / checkptr over the concurrent workloads; reports parsed from GORACE log_path"},
    ],
    "checks": checks,
    "notes": NOTES,
    "not_applicable": [{"property_id": p, "reason": r} for p, r in sorted(PENDING.items()) if p not in PROPS],
}
json.dump(man, open(os.path.join(V, "MANIFEST.json"), "w"), indent=1)
print("MANIFEST.json: %d checks, %d not_applicable" % (len(checks), len(man["not_applicable"])))
