#!/usr/bin/env python3
"""seedstore.py <round> <src out dir> <results dir> <base commit> [--missed C04-A,C05-B,...]

Copies the confirmed seeded changes of one round (written by independent sub-agents under
<src>/<Cnn>/<X>/ and confirmed + checked by bin/seedtest.py, one JSON line per change in
<results>/<Cnn>-<X>.json) to /verif/seeded/R<round>-<Cnn>-<X>/.  Only changes whose
demonstration, build and pinned suite were confirmed here are kept.
"""
import json, os, shutil, sys, glob

V = os.path.dirname(os.path.dirname(os.path.abspath(__file__)))
rnd, src, resd, base = sys.argv[1:5]
missed = set()
if "--missed" in sys.argv:
    missed = set(sys.argv[sys.argv.index("--missed") + 1].split(","))
kept = notkept = 0
for f in sorted(glob.glob(os.path.join(resd, "*.json"))):
    name = os.path.basename(f)[:-5]
    prop, x = name.split("-")
    try:
        res = json.loads(open(f).read().strip().splitlines()[-1])
    except Exception as e:
        print(name, "no result:", e); notkept += 1; continue
    ok = all(res.get(k) for k in ("demo_passes_without", "patch_applies", "builds", "demo_fails_with_change", "baseline_140"))
    if not ok:
        print(name, "NOT KEPT (not confirmed):", {k: res.get(k) for k in ("demo_passes_without", "patch_applies", "builds", "demo_fails_with_change", "baseline_140")}, res.get("error", "")[:100])
        notkept += 1
        continue
    d = os.path.join(src, prop, x)
    out = os.path.join(V, "seeded", "R%s-%s-%s" % (rnd, prop, x))
    os.makedirs(out, exist_ok=True)
    for fn in os.listdir(d):
        if os.path.isfile(os.path.join(d, fn)):
            shutil.copy(os.path.join(d, fn), os.path.join(out, fn))
    meta = json.load(open(os.path.join(d, "meta.json")))
    meta["round"] = int(rnd)
    meta["confirmed_by_me"] = {k: res.get(k) for k in ("demo_passes_without", "patch_applies", "builds", "demo_fails_with_change", "baseline_140")}
    if res.get("rebased"):
        meta["rebased"] = "patch.diff was written against an earlier commit and no longer applied after a later fix: commit touched the same lines; patch.rebased.diff is the same change carried over by hand to %s and is what was confirmed and checked" % base
    meta["what_i_ran"] = ("bin/seedtest.py %s %s --src %s --wt <scratch git worktree of /repo at %s>: demonstration on the clean tree, git apply of the patch, "
                          "go build ./..., demonstration again, pinned suite (140/140), then ./check %s with VERIF_REPO pointing at the patched worktree") % (prop, x, src, base, prop)
    meta["missed_before_strengthening"] = name in missed
    chk = res.get("checks", {}).get(prop, {})
    meta["final_quick_check"] = {"detected": chk.get("rc") == 1, "first_violation": chk.get("first", "")}
    json.dump(meta, open(os.path.join(out, "meta.json"), "w"), indent=1)
    kept += 1
    if chk.get("rc") != 1:
        print(name, "KEPT but NOT DETECTED")
print("kept", kept, "not kept", notkept)
