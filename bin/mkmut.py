#!/usr/bin/env python3
"""mkmut.py <Cnn> <name> <file-relative-to-repo> <<< JSON [[old,new],...]
Creates mutants/<Cnn>/<name>.patch (unified diff against /repo's working tree)."""
import sys, json, os, difflib
prop, name, rel = sys.argv[1:4]
edits = json.load(sys.stdin)
src = open(os.path.join("/repo", rel)).read()
out = src
for old, new in edits:
    if out.count(old) != 1:
        print("edit does not match exactly once (%d): %r" % (out.count(old), old)); sys.exit(1)
    out = out.replace(old, new)
d = "".join(difflib.unified_diff(src.splitlines(True), out.splitlines(True), "a/" + rel, "b/" + rel))
os.makedirs("/verif/mutants/%s" % prop, exist_ok=True)
open("/verif/mutants/%s/%s.patch" % (prop, name), "w").write(d)
print("wrote mutants/%s/%s.patch" % (prop, name))
