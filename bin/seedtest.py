#!/usr/bin/env python3
"""seedtest.py <Cnn> <A|B|...> [--src /tmp/seed/out] [--wt /tmp/seed/Cnn] [--checks C01,C02|all] [--tier quick]

Confirms a seeded change written by an independent sub-agent (patch.diff + demonstration
+ RUN.txt) in a scratch git worktree of /repo and runs the checks of /verif against it:

  1. demo passes on the clean worktree            2. patch applies, go build ./... ok
  3. demo fails with the patch                     4. pinned suite 140/140 with the patch
  5. ./check <property> (VERIF_REPO=<worktree>) reports VIOLATION ?

Prints one JSON line with the outcome. The worktree is left clean.
"""
import json, os, re, subprocess, sys, shutil

V = os.path.dirname(os.path.dirname(os.path.abspath(__file__)))


def sh(cmd, cwd, timeout=1800, env=None):
    e = dict(os.environ)
    e.update(GOFLAGS="-mod=mod", GOPROXY="off", GOSUMDB="off", GOTOOLCHAIN="local")
    if env:
        e.update(env)
    p = subprocess.run(cmd, cwd=cwd, shell=True, env=e, capture_output=True, text=True, timeout=timeout)
    return p.returncode, p.stdout + p.stderr


def main():
    prop, variant = sys.argv[1], sys.argv[2]
    args = sys.argv[3:]
    src, wt, checks, tier = "/tmp/seed/out", "/tmp/seed/" + prop, prop, "quick"
    i = 0
    while i < len(args):
        if args[i] == "--src": src = args[i + 1]
        elif args[i] == "--wt": wt = args[i + 1]
        elif args[i] == "--checks": checks = args[i + 1]
        elif args[i] == "--tier": tier = args[i + 1]
        i += 2
    d = os.path.join(src, prop, variant)
    res = {"seed": "%s-%s" % (prop, variant), "property": prop}
    run = open(os.path.join(d, "RUN.txt")).read()
    # the demonstration: "cp <demo> <dest>" and the first "go test ..." / "go run ..." line
    m = re.search(r"^\s*cp\s+(\S*demo\S*)\s+(\S+)\s*$", run, re.M)
    g = re.search(r"^\s*((?:GOMAXPROCS=\d+\s+)?go(?:1\.26\.8)?\s+(?:test|run)\s+.*)$", run, re.M)
    if not m or not g:
        res["error"] = "cannot parse RUN.txt"
        print(json.dumps(res)); return 2
    demo_src = m.group(1)
    if not os.path.isabs(demo_src):
        demo_src = os.path.join(d, os.path.basename(demo_src))
    demo_dst, cmd = m.group(2), g.group(1).strip()
    if demo_dst.endswith("/") or os.path.isdir(os.path.join(wt, demo_dst)):
        demo_dst = os.path.join(demo_dst, os.path.basename(demo_src))
    cmd = re.sub(r"\s+-v\b", "", cmd)
    sh("git checkout -- . && git clean -fdq", wt)
    patch = os.path.join(d, "patch.diff")
    if os.path.exists(os.path.join(d, "patch.rebased.diff")):  # rebased by hand after a later fix: commit touched the same lines
        patch = os.path.join(d, "patch.rebased.diff")
        res["rebased"] = True
    try:
        # 1. clean tree: demo passes
        shutil.copy(demo_src, os.path.join(wt, demo_dst))
        rc, out = sh(cmd, wt)
        res["demo_passes_without"] = rc == 0
        # 2. patch applies and builds
        rc, out = sh("git apply %s" % patch, wt)
        res["patch_applies"] = rc == 0
        if rc != 0:
            res["error"] = out[-400:]
            print(json.dumps(res)); return 2
        rc, out = sh("go build ./...", wt)
        res["builds"] = rc == 0
        # 3. demo fails with the patch
        rc, out = sh(cmd, wt)
        res["demo_fails_with_change"] = rc != 0
        res["demo_output_tail"] = out[-300:]
        os.remove(os.path.join(wt, demo_dst))
        # 4. pinned suite
        rc, out = sh("%s %s" % (os.path.join(os.path.dirname(src.rstrip("/")), "baseline.sh"), wt), wt)
        res["baseline_140"] = "140/140" in out
        # 5. the checks
        plist = checks.split(",") if checks != "all" else ["C%02d" % k for k in range(1, 21)]
        res["checks"] = {}
        for p in plist:
            rc, out = sh("./check %s --tier %s" % (p, tier), V, timeout=3600, env={"VERIF_REPO": wt})
            viol = [l for l in out.splitlines() if l.startswith("VIOLATION")]
            first = [l for l in out.splitlines() if l.startswith("  ")]
            res["checks"][p] = {"rc": rc, "violations": len(viol), "first": (first[0][:400] if first else "")}
        res["detected_by"] = [p for p, r in res["checks"].items() if r["rc"] == 1]
    finally:
        sh("git checkout -- . && git clean -fdq", wt)
        tag = __import__("hashlib").sha1(wt.encode()).hexdigest()[:10]
        for f in os.listdir(os.path.join(V, ".build")):
            if tag in f:
                os.remove(os.path.join(V, ".build", f))
    print(json.dumps(res))
    return 0


if __name__ == "__main__":
    sys.exit(main())
