#!/bin/bash
# Runs the repository's pinned suite with the verif guard OFF (default go, no tags)
# and compares the set of passing tests with BASELINE.json's stable_pass list.
set -u
export GOFLAGS=-mod=mod GOPROXY=off GOSUMDB=off GOTOOLCHAIN=local
REPO=${VERIF_REPO:-/repo}
OUT=$(mktemp /dev/shm/baseline.XXXXXX 2>/dev/null || mktemp)
trap 'rm -f "$OUT"' EXIT
(cd "$REPO" && go test -json -vet=off -count=1 -timeout 25m ./... >"$OUT" 2>/dev/null)
python3 - "$OUT" <<'PY'
import json,sys
passed=set()
for line in open(sys.argv[1]):
    line=line.strip()
    if not line.startswith('{'): continue
    try: e=json.loads(line)
    except Exception: continue
    if e.get('Action')=='pass' and e.get('Test'):
        passed.add(e['Package']+'::'+e['Test'])
base=set(json.load(open('/root/.vp/BASELINE.json'))['stable_pass'])
missing=sorted(base-passed)
print("baseline_off: %d/%d stable tests pass with the guard off"%(len(base)-len(missing),len(base)))
for m in missing: print("MISSING", m)
sys.exit(1 if missing else 0)
PY
